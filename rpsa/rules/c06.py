"""C06  Applications observe the linear task state model (DESIGN 5 / C06)"""

import ast

from ..model import (walk, dotted, call_name, kwarg, unparse, short, UNKNOWN,
                     root_name, AnalysisError, calls_in, stores_in_target)
from ..cfg import cfg_of
from ..flow import Deps, guards, must_pass, loop_slice
from .. import idioms as I

STATES = 'states.py'
TASK   = ('task.py', 'Task')
TMGR   = ('task_manager.py', 'TaskManager')


# ------------------------------------------------------------------------------
# R06.1  state table
#
def r06_1(prog, rep, rid='R06.1'):
    rep.rule(rid, 'the task state table is a linear order: None=-1, NEW=0, '
             'non-final values unique and contiguous, X_PENDING directly '
             'before X, the three final states share the maximum', minimum=6)
    tab = prog.const(STATES, '_task_state_values')
    final = prog.const(STATES, 'FINAL')
    new = prog.const(STATES, 'NEW')
    where = STATES + '::_task_state_values'
    nonfinal = {k: v for k, v in tab.items() if k not in final and k is not None}
    vals = sorted(nonfinal.values())
    rep.check(tab.get(None) == -1 and tab.get(new) == 0, rid, where,
              'None -> -1 and NEW -> 0', construct='table:origin',
              message='_task_state_values: None must be -1 and NEW 0 (found '
              '%r, %r)' % (tab.get(None), tab.get(new)))
    rep.check(vals == list(range(len(vals))), rid, where,
              'non-final values are 0..%d without gap or duplicate'
              % (len(vals) - 1), construct='table:contiguous',
              message='_task_state_values: non-final values %s are not a '
              'contiguous, duplicate-free range: two states compare equal or '
              'a gap makes the filled-in intermediate states wrong' % vals,
              history='a notification skipping ahead replays the wrong '
              'intermediate states (or none)')
    fv = {tab.get(f) for f in final}
    rep.check(len(final) == 3 and len(fv) == 1 and
              fv == {len(vals)}, rid, where, 'DONE/FAILED/CANCELED share the '
              'maximum value %d' % len(vals), construct='table:final',
              message='_task_state_values: the final states must share the '
              'value directly above the last non-final state (found %s)'
              % sorted(fv, key=str))
    pend_ok = True
    badp = []
    for k, v in nonfinal.items():
        if k.endswith('_PENDING'):
            base = k[:-len('_PENDING')]
            if nonfinal.get(base) != v + 1:
                pend_ok = False
                badp.append(k)
    rep.check(pend_ok, rid, where, 'every X_PENDING is directly followed by X',
              construct='table:pending', message='_task_state_values: %s not '
              'directly followed by their active state' % badp)
    # stage order = pipeline order
    order = ['TMGR_SCHEDULING', 'TMGR_STAGING_INPUT', 'AGENT_STAGING_INPUT',
             'AGENT_SCHEDULING', 'AGENT_EXECUTING', 'AGENT_STAGING_OUTPUT',
             'TMGR_STAGING_OUTPUT']
    seq = [nonfinal.get(s) for s in order]
    rep.check(None not in seq and seq == sorted(seq), rid, where,
              'the stages are ordered like the pipeline (%s)' % ' < '.join(
                  order), construct='table:pipeline', message='_task_state_'
              'values does not order the stages like the component pipeline: '
              '%s' % list(zip(order, seq)),
              history='a task advancing through the pipeline is seen moving '
              'backwards; its updates are discarded as stale')
    # the inverse table is derived from the value table
    m = prog.module(STATES)
    inv = m.assigns.get('_task_state_inv')
    okinv = bool(inv) and isinstance(inv[-1], ast.DictComp) and \
        '_task_state_values' in unparse(inv[-1].generators[0].iter) and \
        isinstance(inv[-1].generators[0].target, ast.Tuple) and \
        [unparse(inv[-1].key), unparse(inv[-1].value)] == \
        [unparse(e) for e in reversed(inv[-1].generators[0].target.elts)]
    rep.check(okinv, rid, STATES + '::_task_state_inv', '_task_state_inv is '
              'the inversion of _task_state_values', construct='table:inv',
              message='_task_state_inv is not built by inverting '
              '_task_state_values: filled-in intermediate states come from a '
              'different table')


# ------------------------------------------------------------------------------
# R06.2  who writes Task._state, who calls Task._update
#
def _state_writes(f):
    """[(ast node, how)] writes of self._state in a method of Task"""
    out = []
    for n in walk(f.node, nested=True):
        if isinstance(n, (ast.Assign, ast.AugAssign, ast.AnnAssign)):
            tg = n.targets if isinstance(n, ast.Assign) else [n.target]
            for t in tg:
                for e in I._flat(t):
                    if isinstance(e, ast.Attribute) and e.attr == '_state':
                        out.append((n, 'assign'))
        if isinstance(n, ast.Call) and dotted(n.func) == 'setattr' and \
                len(n.args) >= 3:
            out.append((n, 'setattr'))
        if isinstance(n, ast.Call) and isinstance(n.func, ast.Attribute) and \
                n.func.attr in ('update', '__setattr__') and \
                unparse(n.func.value) in ('self.__dict__', 'vars(self)'):
            out.append((n, 'dict'))
    return out


def _update_callers(prog):
    """[(function, call)]: `<task object>._update(...)` anywhere in the
    package (receiver not self / super / a pilot)"""
    callers = []
    for m in prog.modules.values():
        funcs = list(m.funcs.values())
        for c in m.classes.values():
            funcs += list(c.methods.values())
        for f in funcs:
            for c in calls_in(f.node, nested=True):
                if isinstance(c.func, ast.Attribute) and \
                        c.func.attr == '_update' and \
                        unparse(c.func.value) != 'self' and \
                        not unparse(c.func.value).startswith('super'):
                    recv = unparse(c.func.value)
                    if '_pilots' in recv or recv.startswith('pilot'):
                        continue          # Pilot._update: property C14
                    callers.append((f, c))
    return callers


def r06_2(prog, rep, rid='R06.2'):
    rep.rule(rid, 'Task._state is written only by Task.__init__ (NEW) and '
             'Task._update; _update is called only from the replay loop of '
             '_update_tasks and from the guarded pilot-death callback',
             minimum=3)
    task = prog.cls(*TASK)
    new = prog.const(STATES, 'NEW')
    n_upd = 0
    for name, f in sorted(task.methods.items()):
        for n, how in _state_writes(f):
            if name == '__init__' and how == 'assign':
                v = prog.fold(f.module, n.value)
                rep.check(v == new, rid, f, 'Task.__init__ starts in NEW',
                          construct=n, message='Task.__init__ initialises '
                          '_state to %r, not NEW' % (v,), loc=f.loc(n))
            elif name == '_update':
                n_upd += 1
                rep.ok(rid, f, 'Task._update writes the state (%s)' % how,
                       f.loc(n))
            elif how == 'assign':
                rep.bad(rid, f, n, 'Task.%s writes self._state directly (`%s`)'
                        ': the state changes without the forward-only / '
                        'sticky-final guards of _update' % (name, short(n, 50)),
                        f.loc(n), history='a final task becomes non-final '
                        'again, or callbacks and Task.state disagree')
    if not n_upd:
        raise AnalysisError('UNRECOGNISED-IDIOM %s: Task._update does not '
                            'write the state' % task.where)
    # writes of <x>._state on non-self objects in the client-side task modules
    for rel in ('task_manager.py', 'task.py'):
        m = prog.module(rel)
        funcs = list(m.funcs.values())
        for c in m.classes.values():
            funcs += list(c.methods.values())
        for f in funcs:
            for n in walk(f.node, nested=True):
                if isinstance(n, (ast.Assign, ast.AugAssign)):
                    tg = n.targets if isinstance(n, ast.Assign) else [n.target]
                    for t in tg:
                        for e in I._flat(t):
                            if isinstance(e, ast.Attribute) and \
                                    e.attr == '_state' and \
                                    unparse(e.value) != 'self':
                                rep.bad(rid, f, n, '%s writes `%s` from '
                                        'outside Task' % (f.qual, short(e, 40)),
                                        f.loc(n))
                if isinstance(n, ast.Call) and dotted(n.func) == 'setattr' \
                        and n.args and unparse(n.args[0]) != 'self' and \
                        len(n.args) > 1 and 'state' in unparse(n.args[1]):
                    rep.bad(rid, f, n, '%s sets a state attribute through '
                            'setattr on `%s`' % (f.qual, short(n.args[0], 30)),
                            f.loc(n))
    # callers of Task._update
    tm = prog.cls(*TMGR)
    callers = _update_callers(prog)
    for f, c in callers:
        okay = f.cls is tm and f.name in ('_update_tasks', '_pilot_state_cb')
        rep.check(okay, rid, f, '%s calls Task._update' % f.qual, construct=c,
                  message='%s calls `%s`: Task._update is driven from outside '
                  'the two guarded places (replay loop of _update_tasks, '
                  'pilot-death callback)' % (f.qual, short(c, 50)),
                  loc=f.loc(c), history='a raw notification is applied '
                  'without progress normalisation: states are skipped or '
                  'repeated')
    if len(callers) < 1:
        raise AnalysisError('R06.2: only %d callers of Task._update found'
                            % len(callers))


def _linear(e):
    """(coefficients {name: int}, constant) of an integer-linear expression
    over plain names, or None"""
    if isinstance(e, ast.Constant) and isinstance(e.value, int) and \
            not isinstance(e.value, bool):
        return {}, e.value
    if isinstance(e, ast.Name):
        return {e.id: 1}, 0
    if isinstance(e, ast.UnaryOp) and isinstance(e.op, ast.USub):
        x = _linear(e.operand)
        return None if x is None else ({k: -v for k, v in x[0].items()}, -x[1])
    if isinstance(e, ast.BinOp) and isinstance(e.op, (ast.Add, ast.Sub)):
        l, r = _linear(e.left), _linear(e.right)
        if l is None or r is None:
            return None
        sg = 1 if isinstance(e.op, ast.Add) else -1
        co = dict(l[0])
        for k, v in r[0].items():
            co[k] = co.get(k, 0) + sg * v
        return co, l[1] + sg * r[1]
    return None


def _origin(g, e, at):
    """unparse of an expression after following single reaching definitions
    of plain names (flow-sensitive, unlike Deps)"""
    from ..flow import reaching_defs
    for _ in range(4):
        if isinstance(e, ast.Name):
            rd = reaching_defs(g, e.id, at)
            if len(rd) == 1 and rd[0][1] is not None:
                e = rd[0][1]
                continue
        break
    return unparse(e)


# ------------------------------------------------------------------------------
# R06.3  guards dominate the write / the replay
#
def r06_3(prog, rep, rid='R06.3'):
    rep.rule(rid, 'Task._update: the DONE/FAILED early return and the '
             'single-step test dominate the state write; '
             '_task_state_progress: contradictory finals raise before the '
             'numeric comparison, no-progress returns carry an empty list, '
             'the passed list is the range between current and target',
             minimum=8)
    task = prog.cls(*TASK)
    f = prog.find_method(task, '_update')
    rep.saw(f)
    g = cfg_of(f)
    smap = I.stmt_node_map(g)
    d = Deps(f.node)
    done, failed = prog.const(STATES, 'DONE'), prog.const(STATES, 'FAILED')
    canceled = prog.const(STATES, 'CANCELED')
    writes = [smap[id(n)] for n, how in _state_writes(f) if id(n) in smap]
    if not writes:
        raise AnalysisError('UNRECOGNISED-IDIOM %s: state write' % f.where)
    W = writes[0]
    # (1) sticky DONE / FAILED
    ok1 = False
    for tid, lab in guards(g, W.id):
        a = g.nodes[tid].ast
        if isinstance(a, ast.Compare) and len(a.ops) == 1 and \
                isinstance(a.ops[0], (ast.In, ast.NotIn)):
            v = prog.fold(f.module, a.comparators[0], f.cls)
            if v is not UNKNOWN and {done, failed} <= set(v) and \
                    _origin(g, a.left, tid) in ('self.state', 'self._state'):
                if (isinstance(a.ops[0], ast.In) and lab == 'F') or \
                        (isinstance(a.ops[0], ast.NotIn) and lab == 'T'):
                    ok1 = True
    if not ok1:
        # not in the form `current [not] in <list>`: decide it by evaluating
        # the method for every (DONE / FAILED, target) pair (R06.6)
        cache = {}
        try:
            ok1 = all(_update_verdict(prog, f, None, None, c, t, cache)[0] ==
                      'refused' for c in (done, failed)
                      for t in prog.const(STATES, '_task_state_values')
                      if t is not None)
        except AnalysisError:
            ok1 = False
    rep.check(ok1, rid, f, 'the state write is reached only when the current '
              'state is not DONE/FAILED', construct='update:sticky',
              message='Task._update can write the state although the task is '
              'already DONE or FAILED (early return missing, on the wrong '
              'operand, or with the wrong polarity)', loc=f.loc(W.ast),
              history='a task is DONE; a late AGENT_EXECUTING notification '
              'makes Task.state non-final again')
    # (2) single step: a test that is linear in the two state values,
    #     equivalent to  target_value - current_value == 1
    step = None
    lin = None
    for n in g.nodes:
        if n.kind == 'test' and isinstance(n.ast, ast.Compare) and \
                len(n.ast.ops) == 1 and \
                isinstance(n.ast.ops[0], (ast.Eq, ast.NotEq, ast.Lt, ast.Gt,
                                          ast.LtE, ast.GtE)):
            l = _linear(n.ast.left)
            r = _linear(n.ast.comparators[0])
            if l is None or r is None:
                continue
            co = dict(l[0])
            for k, v in r[0].items():
                co[k] = co.get(k, 0) - v
            co = {k: v for k, v in co.items() if v}
            const = l[1] - r[1]
            if len(co) == 2 and sorted(co.values()) == [-1, 1]:
                step, lin = n, (co, const)
    if step is None:
        rep.bad(rid, f, 'update:single-step', 'Task._update has no single-step '
                'test (`target value - current value != 1` => raise): a '
                'notification can skip states', f.loc(),
                history='NEW -> AGENT_EXECUTING is applied directly; the '
                'callbacks never see the states in between')
    else:
        a = step.ast
        op = a.ops[0]
        co, const = lin
        pos = [k for k, v in co.items() if v == 1][0]
        neg = [k for k, v in co.items() if v == -1][0]
        dn = Deps(f.node, implicit=False)

        def dep_of(nm):
            return dn.closure(nm) | {nm}
        # orientation: which of the two names is the target value
        p_t = "task_dict['state']" in dep_of(pos)
        n_t = "task_dict['state']" in dep_of(neg)
        p_c = bool({'self.state', 'self._state'} & dep_of(pos))
        n_c = bool({'self.state', 'self._state'} & dep_of(neg))
        # pos - neg + const  OP  0 ; with pos = target: target - current + const
        bad_lab = None
        dir_ok = False
        if p_t and n_c and not (n_t and not p_c):
            dir_ok = True
            want = -1          # target - current - 1 == 0
        elif n_t and p_c:
            dir_ok = True
            want = 1           # current - target + 1 == 0
        else:
            want = None
        if want is not None and const == want:
            if isinstance(op, ast.NotEq):
                bad_lab = 'T'
            elif isinstance(op, ast.Eq):
                bad_lab = 'F'
        raises = False
        if bad_lab:
            for e in g.succ[step.id]:
                if e.label == bad_lab:
                    r = g.reachable(e.dst, labels={'next', 'T', 'F', 'iter',
                                                   'done'})
                    raises = W.id not in r and g.exit.id not in r
        rep.check(bool(bad_lab) and dir_ok and raises, rid, f,
                  'a step other than +1 (target - current) raises',
                  construct='update:single-step', message='Task._update: the '
                  'single-step test `%s` does not reject every transition '
                  'other than target = current + 1 (%s)' % (
                      short(a, 50), 'operands not target / current state '
                      'values' if not dir_ok else 'wrong operator/constant'
                      if not bad_lab else 'the offending branch does not '
                      'raise'),
                  loc=f.loc(a), history='NEW -> AGENT_EXECUTING (or a step '
                  'backwards) is applied; callbacks see states out of order')
        # every path to the write for a non-final target without `reconnect`
        # passes the test
        rec = [(n.id, 'T') for n in g.nodes if n.kind == 'test' and
               isinstance(n.ast, ast.Name) and n.ast.id == 'reconnect']
        fin = []
        for n in g.nodes:
            if n.kind == 'test' and isinstance(n.ast, ast.Compare) and \
                    len(n.ast.ops) == 1 and \
                    isinstance(n.ast.ops[0], (ast.In, ast.NotIn)):
                v = prog.fold(f.module, n.ast.comparators[0], f.cls)
                if v is not UNKNOWN and set(v) == {failed, canceled}:
                    fin.append((n.id, 'F' if isinstance(n.ast.ops[0],
                                                        ast.NotIn) else 'T'))
        r = g.reachable(g.entry.id, skip_nodes={step.id},
                        skip_edges=rec + fin)
        rep.check(W.id not in r and bool(fin), rid, f, 'every non-FAILED/'
                  'CANCELED update passes the single-step test before the '
                  'write', construct='update:step-dominates',
                  message='Task._update: a target other than FAILED/CANCELED '
                  'can reach the state write without passing the single-step '
                  'test', loc=f.loc(W.ast))

    # _task_state_progress
    fp = prog.function(STATES, '_task_state_progress')
    rep.saw(fp)
    g = cfg_of(fp)
    smap = I.stmt_node_map(g)
    params = fp.params
    if len(params) < 3:
        raise AnalysisError('UNRECOGNISED-IDIOM %s: parameters' % fp.where)
    cur_p, tgt_p = params[-2], params[-1]
    final = set(prog.const(STATES, 'FINAL'))

    def final_tests(pname):
        out = []
        for n in g.nodes:
            if n.kind == 'test' and isinstance(n.ast, ast.Compare) and \
                    len(n.ast.ops) == 1 and isinstance(n.ast.ops[0], ast.In) \
                    and unparse(n.ast.left) == pname:
                v = prog.fold(fp.module, n.ast.comparators[0])
                if v is not UNKNOWN and set(v) == final:
                    out.append(n)
        return out
    ct, tt = final_tests(cur_p), final_tests(tgt_p)
    numeric = [n for n in g.nodes if n.kind == 'test' and
               isinstance(n.ast, ast.Compare) and len(n.ast.ops) == 1 and
               isinstance(n.ast.ops[0], (ast.GtE, ast.Gt, ast.Lt, ast.LtE))]
    raises = [n for n in g.stmt_nodes() if n.kind == 'stmt' and
              isinstance(n.ast, ast.Raise)]
    if not numeric:
        raise AnalysisError('UNRECOGNISED-IDIOM %s: numeric comparison'
                            % fp.where)
    skip = [(n.id, 'F') for n in ct + tt]
    r = g.reachable(g.entry.id, skip_edges=skip)
    okr = bool(ct) and bool(tt) and bool(raises) and \
        not any(n.id in r for n in numeric) and any(x.id in r for x in raises)
    rep.check(okr, rid, fp, 'two final states never reach the numeric '
              'comparison: they raise (or take the CANCELED correction)',
              construct='progress:final-final', message='_task_state_progress '
              'lets a final -> final request reach the numeric comparison: '
              'finals compare equal, the contradiction is silently dropped '
              'instead of being reported (or, with changed values, a final '
              'state is replaced)', loc=fp.loc(),
              history='DONE followed by FAILED for the same task')
    # no-progress returns carry an empty list
    for n in g.stmt_nodes():
        if n.kind != 'stmt' or not isinstance(n.ast, ast.Return):
            continue
        v = n.ast.value
        if isinstance(v, (ast.List, ast.Tuple)) and len(v.elts) == 2:
            first, second = v.elts
            if isinstance(second, (ast.List, ast.Tuple)):
                rep.check(not second.elts, rid, fp, '`%s` carries an empty '
                          'passed list' % short(n.ast, 40), construct=n.ast,
                          message='_task_state_progress returns a literal, '
                          'non-empty passed list `%s`' % short(n.ast, 50),
                          loc=fp.loc(n.ast))
            elif isinstance(second, ast.Name):
                # the computed list: guarded by cur < tgt
                okg = False
                for tid, lab in guards(g, n.id):
                    a = g.nodes[tid].ast
                    if g.nodes[tid] in numeric:
                        op = a.ops[0]
                        l_cur = cur_p[:3] in unparse(a.left)
                        if l_cur and (isinstance(op, ast.GtE) and lab == 'F'
                                      or isinstance(op, ast.Lt) and lab == 'T'):
                            okg = True
                        if not l_cur and (isinstance(op, ast.LtE) and
                                          lab == 'F' or isinstance(op, ast.Gt)
                                          and lab == 'T'):
                            okg = True
                rep.check(okg, rid, fp, 'the computed passed list is returned '
                          'only when current < target', construct=n.ast,
                          message='_task_state_progress returns the computed '
                          'list without (or with a wrongly oriented) '
                          '`current >= target` guard: equal or earlier states '
                          'are replayed', loc=fp.loc(n.ast),
                          history='a duplicate notification triggers the '
                          'callback for the same state again')
                # built from range(cur + 1, tgt) + target
                pl = second.id
                rng = [x for x in walk(fp.node) if isinstance(x, ast.For) and
                       isinstance(x.iter, ast.Call) and
                       dotted(x.iter.func) == 'range' and any(
                           isinstance(c.func, ast.Attribute) and
                           c.func.attr == 'append' and
                           unparse(c.func.value) == pl for c in calls_in(x))]
                okb = False
                if rng:
                    a0 = rng[0].iter.args
                    okb = len(a0) == 2 and isinstance(a0[0], ast.BinOp) and \
                        isinstance(a0[0].op, ast.Add) and \
                        unparse(a0[0].right) == '1' and \
                        '_task_state_inv' in unparse(rng[0])
                last = [c for c in calls_in(fp.node)
                        if isinstance(c.func, ast.Attribute) and
                        c.func.attr == 'append' and
                        unparse(c.func.value) == pl and c.args and
                        unparse(c.args[0]) == tgt_p]
                # passed += [target] / passed.extend([target])
                for x in walk(fp.node):
                    if isinstance(x, ast.AugAssign) and \
                            isinstance(x.op, ast.Add) and \
                            unparse(x.target) == pl and \
                            isinstance(x.value, (ast.List, ast.Tuple)) and \
                            [unparse(e) for e in x.value.elts] == [tgt_p]:
                        last.append(x)
                    if isinstance(x, ast.Call) and \
                            isinstance(x.func, ast.Attribute) and \
                            x.func.attr == 'extend' and \
                            unparse(x.func.value) == pl and x.args and \
                            isinstance(x.args[0], (ast.List, ast.Tuple)) and \
                            [unparse(e) for e in x.args[0].elts] == [tgt_p]:
                        last.append(x)
                rep.check(okb and len(last) == 1, rid, fp, 'passed = states '
                          'of range(current+1, target) + [target]',
                          construct='progress:range', message='_task_state_'
                          'progress does not build the passed list as the '
                          'states strictly between current and target '
                          'followed by the target', loc=fp.loc(n.ast),
                          history='NEW -> TMGR_STAGING_INPUT replays NEW '
                          'again or omits the target state')


# ------------------------------------------------------------------------------
# R06.4 / R06.5  the batch loop
#
def _raises_by_design(prog, callee, depth=3, seen=None):
    seen = seen or set()
    if callee is None or id(callee) in seen:
        return False
    seen.add(id(callee))
    for n in walk(callee.node):
        if isinstance(n, ast.Raise) and n.exc is not None:
            return True
    if depth <= 0:
        return False
    for c in calls_in(callee.node):
        if _raises_by_design(prog, prog.resolve_call(callee, c), depth - 1,
                             seen):
            return True
    return False


def _raised_types(prog, callee, depth=2, seen=None):
    """names of the exception classes raised explicitly (not by assert) in
    callee and its resolved callees"""
    seen = seen if seen is not None else set()
    out = set()
    if callee is None or id(callee) in seen:
        return out
    seen.add(id(callee))
    for n in walk(callee.node):
        if isinstance(n, ast.Raise) and n.exc is not None:
            e = n.exc.func if isinstance(n.exc, ast.Call) else n.exc
            out.add(unparse(e).split('.')[-1])
    if depth > 0:
        for c in calls_in(callee.node):
            out |= _raised_types(prog, prog.resolve_call(callee, c),
                                 depth - 1, seen)
    return out


def _exempt_targets(prog):
    """target states for which Task._update skips the single-step test"""
    task = prog.cls(*TASK)
    f = prog.find_method(task, '_update')
    g = cfg_of(f)
    for n in g.nodes:
        if n.kind == 'test' and isinstance(n.ast, ast.Compare) and \
                len(n.ast.ops) == 1 and \
                isinstance(n.ast.ops[0], (ast.In, ast.NotIn)) and \
                'target' in unparse(n.ast.left):
            v = prog.fold(f.module, n.ast.comparators[0], f.cls)
            if v is not UNKNOWN and isinstance(v, (list, tuple)) and \
                    isinstance(n.ast.ops[0], ast.NotIn):
                return set(v)
    return set()


def batch_info(prog):
    tm = prog.cls(*TMGR)
    f = prog.find_method(tm, '_update_tasks')
    g = cfg_of(f)
    smap = I.stmt_node_map(g)
    param = [p for p in f.params if p != 'self'][0]
    loops = [n for n in g.nodes if n.kind == 'for' and
             unparse(n.ast.iter) == param]
    if len(loops) != 1:
        raise AnalysisError('UNRECOGNISED-IDIOM %s: batch loop' % f.where)
    return tm, f, g, smap, loops[0]


def r06_4(prog, rep, rid='R06.4'):
    rep.rule(rid, 'per-notification isolation: a call in the batch loop of '
             '_update_tasks that raises by design is caught inside the loop, '
             'so one bad notification does not drop the others', minimum=1)
    tm, f, g, smap, H = batch_info(prog)
    rep.saw(f)
    task = prog.cls(*TASK)
    body = g.loop_body[H.id]
    n_found = 0
    for n in g.nodes:
        if n.id not in body:
            continue
        for c in I.stmt_calls(n):
            callee = prog.resolve_call(f, c)
            anchored = False
            if callee is None and isinstance(c.func, ast.Attribute) and \
                    c.func.attr == '_update':
                callee = prog.find_method(task, '_update')
                anchored = True
            if call_name(c).endswith('_task_state_progress'):
                anchored = True
            if callee is None:
                continue
            if not anchored and (not _raises_by_design(prog, callee, 2) or
                                 callee.name in ('debug', 'get')):
                continue
            n_found += 1
            raised = _raised_types(prog, callee, 2)
            # the exception edge of this node must lead to a handler inside
            # the loop which does not re-raise and which covers the types the
            # callee raises
            caught = False
            for e in g.succ[n.id]:
                if e.label != 'exc':
                    continue
                tgt = g.nodes[e.dst]
                hs = [g.nodes[x.dst] for x in g.succ[tgt.id]
                      if x.label == 'exc'] if tgt.kind == 'dispatch' else [tgt]
                hd = [h for h in hs if h.kind == 'handler' and h.id in body]
                covered = set()
                for h in hd:
                    t = h.ast.type
                    if t is None:
                        covered |= {'*'}
                    else:
                        for x in (t.elts if isinstance(t, ast.Tuple) else [t]):
                            nm = unparse(x).split('.')[-1]
                            covered.add('*' if nm in ('Exception',
                                                      'BaseException') else nm)
                if hd and ('*' in covered or (raised and raised <= covered)):
                    # handler bodies must not re-raise unconditionally
                    rer = False
                    for h in hd:
                        r = g.reachable(h.id, labels={'next', 'T', 'F', 'iter',
                                                      'done'})
                        if not any(ed.back and ed.dst == H.id or
                                   ed.dst not in body
                                   for x in r for ed in g.succ[x]
                                   if ed.label != 'exc'):
                            rer = True
                    caught = not rer
            rep.check(caught, rid, f, '`%s` (raises by design) is isolated per '
                      'notification' % short(c, 50), construct=c,
                      message='TaskManager._update_tasks calls `%s`, which '
                      'raises by design, without catching the exception '
                      'inside the per-notification loop: one contradictory or '
                      'invalid notification aborts the whole batch and the '
                      'callbacks already collected are never delivered'
                      % short(c, 60), loc=f.loc(c),
                      history='batch [t1: AGENT_EXECUTING, t2: FAILED after '
                      'DONE, t3: DONE]: t2 raises, t3 is never updated, the '
                      'callback for t1 is lost')
    if n_found < 1:
        raise AnalysisError('R06.4: only %d of the two anchored calls '
                            '(_task_state_progress, Task._update) found in '
                            'the batch loop' % n_found)


def r06_5(prog, rep, rid='R06.5'):
    rep.rule(rid, 'replay: known states are skipped, the passed states of '
             '_task_state_progress(uid, current, target) are applied one by '
             'one through _update and announced once each, in order',
             minimum=4)
    tm, f, g, smap, H = batch_info(prog)
    d = Deps(f.node)
    prog_calls = [c for c in calls_in(f.node)
                  if call_name(c).endswith('_task_state_progress')]
    if len(prog_calls) != 1:
        raise AnalysisError('UNRECOGNISED-IDIOM %s: _task_state_progress call'
                            % f.where)
    pc = prog_calls[0]
    pn = smap[id(pc)]
    start = loop_slice(g, H.id)[0]
    # arguments: (uid, current state of the task object, state of the
    # notification)
    a = pc.args
    from ..flow import reaching_defs
    tdv = H.ast.target.id if isinstance(H.ast.target, ast.Name) else '#'

    def origin(e):
        # expression after following single reaching definitions of names
        for _ in range(4):
            if isinstance(e, ast.Name):
                rd = reaching_defs(g, e.id, pn.id)
                if len(rd) == 1 and rd[0][1] is not None:
                    e = rd[0][1]
                    continue
            break
        return e
    okargs = False
    if len(a) == 3:
        o1, o2 = origin(a[1]), origin(a[2])
        okargs = isinstance(o1, ast.Attribute) and o1.attr == 'state' and \
            isinstance(o2, ast.Subscript) and \
            isinstance(o2.slice, ast.Constant) and \
            o2.slice.value == 'state' and root_name(o2) == tdv
    rep.check(okargs, rid, f, 'progress is computed from (task.state, '
              "notification['state']) in that order", construct=pc,
              message='_update_tasks calls `%s`: current and target state are '
              'not (state of the task object, state of the notification)'
              % short(pc, 70), loc=f.loc(pc),
              history='every forward notification is treated as stale and '
              'every stale one replayed')
    # skip on current == target
    oks = False
    for tid, lab in guards(g, pn.id, start=start):
        t = g.nodes[tid].ast
        if isinstance(t, ast.Compare) and len(t.ops) == 1 and len(a) == 3 and \
                {_origin(g, t.left, tid), _origin(g, t.comparators[0], tid)} \
                == {unparse(origin(a[1])), unparse(origin(a[2]))}:
            if (isinstance(t.ops[0], ast.Eq) and lab == 'F') or \
                    (isinstance(t.ops[0], ast.NotEq) and lab == 'T'):
                oks = True
    rep.check(oks, rid, f, 'a notification for the state the task already has '
              'is skipped', construct='batch:skip-known',
              message='_update_tasks does not skip notifications whose state '
              'equals the current state before computing the progress',
              loc=f.loc(pc), history='a duplicated notification (informational'
              ' only: _task_state_progress also answers with an empty list)')
    # the replay loop
    asg = pn.ast
    passed = None
    if isinstance(asg, ast.Assign) and isinstance(asg.targets[0], ast.Tuple) \
            and len(asg.targets[0].elts) == 2 and \
            isinstance(asg.targets[0].elts[1], ast.Name):
        passed = asg.targets[0].elts[1].id
    if passed is None:
        raise AnalysisError('UNRECOGNISED-IDIOM %s: result of '
                            '_task_state_progress' % f.where)
    rl = [n for n in g.nodes if n.kind == 'for' and
          isinstance(n.ast.iter, ast.Name) and n.ast.iter.id == passed and
          isinstance(n.ast.target, ast.Name)]
    if len(rl) != 1:
        raise AnalysisError('UNRECOGNISED-IDIOM %s: replay loop over %s'
                            % (f.where, passed))
    R = rl[0]
    s = R.ast.target.id
    body = g.loop_body[R.id]
    upd = [c for c in calls_in(R.ast) if isinstance(c.func, ast.Attribute) and
           c.func.attr == '_update']
    setst = [n for n in g.stmt_nodes() if n.id in body and n.kind == 'stmt'
             and isinstance(n.ast, ast.Assign) and
             isinstance(n.ast.value, ast.Name) and n.ast.value.id == s and
             any(isinstance(t, ast.Subscript) and
                 isinstance(t.slice, ast.Constant) and
                 t.slice.value == 'state' for t in n.ast.targets)]
    rstart = loop_slice(g, R.id)[0]
    oku = len(upd) == 1 and bool(setst) and \
        must_pass(g, rstart, smap[id(upd[0])].id, [n.id for n in setst]) and \
        not [x for x in guards(g, smap[id(upd[0])].id, start=rstart)] and \
        upd[0].args and root_name(upd[0].args[0]) == root_name(
            setst[0].ast.targets[0])
    rep.check(oku, rid, f, "each passed state is written into the notification "
              "and applied through _update", construct='batch:replay',
              message="the replay loop of _update_tasks does not set "
              "task_dict['state'] = %s and then call _update(task_dict) "
              "unconditionally for every passed state" % s, loc=f.loc(R.ast),
              history='NEW -> AGENT_SCHEDULING: intermediate states are '
              'announced but never applied, or applied with the final target '
              'so that _update rejects the step')
    # rewrites of the passed list between progress and replay keep the order
    for n in g.stmt_nodes():
        if n.kind == 'stmt' and isinstance(n.ast, ast.Assign) and any(
                isinstance(t, ast.Name) and t.id == passed
                for t in n.ast.targets) and n is not pn:
            v = n.ast.value
            okv = isinstance(v, ast.Subscript) and \
                isinstance(v.value, ast.Name) and v.value.id == passed and \
                isinstance(v.slice, ast.Slice) and (
                    v.slice.step is None or unparse(v.slice.step) == '1')
            # a slice that drops elements is only sound for targets which
            # Task._update accepts without the single-step test
            if okv and (v.slice.lower is not None or
                        v.slice.upper is not None):
                exempt = _exempt_targets(prog)
                allowed = None
                for tid, lab in guards(g, n.id, start=start):
                    t = g.nodes[tid].ast
                    if isinstance(t, ast.Compare) and len(t.ops) == 1:
                        vv = prog.fold(f.module, t.comparators[0])
                        if vv is UNKNOWN:
                            continue
                        if isinstance(t.ops[0], ast.In) and lab == 'T':
                            allowed = set(vv)
                        elif isinstance(t.ops[0], ast.Eq) and lab == 'T':
                            allowed = {vv}
                rep.check(allowed is not None and allowed <= exempt, rid, f,
                          'intermediate states are dropped (`%s`) only for '
                          'targets exempt from the single-step test %s'
                          % (short(n.ast, 30), sorted(exempt)),
                          construct='batch:truncate',
                          message='_update_tasks drops intermediate states '
                          '(`%s`) for targets %s, but Task._update accepts '
                          'only %s without the single-step test: the '
                          'truncated update is rejected and the task is '
                          'stuck in its old state' % (
                              short(n.ast, 40), sorted(allowed) if allowed
                              else 'of any state', sorted(exempt)),
                          loc=f.loc(n.ast),
                          history='a notification jumps from AGENT_EXECUTING '
                          'to DONE: the replay is cut to [DONE], _update '
                          'raises, the task never becomes final')
            rep.check(okv, rid, f, '`%s` keeps the model order'
                      % short(n.ast, 40), construct=n.ast,
                      message='_update_tasks rewrites the passed states with '
                      '`%s`: not an order-preserving slice' % short(n.ast, 50),
                      loc=f.loc(n.ast), history='callbacks announce states in '
                      'the wrong order')
    # announcement: collected once per applied state, delivered once
    coll = [c for c in calls_in(R.ast) if isinstance(c.func, ast.Attribute) and
            c.func.attr == 'append' and isinstance(c.func.value, ast.Name) and
            c.args and s in {x.id for x in walk(c.args[0])
                             if isinstance(x, ast.Name)}]
    okc = len(coll) == 1 and upd and \
        set(guards(g, smap[id(coll[0])].id, start=rstart)) == \
        set(guards(g, smap[id(upd[0])].id, start=rstart))
    rep.check(okc, rid, f, 'one callback record per applied state',
              construct='batch:collect', message='_update_tasks does not '
              'collect exactly one (task, state) record per state it applies',
              loc=f.loc(R.ast), history='a state is applied without callback '
              'or announced twice')
    if coll:
        lst = coll[0].func.value.id
        notif = [n for n in g.nodes if n.kind == 'for' and
                 isinstance(n.ast.iter, ast.Name) and n.ast.iter.id == lst]
        bulk = [c for c in calls_in(f.node) if lst in
                {x.id for x in walk(c) if isinstance(x, ast.Name)} and
                call_name(c).startswith('self._') and
                'cb' in call_name(c)]
        okn = False
        for n in notif:
            if H.id in n.loops or R.id in n.loops:
                continue
            tv = stores_in_target(n.ast.target)
            for c in calls_in(n.ast):
                if call_name(c).startswith('self._') and 'cb' in \
                        call_name(c) and [unparse(x) for x in c.args] == tv:
                    okn = True
        okn = okn or any(H.id not in smap[id(c)].loops for c in bulk)
        rep.check(okn, rid, f, 'the collected (task, state) records are '
                  'delivered to the callbacks after the batch, in order',
                  construct='batch:deliver', message='_update_tasks does not '
                  'deliver the collected (task, state) records to the '
                  'callback dispatcher once, after the batch loop',
                  loc=f.loc(), history='state callbacks are never invoked, or '
                  'invoked inside the loop once per remaining notification')


# ------------------------------------------------------------------------------
# R06.6  a final state is never left on the direct update path
#
# Task._update and its direct callers are evaluated over the finite domain of
# the state constants: for a fixed current state of the task and a fixed
# target state, tests over these two (and over anything computed from them
# and from module / class constants) have a definite outcome; tests over
# anything else are free (both branches).  A test that depends on the two
# states but cannot be evaluated taints the path: what is found behind it is
# never reported as a violation (UNRECOGNISED-IDIOM instead).
#
_FREE = ('u', None, False)    # unknown, independent of current / target state
_DEP  = ('u', None, True)     # unknown, computed from current / target state
_RECV = ('recv', None, True)  # the task object itself
_UPD  = ('upd', None, True)   # the update dict handed to Task._update
_STATE_ATTRS = ('state', '_state')


def _c(v, dep=False):
    return ('c', v, dep)


def _body_expr(fn):
    """the expression of a function whose body is a single `return <expr>`"""
    stmts = [s for s in fn.node.body
             if not (isinstance(s, ast.Expr) and
                     isinstance(s.value, ast.Constant))]
    if len(stmts) == 1 and isinstance(stmts[0], ast.Return) and \
            stmts[0].value is not None:
        return stmts[0].value
    return None


class _Scope:
    """one function, evaluated for a task in state `cur` and (in Task._update)
    an update dict whose 'state' is `tgt`"""

    def __init__(self, prog, f, cur, tgt=None, recv=(), site=None, depth=0):
        from ..flow import assigned_names
        self.prog, self.f = prog, f
        self.cur, self.tgt = cur, tgt
        self.recv = set(recv)         # source texts denoting the task object
        self.site = site              # the `_update` call looked at (caller)
        self.dparam = 'task_dict'     # name of _update's dict parameter
        self.depth = depth
        self.locals = set(f.params) | assigned_names(f.node)
        self._task = None
        self._deps = None
        self._ideps = None

    # -- expressions ----------------------------------------------------------
    def ev(self, e, env):
        if self.recv and isinstance(e, (ast.Name, ast.Attribute,
                                        ast.Subscript)) and \
                unparse(e) in self.recv:
            return _RECV
        m = getattr(self, '_ev_' + type(e).__name__, None)
        return m(e, env) if m else self._opaque(e, env)

    def _opaque(self, e, env):
        dep = False
        for n in walk(e, nested=True):
            if isinstance(n, ast.Name):
                v = env.get(n.id)
                if (v is not None and v[2]) or n.id in self.recv:
                    dep = True
            elif isinstance(n, (ast.Attribute, ast.Subscript)) and \
                    self.recv and unparse(n) in self.recv:
                dep = True
            elif isinstance(n, ast.Attribute) and n.attr in _STATE_ATTRS and \
                    not self.foreign(n.value):
                dep = True
        return _DEP if dep else _FREE

    def foreign(self, e):
        """the object denoted by e is handed in from outside (reached from a
        parameter other than self only): not one of the tasks the receiver
        of this function knows, its `.state` says nothing about them"""
        return self.foreign_name(root_name(e))

    def foreign_name(self, r):
        if r is None or r == 'self':
            return False
        params = [p for p in self.f.params if p != 'self']
        if r in params:
            return True
        if self._deps is None:
            self._deps = Deps(self.f.node, implicit=False)
        cl = self._deps.closure(r)
        return bool(cl & set(params)) and not any(
            x == 'self' or x.startswith('self.') or x.startswith('ret:')
            for x in cl)

    def hidden_dep(self, test):
        """a test the evaluator takes as free depends (flow-insensitively,
        implicit flows included) on the state of a task after all, e.g.
        through a container filled under a test on `<task>.state`"""
        if self._ideps is None:
            self._ideps = Deps(self.f.node, implicit=True)
        for l in self._ideps.expr_depends(test):
            head, _, attr = l.rpartition('.')
            if attr in _STATE_ATTRS and head and '.' not in head and (
                    head in self.recv or not self.foreign_name(head)):
                return True
        return False

    def _ev_Constant(self, e, env):
        return _c(e.value)

    def _ev_Name(self, e, env):
        if e.id in env:
            return env[e.id]
        if e.id in self.locals:
            return _FREE
        v = self.prog.fold(self.f.module, e)
        return _FREE if v is UNKNOWN else _c(v)

    def _ev_Attribute(self, e, env):
        b = self.ev(e.value, env)
        if b[0] == 'recv' and e.attr in _STATE_ATTRS:
            return _c(self.cur, True)
        if b[0] in ('u', 'recv'):
            v = self.prog.fold(self.f.module, e, self.f.cls)
            if v is not UNKNOWN:
                return _c(v)
        if b[0] == 'recv':
            # a property is evaluated, a data attribute other than the state
            # is taken as independent of the state
            m = self.prog.find_method(self.task_cls(), e.attr)
            if m is None:
                return _FREE
            body = _body_expr(m)
            if self.depth < 3 and body is not None and 'property' in {
                    dotted(d) for d in m.node.decorator_list} and \
                    len(m.params) == 1:
                sub = _Scope(self.prog, m, self.cur, None,
                             depth=self.depth + 1)
                return sub.ev(body, {m.params[0]: _RECV})
            return _DEP
        if e.attr in _STATE_ATTRS and not self.foreign(e.value):
            return _DEP                # the state of some other task
        return ('u', None, b[2])

    def _upd_get(self, k, env):
        if k[0] != 'c':
            return _DEP
        if k[1] != 'state':
            return _FREE
        if '#tgt' in env:
            return env['#tgt']
        return _DEP if self.tgt is None else _c(self.tgt, True)

    def _lit_get(self, b, k, default=None):
        if k[0] != 'c':
            return ('u', None, True)
        try:
            if k[1] in b[1]:
                return b[1][k[1]]
        except TypeError:
            pass
        return default

    def _ev_Subscript(self, e, env):
        b = self.ev(e.value, env)
        k = self.ev(e.slice, env)
        if b[0] == 'upd':
            return self._upd_get(k, env)
        if b[0] == 'lit':
            return self._lit_get(b, k) or _FREE
        if b[0] == 'c' and k[0] == 'c':
            try:
                return _c(b[1][k[1]], b[2] or k[2])
            except Exception:                                   # noqa
                pass
        return ('u', None, b[2] or k[2])

    def _ev_Call(self, e, env):
        fn = e.func
        if any(isinstance(a, ast.Starred) for a in e.args) or \
                any(k.arg is None for k in e.keywords):
            return self._opaque(e, env)
        args = [self.ev(a, env) for a in e.args]
        base = None
        if isinstance(fn, ast.Attribute):
            base = self.ev(fn.value, env)
            if fn.attr == 'get' and args:
                if base[0] == 'upd':
                    return self._upd_get(args[0], env)
                dflt = args[1] if len(args) > 1 else _c(None)
                if base[0] == 'lit':
                    return self._lit_get(base, args[0], dflt)
                if base[0] == 'c' and isinstance(base[1], dict) and \
                        args[0][0] == 'c' and dflt[0] == 'c':
                    try:
                        return _c(base[1].get(args[0][1], dflt[1]),
                                  base[2] or args[0][2])
                    except TypeError:
                        pass
        name = dotted(fn)
        if name == 'getattr' and len(args) >= 2 and args[0][0] == 'recv' and \
                args[1][0] == 'c' and args[1][1] in _STATE_ATTRS:
            return _c(self.cur, True)
        if name == 'dict' and not args and e.keywords:
            return ('lit', {k.arg: self.ev(k.value, env) for k in e.keywords},
                    False)
        if name in ('list', 'tuple', 'set', 'frozenset', 'len', 'bool', 'str',
                    'sorted') and len(args) == 1 and not e.keywords and \
                args[0][0] == 'c' and name not in self.locals:
            try:
                return _c({'list': list, 'tuple': tuple, 'set': set,
                           'frozenset': frozenset, 'len': len, 'bool': bool,
                           'str': str, 'sorted': sorted}[name](args[0][1]),
                          args[0][2])
            except Exception:                                   # noqa
                pass
        r = self._inline(e, env, args, base)
        if r is not None:
            return r
        dep = any(a[2] for a in args) or bool(base and base[2]) or \
            any(self.ev(k.value, env)[2] for k in e.keywords)
        return _DEP if dep else _FREE

    def task_cls(self):
        if self._task is None:
            self._task = self.prog.cls(*TASK)
        return self._task

    def _inline(self, e, env, args, base):
        """value of a call of a helper whose body is `return <expr>`"""
        if self.depth >= 3:
            return None
        fn = e.func
        callee = None
        if base is not None and base[0] == 'recv':
            callee = self.prog.find_method(self.task_cls(), fn.attr)
        elif isinstance(fn, ast.Name) and fn.id in env:
            return None
        else:
            try:
                callee = self.prog.resolve_call(self.f, e)
            except AnalysisError:
                callee = None
        if callee is None:
            return None
        body = _body_expr(callee)
        a = callee.node.args
        if body is None or a.vararg or a.kwarg or a.kwonlyargs:
            return None
        params = [x.arg for x in a.posonlyargs + a.args]
        deco = {dotted(d) for d in callee.node.decorator_list}
        vals = list(args)
        if callee.cls is not None and 'staticmethod' not in deco and \
                callee.parent is None:
            if base is None or 'classmethod' in deco:
                return None
            vals = [base] + vals
        if len(vals) > len(params):
            return None
        bound = dict(zip(params, vals))
        for k in e.keywords:
            if k.arg not in params or k.arg in bound:
                return None
            bound[k.arg] = self.ev(k.value, env)
        nd = len(a.defaults)
        for prm, dv in zip(a.args[len(a.args) - nd:], a.defaults):
            if prm.arg not in bound:
                v = self.prog.fold(callee.module, dv)
                bound[prm.arg] = _FREE if v is UNKNOWN else _c(v)
        if any(p not in bound for p in params):
            return None
        sub = _Scope(self.prog, callee, self.cur, None, depth=self.depth + 1)
        return sub.ev(body, bound)

    @staticmethod
    def _cmp(op, a, b):
        dep = a[2] or b[2]
        if a[0] != 'c' or b[0] != 'c':
            return ('u', None, dep)
        x, y = a[1], b[1]
        try:
            if isinstance(op, ast.Eq):
                return _c(x == y, dep)
            if isinstance(op, ast.NotEq):
                return _c(x != y, dep)
            if isinstance(op, ast.In):
                return _c(x in y, dep)
            if isinstance(op, ast.NotIn):
                return _c(x not in y, dep)
            if isinstance(op, (ast.Is, ast.IsNot)):
                if any(z is None or isinstance(z, bool) for z in (x, y)):
                    r = x is y
                    return _c(r if isinstance(op, ast.Is) else not r, dep)
                return ('u', None, dep)
            if isinstance(op, ast.Lt):
                return _c(x < y, dep)
            if isinstance(op, ast.LtE):
                return _c(x <= y, dep)
            if isinstance(op, ast.Gt):
                return _c(x > y, dep)
            if isinstance(op, ast.GtE):
                return _c(x >= y, dep)
        except Exception:                                       # noqa
            pass
        return ('u', None, dep)

    def _ev_Compare(self, e, env):
        vals = [self.ev(x, env) for x in [e.left] + list(e.comparators)]
        dep = False
        for i, op in enumerate(e.ops):
            v = self._cmp(op, vals[i], vals[i + 1])
            if v[0] != 'c':
                return ('u', None, any(x[2] for x in vals))
            dep = dep or v[2]
            if not v[1]:
                return _c(False, dep)
        return _c(True, dep)

    @staticmethod
    def truth(v):
        """True / False / None (unknown)"""
        if v[0] == 'c':
            return bool(v[1])
        if v[0] == 'recv':
            return True
        if v[0] == 'lit':
            return bool(v[1])
        return None

    def _ev_BoolOp(self, e, env):
        is_and = isinstance(e.op, ast.And)
        dep, unk, last = False, False, None
        for x in e.values:
            v = self.ev(x, env)
            t = self.truth(v)
            dep = dep or v[2]
            if t is None:
                unk = True
                continue
            if t != is_and:
                # a falsy operand of `and` / a truthy operand of `or` decides
                # the truth of the whole (its value only if nothing unknown
                # came before)
                return _c(v[1] if not unk and v[0] == 'c' else t, dep)
            last = v
        if unk or last is None:
            return ('u', None, dep)
        return (last[0], last[1], dep)

    def _ev_UnaryOp(self, e, env):
        v = self.ev(e.operand, env)
        if isinstance(e.op, ast.Not):
            t = self.truth(v)
            return ('u', None, v[2]) if t is None else _c(not t, v[2])
        if v[0] == 'c':
            try:
                if isinstance(e.op, ast.USub):
                    return _c(-v[1], v[2])
                if isinstance(e.op, ast.UAdd):
                    return _c(+v[1], v[2])
            except Exception:                                   # noqa
                pass
        return ('u', None, v[2])

    def _ev_BinOp(self, e, env):
        l, r = self.ev(e.left, env), self.ev(e.right, env)
        dep = l[2] or r[2]
        if l[0] == 'c' and r[0] == 'c':
            try:
                if isinstance(e.op, ast.Add):
                    return _c(l[1] + r[1], dep)
                if isinstance(e.op, ast.Sub):
                    return _c(l[1] - r[1], dep)
                if isinstance(e.op, ast.Mult):
                    return _c(l[1] * r[1], dep)
                if isinstance(e.op, ast.Mod):
                    return _c(l[1] % r[1], dep)
            except Exception:                                   # noqa
                pass
        return ('u', None, dep)

    def _ev_IfExp(self, e, env):
        t = self.ev(e.test, env)
        tt = self.truth(t)
        if tt is not None:
            v = self.ev(e.body if tt else e.orelse, env)
            return (v[0], v[1], v[2] or t[2])
        a, b = self.ev(e.body, env), self.ev(e.orelse, env)
        if a[0] == 'c' and b[0] == 'c' and repr(a[1]) == repr(b[1]):
            return _c(a[1], a[2] or b[2])
        return ('u', None, t[2] or a[2] or b[2])

    def _ev_JoinedStr(self, e, env):
        out, dep = '', False
        for p in e.values:
            if isinstance(p, ast.Constant):
                out += str(p.value)
                continue
            if not isinstance(p, ast.FormattedValue) or p.conversion != -1 \
                    or p.format_spec is not None:
                return self._opaque(e, env)
            v = self.ev(p.value, env)
            dep = dep or v[2]
            if v[0] != 'c' or not isinstance(v[1], (str, int)):
                return ('u', None, dep)
            out += str(v[1])
        return _c(out, dep)

    def _seq(self, e, env, ctor):
        vals = []
        for x in e.elts:
            if isinstance(x, ast.Starred):
                return self._opaque(e, env)
            vals.append(self.ev(x, env))
        dep = any(v[2] for v in vals)
        if all(v[0] == 'c' for v in vals):
            try:
                return _c(ctor([v[1] for v in vals]), dep)
            except TypeError:
                pass
        return ('u', None, dep)

    def _ev_List(self, e, env):
        return self._seq(e, env, list)

    def _ev_Tuple(self, e, env):
        return self._seq(e, env, tuple)

    def _ev_Set(self, e, env):
        return self._seq(e, env, set)

    def _ev_Dict(self, e, env):
        out = {}
        for k, v in zip(e.keys, e.values):
            kk = self.ev(k, env) if k is not None else _DEP
            if kk[0] != 'c':
                return self._opaque(e, env)
            try:
                out[kk[1]] = self.ev(v, env)
            except TypeError:
                return self._opaque(e, env)
        return ('lit', out, any(v[2] for v in out.values()))

    # -- statements -----------------------------------------------------------
    def bind(self, t, v, env, evs):
        if isinstance(t, ast.Name):
            env[t.id] = v
        elif isinstance(t, (ast.Tuple, ast.List)):
            if v[0] == 'c' and isinstance(v[1], (list, tuple)) and \
                    len(v[1]) == len(t.elts) and \
                    not any(isinstance(x, ast.Starred) for x in t.elts):
                for x, y in zip(t.elts, v[1]):
                    self.bind(x, _c(y, v[2]), env, evs)
            else:
                for x in t.elts:
                    self.bind(x, ('u', None, v[2]), env, evs)
        elif isinstance(t, ast.Starred):
            self.bind(t.value, ('u', None, v[2]), env, evs)
        elif isinstance(t, ast.Attribute):
            b = self.ev(t.value, env)
            if b[0] == 'recv' and t.attr in _STATE_ATTRS:
                evs.append(('write', v, False))
        elif isinstance(t, ast.Subscript):
            b = self.ev(t.value, env)
            k = self.ev(t.slice, env)
            if b[0] == 'upd':
                if k[0] != 'c':
                    env['#tgt'] = _DEP
                elif k[1] == 'state':
                    env['#tgt'] = v
            elif b[0] == 'lit' and isinstance(t.value, ast.Name):
                if k[0] == 'c':
                    try:
                        d = dict(b[1])
                        d[k[1]] = v
                        env[t.value.id] = ('lit', d, b[2] or v[2])
                    except TypeError:
                        env[t.value.id] = _DEP
                else:
                    env[t.value.id] = _DEP
            elif isinstance(t.value, ast.Attribute) and \
                    t.value.attr == '__dict__' and \
                    self.ev(t.value.value, env)[0] == 'recv':
                evs.append(('write', v, k[0] != 'c' or k[1] != '_state'))

    def _writes_state(self, callee, seen=None, depth=2):
        """a method of the task class that (transitively) writes the state"""
        seen = seen if seen is not None else set()
        if callee is None or id(callee) in seen:
            return False
        seen.add(id(callee))
        if _state_writes(callee):
            return True
        if depth <= 0:
            return False
        for c in calls_in(callee.node):
            if isinstance(c.func, ast.Attribute) and \
                    unparse(c.func.value) == 'self' and self._writes_state(
                        self.prog.find_method(self.task_cls(), c.func.attr),
                        seen, depth - 1):
                return True
        return False

    def call_events(self, st, env, evs):
        for c in calls_in(st):
            if self.site is not None and c is self.site:
                a = kwarg(c, self.dparam, 0)
                v = self.ev(a, env) if a is not None else _DEP
                tg = self._lit_get(v, _c('state'), None) if v[0] == 'lit' \
                    else _DEP
                evs.append(('call', tg, False))
                continue
            name = dotted(c.func)
            fn = c.func
            if name == 'setattr' and len(c.args) == 3 or \
                    isinstance(fn, ast.Attribute) and \
                    fn.attr == '__setattr__' and len(c.args) == 2:
                obj = c.args[0] if name == 'setattr' else fn.value
                nm, val = c.args[-2], c.args[-1]
                if self.ev(obj, env)[0] != 'recv':
                    continue
                n = self.ev(nm, env)
                if n[0] == 'c' and n[1] != '_state':
                    continue
                evs.append(('write', self.ev(val, env), n[0] != 'c'))
            elif isinstance(fn, ast.Attribute) and \
                    fn.attr in ('update', '__setitem__') and (
                        isinstance(fn.value, ast.Attribute) and
                        fn.value.attr == '__dict__' and
                        self.ev(fn.value.value, env)[0] == 'recv' or
                        isinstance(fn.value, ast.Call) and
                        dotted(fn.value.func) == 'vars' and fn.value.args and
                        self.ev(fn.value.args[0], env)[0] == 'recv'):
                evs.append(('write', _DEP, True))
            elif isinstance(fn, ast.Attribute) and self.site is None and \
                    self.ev(fn.value, env)[0] == 'recv' and \
                    self._writes_state(self.prog.find_method(
                        self.task_cls(), fn.attr)):
                # the write is delegated: not followed
                evs.append(('write', _DEP, True))

    def effect(self, st, env):
        """(environment after the statement took effect, events)"""
        env = dict(env)
        evs = []
        if isinstance(st, (ast.Assign, ast.AnnAssign, ast.AugAssign, ast.Expr,
                           ast.Return, ast.Raise, ast.Assert, ast.Delete)):
            self.call_events(st, env, evs)
        if isinstance(st, ast.Assign):
            v = self.ev(st.value, env)
            for t in st.targets:
                self.bind(t, v, env, evs)
        elif isinstance(st, ast.AnnAssign) and st.value is not None:
            self.bind(st.target, self.ev(st.value, env), env, evs)
        elif isinstance(st, ast.AugAssign):
            o, v = self.ev(st.target, env), self.ev(st.value, env)
            self.bind(st.target, ('u', None, o[2] or v[2]), env, evs)
        elif isinstance(st, ast.With):
            for it in st.items:
                self.call_events(it.context_expr, env, evs)
                if it.optional_vars is not None:
                    self.bind(it.optional_vars, self._opaque(
                        it.context_expr, env), env, evs)
        elif isinstance(st, ast.ExceptHandler):
            if st.name:
                env[st.name] = _FREE
        elif isinstance(st, ast.Delete):
            for t in st.targets:
                if isinstance(t, ast.Name):
                    env.pop(t.id, None)
        return env, evs

    def iter_filter(self, g, head, env):
        """conditions which every element delivered to the loop over the task
        objects satisfies: False = this task is never delivered, else taint"""
        t = head.ast.target
        if not (isinstance(t, ast.Name) and t.id in self.recv):
            return False, False
        try:
            from .c13 import iterable_guards
        except Exception as e:                                  # noqa
            raise AnalysisError('R06.6: filter recogniser of c13 not '
                                'available (%r)' % e)
        names, conds = iterable_guards(self.f, g, head.ast.iter, head.id)
        taint = False
        e2 = dict(env)
        for n in names:
            e2[n] = _RECV
        for c in conds:
            v = self.ev(c, e2)
            tt = self.truth(v)
            if tt is False:
                return True, False
            if tt is None and v[2]:
                taint = True
        return False, taint


def _explore(scope, g, env0, limit=20000):
    """events [(kind, value, tainted, uncertain, cfg node)] of all paths
    through the function which are feasible for the scope's states"""
    out = []
    seen = set()
    todo = [(g.entry.id, env0, False)]

    def push(e, env, taint):
        dst = g.nodes[e.dst]
        if dst.kind == 'for' and not e.back and ('#i%d' % e.dst) in env:
            env = dict(env)
            del env['#i%d' % e.dst]
        todo.append((e.dst, env, taint))

    while todo:
        nid, env, taint = todo.pop()
        key = (nid, taint, tuple(sorted((k, repr(v)) for k, v in env.items())))
        if key in seen:
            continue
        seen.add(key)
        if len(seen) > limit:
            raise AnalysisError('R06.6: %s: more than %d abstract states'
                                % (scope.f.where, limit))
        n = g.nodes[nid]
        edges = g.succ[nid]
        if n.kind in ('test', 'for') and n.ast is not None:
            evs = []
            scope.call_events(n.ast if n.kind == 'test' else n.ast.iter, env,
                              evs)
            for kind, val, unc in evs:
                out.append((kind, val, taint, unc or kind == 'write', n))
        if n.kind == 'test' and n.ast is not None:
            v = scope.ev(n.ast, env)
            tt = scope.truth(v)
            for e in edges:
                if e.label not in ('T', 'F'):
                    push(e, env, taint)
                elif tt is None:
                    push(e, env, taint or v[2] or scope.hidden_dep(n.ast))
                elif (e.label == 'T') == tt:
                    push(e, env, taint)
        elif n.kind == 'for':
            it = scope.ev(n.ast.iter, env)
            ikey = '#i%d' % nid
            seq = list(it[1]) if it[0] == 'c' and isinstance(
                it[1], (list, tuple)) else None
            i = env[ikey][1] if ikey in env else 0
            for e in edges:
                if e.label == 'iter':
                    e2 = dict(env)
                    if seq is not None:
                        if i >= len(seq):
                            continue
                        e2[ikey] = _c(i + 1)
                        scope.bind(n.ast.target, _c(seq[i], it[2]), e2, [])
                        push(e, e2, taint)
                    else:
                        never, tn = scope.iter_filter(g, n, env)
                        if never:
                            continue
                        scope.bind(n.ast.target, ('u', None, it[2]), e2, [])
                        push(e, e2, taint or tn)
                elif e.label == 'done':
                    if seq is not None and i < len(seq):
                        continue
                    e2 = dict(env)
                    e2.pop(ikey, None)
                    push(e, e2, taint)
                else:
                    push(e, env, taint)
        elif n.kind in ('stmt', 'with', 'handler') and n.ast is not None:
            env2, evs = scope.effect(n.ast, env)
            for e in edges:
                if e.label == 'exc':
                    push(e, env, taint)
                    continue
                stop = False
                for kind, val, unc in evs:
                    out.append((kind, val, taint, unc, n))
                    if kind == 'call' or not (
                            val[0] == 'c' and val[1] == scope.cur and not unc):
                        stop = True
                if not stop:
                    push(e, env2, taint)
        else:
            for e in edges:
                push(e, env, taint)
    return out


def _in_replay(f, call):
    """the call is made for the elements of the `passed` result of
    _task_state_progress (the discipline decided by R06.3 / R06.5)"""
    passed = set()
    for n in walk(f.node):
        if isinstance(n, ast.Assign) and isinstance(n.value, ast.Call) and \
                call_name(n.value).endswith('_task_state_progress') and \
                isinstance(n.targets[0], (ast.Tuple, ast.List)) and \
                len(n.targets[0].elts) == 2 and \
                isinstance(n.targets[0].elts[1], ast.Name):
            passed.add(n.targets[0].elts[1].id)
    if not passed:
        return False
    for n in walk(f.node):
        if isinstance(n, ast.For) and isinstance(n.iter, ast.Name) and \
                n.iter.id in passed and any(c is call for c in calls_in(n)):
            return True
    return False


def _update_verdict(prog, upd, f, call, cur, tgt, cache):
    """what Task._update does for a task in state cur and an update to tgt
    when called by `call` in f (call None: any values of the other
    parameters): ('leaves', new state, loc) | ('refused',) | ('unsure', why)"""
    a = upd.node.args
    if a.vararg or a.kwarg or (call is not None and any(
            isinstance(x, ast.Starred) for x in call.args)):
        raise AnalysisError('UNRECOGNISED-IDIOM %s: signature / call `%s`'
                            % (upd.where, short(call, 50)))
    params = [x.arg for x in a.posonlyargs + a.args + a.kwonlyargs]
    if len(params) < 2:
        raise AnalysisError('UNRECOGNISED-IDIOM %s: parameters' % upd.where)
    env = {}
    # how the call binds the parameters: the first one after self is the
    # update dict; constants and defaults are folded, the rest is free
    rest = params[2:]
    given = dict(zip(rest, call.args[1:])) if call is not None else {}
    for k in (call.keywords if call is not None else []):
        if k.arg is not None:
            given[k.arg] = k.value
    dflt = {}
    pos = a.posonlyargs + a.args
    for prm, dv in zip(pos[len(pos) - len(a.defaults):], a.defaults):
        dflt[prm.arg] = dv
    for prm, dv in zip(a.kwonlyargs, a.kw_defaults):
        if dv is not None:
            dflt[prm.arg] = dv
    sig = []
    for p in rest:
        if p in given:
            v = prog.fold(f.module, given[p])
        elif p in dflt and call is not None:
            v = prog.fold(upd.module, dflt[p])
        else:
            v = UNKNOWN
        env[p] = _FREE if v is UNKNOWN else _c(v)
        sig.append((p, repr(env[p])))
    env[params[1]] = _UPD
    key = (cur, tgt, tuple(sig))
    if key in cache:
        return cache[key]
    scope = _Scope(prog, upd, cur, tgt, recv=(params[0],))
    g = cfg_of(upd)
    res = ('refused',)
    unsure = None
    for kind, val, taint, unc, node in _explore(scope, g, env):
        if kind != 'write':
            continue
        if val[0] == 'c' and not unc and val[1] == cur:
            continue
        if val[0] == 'c' and not unc and not taint:
            res = ('leaves', val[1], upd.loc(node.ast))
            break
        unsure = ('unsure', '`%s` %s' % (
            short(node.ast, 50), 'is reached behind a test on the states the '
            'evaluator cannot decide' if taint else 'writes a value / an '
            'attribute the evaluator cannot determine'))
    if res[0] == 'refused' and unsure:
        res = unsure
    cache[key] = res
    return res


def r06_6(prog, rep, rid='R06.6'):
    rep.rule(rid, 'a final state is never left: every call of Task._update '
             'outside the replay of _task_state_progress is, for each final '
             'current state of the task, either excluded by the guards of the '
             'caller or refused by the guards of Task._update (the two sites '
             'together cover all of FINAL)', minimum=3)
    final = list(prog.const(STATES, 'FINAL'))
    task = prog.cls(*TASK)
    upd = prog.find_method(task, '_update')
    if upd is None:
        raise AnalysisError('anchor %s._update not found' % task.where)
    rep.saw(upd)
    sites = [(f, c) for f, c in _update_callers(prog) if not _in_replay(f, c)]
    n_sites = 0
    undecided = []
    for f, call in sites:
        rep.saw(f)
        n_sites += 1
        g = cfg_of(f)
        if id(call) not in I.stmt_node_map(g):
            raise AnalysisError('UNRECOGNISED-IDIOM %s: `%s` is not a '
                                'statement of the function itself (nested '
                                'function / lambda)' % (f.where,
                                                        short(call, 50)))
        recv = unparse(call.func.value)
        dparam = (upd.params + ['task_dict'] * 2)[1]
        cache = {}
        excluded, refused, rows = [], [], []
        for cur in final:
            scope = _Scope(prog, f, cur, None, recv=(recv,), site=call)
            scope.dparam = dparam
            env0 = {p: _FREE for p in f.params}
            reach = [x for x in _explore(scope, g, env0) if x[0] == 'call']
            if not reach:
                excluded.append(cur)
                rows.append((cur, 'excluded', None))
                continue
            sure = [x for x in reach if not x[2]]
            verdicts = []
            for kind, tg, taint, unc, node in reach:
                if tg is None:
                    continue         # the update carries no state
                if tg[0] != 'c':
                    verdicts.append((taint, ('unsure', 'the target state of '
                                             'the update is not a constant')))
                    continue
                verdicts.append((taint, _update_verdict(
                    prog, upd, f, call, cur, tg[1], cache) + (tg[1],)))
            if all(v[0] == 'refused' for t, v in verdicts):
                refused.append(cur)
                rows.append((cur, 'refused', None))
                continue
            leaves = [v for t, v in verdicts if v[0] == 'leaves' and not t]
            if leaves and sure:
                rows.append((cur, 'left', leaves[0]))
                continue
            why = [v[1] for t, v in verdicts if v[0] == 'unsure']
            undecided.append(
                'UNRECOGNISED-IDIOM %s: cannot decide whether `%s` changes '
                'the state of a %s task (%s)' % (
                    f.where, short(call, 50), cur, why[0] if why else
                    'the call is reached only behind a test on the task '
                    'state the evaluator cannot decide'))
        for cur, what, v in rows:
            if what != 'left':
                rep.ok(rid, f, '`%s` for a %s task: %s' % (
                    short(call, 40), cur, 'never called (guards of the caller)'
                    if what == 'excluded' else 'Task._update does not write '
                    'the state'), f.loc(call))
                continue
            new, wloc, tgt = v[1], v[2], v[3]
            rep.bad(rid, f, 'final-left:%s' % cur,
                    '%s calls `%s` (target state %s) also for a task that is '
                    'already %s, and Task._update then writes the state (%s): '
                    'the final state %s is replaced by %s.  The guards of the '
                    'caller exclude the current states %s, Task._update '
                    'refuses the write for %s; together they must cover all '
                    'of FINAL %s' % (
                        f.qual, short(call, 50), tgt, cur, wloc, cur, new,
                        sorted(excluded) or 'none', sorted(refused) or 'none',
                        sorted(final)),
                    f.loc(call),
                    history='a task becomes %s; then %s runs for it (for '
                    '_pilot_state_cb: the pilot the task is bound to becomes '
                    'final): Task.state changes %s -> %s and the task is '
                    'announced / published once more' % (
                        cur, f.qual, cur, new))
    if undecided:
        raise AnalysisError(undecided[0])
    if n_sites < 1:
        raise AnalysisError('R06.6: no call of Task._update outside the '
                            'replay loop found (the pilot-death callback is '
                            'expected)')


# ------------------------------------------------------------------------------
#
def run(prog, rep, tier):
    rep.decided = ('the state table is a linear order with shared final '
        'value and X_PENDING directly before X; Task._state is written only '
        'by __init__ (NEW) and _update; _update is called only from the '
        'replay loop and the guarded pilot-death callback; in _update the '
        'DONE/FAILED early return and the single-step test (target - current '
        '!= 1 raises) dominate the write; _task_state_progress raises on two '
        'finals before comparing values, returns empty lists when there is no '
        'progress and builds the passed list as range(current+1, target) + '
        '[target]; the batch loop isolates raising calls per notification, '
        'skips known states, replays each passed state through _update and '
        'collects exactly one callback record per applied state, delivered '
        'after the loop; every call of Task._update outside that replay '
        '(the pilot-death callback) is, for each final current state, either '
        'excluded by the guards of the caller or refused by Task._update '
        '(decided by evaluating both functions over the state constants).')
    rep.undecided = ('value semantics of _task_state_progress beyond its '
        'guards; what application callbacks do.')
    rep.assumptions = ['no other module writes Task._state through setattr '
                       'with a computed name',
                       'ru pubsub invokes _state_sub_cb once per message',
                       'R06.6: data attributes of a Task other than _state '
                       'do not encode its state; the state of a task does '
                       'not change between the guards of a caller and its '
                       'call of _update (both under the same callback)']
    rep.attempt(r06_1, prog, rep)
    rep.attempt(r06_2, prog, rep)
    rep.attempt(r06_3, prog, rep)
    rep.attempt(r06_4, prog, rep)
    rep.attempt(r06_5, prog, rep)
    rep.attempt(r06_6, prog, rep)


# ------------------------------------------------------------------------------
_S = 'states.py'
_T = 'task.py'
_M = 'task_manager.py'

_GUARD = ("                    if task.state in rps.FINAL:\n"
          "                        continue\n\n")
_GTEST = "if task.state in rps.FINAL:\n                        continue"
_CALL = ("                    task._update(update)\n"
         "                    tasks.append(task.as_dict())\n")
_CALL_CHANGED = ("                    before = task.state\n"
                 "                    task._update(update)\n\n"
                 "                    if task.state != before:\n"
                 "                        tasks.append(task.as_dict())\n")
_DICT = ("                    update = {'uid'             : task.uid,\n"
         "                              'exception'       : 'RuntimeError(\"pilot died\")',\n"
         "                              'exception_detail': 'pilot %s is final' % pid,\n"
         "                              'state'           : rps.FAILED}\n\n")
_STICKY = "        if current in [rps.FAILED, rps.DONE]:"
_UPD_DEF = "    def _update(self, task_dict, reconnect=False):"
_TLOOP = ("                for task in self._tasks.values():\n\n"
          "                    # only tasks bound")

MUTATIONS = [
    dict(name='R06.1 two non-final states share a value', rules=('R06.1',), edits=[
        (_S, "        AGENT_SCHEDULING             :  8,\n        AGENT_EXECUTING_PENDING      :  9,", "        AGENT_SCHEDULING             :  8,\n        AGENT_EXECUTING_PENDING      :  8,")]),
    dict(name='R06.1 CANCELED ranks below the other finals', rules=('R06.1',), edits=[
        (_S, "        CANCELED                     : 15}\n_task_state_inv", "        CANCELED                     : 14}\n_task_state_inv")]),
    dict(name='R06.1 executing ordered before scheduling', rules=('R06.1',), edits=[
        (_S, "        AGENT_SCHEDULING_PENDING     :  7,\n        AGENT_SCHEDULING             :  8,\n        AGENT_EXECUTING_PENDING      :  9,\n        AGENT_EXECUTING              : 10,", "        AGENT_EXECUTING_PENDING      :  7,\n        AGENT_EXECUTING              :  8,\n        AGENT_SCHEDULING_PENDING     :  9,\n        AGENT_SCHEDULING             : 10,")]),
    dict(name='R06.1 pending state after its active state', rules=('R06.1',), edits=[
        (_S, "        TMGR_STAGING_INPUT_PENDING   :  3,\n        TMGR_STAGING_INPUT           :  4,", "        TMGR_STAGING_INPUT           :  3,\n        TMGR_STAGING_INPUT_PENDING   :  4,")]),
    dict(name='R06.2 cancel() sets the state directly', rules=('R06.2',), edits=[
        (_T, "        self._tmgr.cancel_tasks(self.uid)\n", "        self._tmgr.cancel_tasks(self.uid)\n        self._state = rps.CANCELED\n")]),
    dict(name='R06.2 task manager pokes the state', rules=('R06.2',), edits=[
        (_M, "                task_dict['state'] = self._tasks[uid].state\n", "                task_dict['state'] = self._tasks[uid].state\n                task._state = task_dict['state']\n")]),
    dict(name='R06.2 raw notification applied in the state callback', rules=('R06.2',), edits=[
        (_M, "        self._update_tasks(tasks)\n\n        return True\n", "        for t in tasks:\n            if t['uid'] in self._tasks:\n                self._tasks[t['uid']]._update(t)\n\n        return True\n")]),
    dict(name='R06.2 Task starts in TMGR_SCHEDULING_PENDING', rules=('R06.2',), edits=[
        (_T, "        self._state            = rps.NEW\n", "        self._state            = rps.TMGR_SCHEDULING_PENDING\n")]),
    dict(name='R06.3 only DONE is sticky', rules=('R06.3',), edits=[
        (_T, "        if current in [rps.FAILED, rps.DONE]:", "        if current in [rps.DONE]:")]),
    dict(name='R06.3 sticky test on the target', rules=('R06.3',), edits=[
        (_T, "        if current in [rps.FAILED, rps.DONE]:", "        if target in [rps.FAILED, rps.DONE]:")]),
    dict(name='R06.3 sticky test polarity flipped', rules=('R06.3',), edits=[
        (_T, "        if current in [rps.FAILED, rps.DONE]:", "        if current not in [rps.FAILED, rps.DONE]:")]),
    dict(name='R06.3 single-step test accepts any forward step', rules=('R06.3',), edits=[
        (_T, "                if s_tgt - s_cur != 1:", "                if s_tgt - s_cur < 1:")]),
    dict(name='R06.3 single-step operands reversed', rules=('R06.3',), edits=[
        (_T, "                if s_tgt - s_cur != 1:", "                if s_cur - s_tgt != 1:")]),
    dict(name='R06.3 invalid step only logged', rules=('R06.3',), edits=[
        (_T, "                    raise RuntimeError('invalid state transition %s: %s -> %s'\n                            % (self.uid, current, target))\n", "")]),
    dict(name='R06.3 single-step test skipped for agent states', rules=('R06.3',), edits=[
        (_T, "            if target not in [rps.FAILED, rps.CANCELED]:\n                s_tgt", "            if target not in [rps.FAILED, rps.CANCELED] and 'AGENT' not in target:\n                s_tgt")]),
    dict(name='R06.3 contradictory finals compared numerically', rules=('R06.3',), edits=[
        (_S, "    if current in FINAL:\n        if target in FINAL:\n            raise ValueError('invalid transition for %s: %s -> %s'\n                             % (uid, current, target))\n\n    cur = _task_state_values[current]", "    cur = _task_state_values[current]")]),
    dict(name='R06.3 no-progress return replays the current state', rules=('R06.3',), edits=[
        (_S, "    if cur >= tgt:\n        # nothing to do, a similar or better progression happened earlier\n        return [current, []]\n\n    # dig out all intermediate states, skip current\n    passed = list()\n    for i in range(cur + 1,tgt):\n        passed.append(_task_state_inv[i])", "    if cur >= tgt:\n        # nothing to do, a similar or better progression happened earlier\n        return [current, [current]]\n\n    # dig out all intermediate states, skip current\n    passed = list()\n    for i in range(cur + 1,tgt):\n        passed.append(_task_state_inv[i])")]),
    dict(name='R06.3 equal states count as progress', rules=('R06.3',), edits=[
        (_S, "    if cur >= tgt:\n        # nothing to do, a similar or better progression happened earlier\n        return [current, []]\n\n    # dig out all intermediate states, skip current\n    passed = list()\n    for i in range(cur + 1,tgt):\n        passed.append(_task_state_inv[i])", "    if cur > tgt:\n        # nothing to do, a similar or better progression happened earlier\n        return [current, []]\n\n    # dig out all intermediate states, skip current\n    passed = list()\n    for i in range(cur + 1,tgt):\n        passed.append(_task_state_inv[i])")]),
    dict(name='R06.3 passed list starts at the current state', rules=('R06.3',), edits=[
        (_S, "    passed = list()\n    for i in range(cur + 1,tgt):\n        passed.append(_task_state_inv[i])", "    passed = list()\n    for i in range(cur,tgt):\n        passed.append(_task_state_inv[i])")]),
    dict(name='R06.4 batch aborts on a contradictory final (F16 reverted)', rules=('R06.4',), edits=[
        (_M, "                except Exception:\n                    # a contradicting or invalid update for one task must not\n                    # prevent the updates of the other tasks in this bulk\n                    self._log.exception('tmgr: invalid state update: %s', uid)\n                    continue\n", "                finally:\n                    pass\n")]),
    dict(name='R06.4 handler re-raises', rules=('R06.4',), edits=[
        (_M, "                    self._log.exception('tmgr: invalid state update: %s', uid)\n                    continue\n", "                    self._log.exception('tmgr: invalid state update: %s', uid)\n                    raise\n")]),
    dict(name='R06.4 only KeyError is caught', rules=('R06.4',), edits=[
        (_M, "                except Exception:\n                    # a contradicting", "                except KeyError:\n                    # a contradicting")],
         note='a typed handler that does not match what the callee raises'),
    dict(name='R06.5 progress arguments swapped', rules=('R06.5',), edits=[
        (_M, "                    target, passed = rps._task_state_progress(uid, current,\n                                                              target)", "                    target, passed = rps._task_state_progress(uid, target,\n                                                              current)")]),
    dict(name='R06.5 replay applies the final target in every step', rules=('R06.5',), edits=[
        (_M, "                        task_dict['state'] = s\n                        self._tasks[uid]._update(task_dict)\n", "                        self._tasks[uid]._update(task_dict)\n")]),
    dict(name='R06.5 replay announces without applying', rules=('R06.5',), edits=[
        (_M, "                        task_dict['state'] = s\n                        self._tasks[uid]._update(task_dict)\n\n                        to_notify.append([task, s])", "                        task_dict['state'] = s\n\n                        to_notify.append([task, s])")]),
    dict(name='R06.5 replay in reverse order', rules=('R06.5',), edits=[
        (_M, "                        passed = passed[-1:]\n", "                        passed = passed[::-1]\n")]),
    dict(name='R06.5 callbacks only for the last state', rules=('R06.5',), edits=[
        (_M, "                        self._tasks[uid]._update(task_dict)\n\n                        to_notify.append([task, s])", "                        self._tasks[uid]._update(task_dict)\n\n                    if passed:\n                        to_notify.append([task, passed[-1]])")],
         note='s is no longer in the record'),
    dict(name='R06.5 callbacks never delivered', rules=('R06.5',), edits=[
        (_M, "                for task, state in to_notify:\n                    self._task_cb(task, state)\n", "                pass\n"),
        (_M, "                self._bulk_cbs(set([task for task,_ in to_notify]))", "                pass")]),
    dict(name='R06.6 pilot-death callback relies on Task._update to skip final tasks (seed C06-c)', rules=('R06.6',), edits=[
        (_M, _GUARD, ""), (_M, _CALL, _CALL_CHANGED)],
         note='_update refuses only DONE and FAILED: a CANCELED task becomes FAILED'),
    dict(name='R06.6 caller guard narrowed to DONE/FAILED', rules=('R06.6',), edits=[
        (_M, _GTEST, "if task.state in [rps.DONE, rps.FAILED]:\n                        continue")]),
    dict(name='R06.6 caller guard tests the state of the pilot', rules=('R06.6',), edits=[
        (_M, _GTEST, "if state not in rps.FINAL:\n                        continue")]),
    dict(name='R06.6 caller guard through a Task property that knows two finals only', rules=('R06.6',), edits=[
        (_M, _GTEST, "if task.is_final:\n                        continue"),
        (_T, _UPD_DEF, "    @property\n    def is_final(self):\n        return self._state in [rps.DONE, rps.FAILED]\n\n" + _UPD_DEF)]),
    dict(name='R06.6 caller guard dropped, early return of _update narrowed to FAILED', rules=('R06.6',), edits=[
        (_M, _GUARD, ""), (_M, _CALL, _CALL_CHANGED),
        (_T, _STICKY, "        if current in [rps.FAILED]:")],
         note='also R06.3: a DONE task whose pilot dies becomes FAILED'),
    dict(name='R06.6 caller guard dropped, refusal in _update only for reconnects', rules=('R06.6',), edits=[
        (_M, _GUARD, ""), (_M, _CALL, _CALL_CHANGED),
        (_T, _STICKY, "        if current in rps.FINAL and reconnect:")]),
    dict(name='R06.5 intermediate states dropped for every final target (seed C06-a)', rules=('R06.5',), edits=[
        (_M, "                    if target in [rps.CANCELED, rps.FAILED]:\n                        # don't replay", "                    if target in rps.FINAL:\n                        # don't replay")]),
]

SILENT = [
    dict(name='sticky test as two comparisons', edits=[
        (_T, "        if current in [rps.FAILED, rps.DONE]:", "        if current in (rps.DONE, rps.FAILED):")]),
    dict(name='single-step test as == 1 with else', edits=[
        (_T, "                if s_tgt - s_cur != 1:\n                    self._log.error('%s: invalid state transition %s -> %s',\n                                    self.uid, current, target)\n                    raise RuntimeError('invalid state transition %s: %s -> %s'\n                            % (self.uid, current, target))\n",
             "                if s_tgt - s_cur == 1:\n                    pass\n                else:\n                    raise RuntimeError('invalid state transition %s: %s -> %s'\n                            % (self.uid, current, target))\n")]),
    dict(name='handler catches the two designed exception types', edits=[
        (_M, "                except Exception:\n                    # a contradicting", "                except (ValueError, RuntimeError):\n                    # a contradicting")]),
    dict(name='known-state skip as !=', edits=[
        (_M, "                if current == target:\n                    self._log.debug('tmgr: state known: %s', uid)\n                    continue\n", "                if current != target:\n                    pass\n                else:\n                    continue\n")]),
    dict(name='no-progress return as tuple', edits=[
        (_S, "        return [current, []]\n\n    # dig out all intermediate states, skip current\n    passed = list()\n    for i in range(cur + 1,tgt):\n        passed.append(_task_state_inv[i])", "        return current, []\n\n    # dig out all intermediate states, skip current\n    passed = list()\n    for i in range(cur + 1,tgt):\n        passed.append(_task_state_inv[i])")]),
    dict(name='progress arguments via keywords-free locals renamed', edits=[
        (_M, "                current = task.state\n                target  = task_dict['state']\n", "                current = task.state\n                target  = task_dict['state']\n                cur_s, tgt_s = current, target\n")]),
    dict(name='R06.6 site: task state hoisted into a local', edits=[
        (_M, _GUARD, "                    tstate = task.state\n                    if tstate in rps.FINAL:\n                        continue\n\n")]),
    dict(name='R06.6 site: finality hoisted into a boolean', edits=[
        (_M, _GUARD, "                    is_final = task.state in rps.FINAL\n                    if is_final:\n                        continue\n\n")]),
    dict(name='R06.6 site: the two guards merged with or', edits=[
        (_M, "                    if task.pilot != pid:\n                        continue\n\n" + _GUARD,
             "                    if task.pilot != pid or task.state in rps.FINAL:\n                        continue\n\n")]),
    dict(name='R06.6 site: guard in positive, nested form', edits=[
        (_M, _GUARD + _DICT + _CALL,
             "                    if task.state not in rps.FINAL:\n"
             "                        update = {'uid'  : task.uid,\n"
             "                                  'exception'       : 'RuntimeError(\"pilot died\")',\n"
             "                                  'exception_detail': 'pilot %s is final' % pid,\n"
             "                                  'state': rps.FAILED}\n\n"
             "                        task._update(update)\n"
             "                        tasks.append(task.as_dict())\n")]),
    dict(name='R06.6 site: guard as filter of the iterated list', edits=[
        (_M, _TLOOP, "                for task in [t for t in self._tasks.values()\n                               if t.state not in rps.FINAL]:\n\n                    # only tasks bound"),
        (_M, _GUARD, "")]),
    dict(name='R06.6 site: guard in an extracted helper method', edits=[
        (_M, _GUARD, "                    if self._is_final(task):\n                        continue\n\n"),
        (_M, "    def _pilot_state_cb(self, pilots, state=None):\n", "    def _is_final(self, task):\n        return task.state in rps.FINAL\n\n    def _pilot_state_cb(self, pilots, state=None):\n")]),
    dict(name='R06.6 site: guard through a Task property', edits=[
        (_M, _GTEST, "if task.is_final:\n                        continue"),
        (_T, _UPD_DEF, "    @property\n    def is_final(self):\n        return self._state in rps.FINAL\n\n" + _UPD_DEF)]),
    dict(name='R06.6 site: update built with dict() in the call', edits=[
        (_M, _DICT + "                    task._update(update)",
             "                    task._update(dict(uid=task.uid, state=rps.FAILED,\n"
             "                                      exception='RuntimeError(\"pilot died\")',\n"
             "                                      exception_detail='pilot %s is final' % pid))")]),
    dict(name='R06.6 sites: guard moved completely into Task._update (all of FINAL refused there)', edits=[
        (_M, _GUARD, ""), (_M, _CALL, _CALL_CHANGED),
        (_T, _STICKY, "        if current in rps.FINAL:")],
         note='the seed C06-c made sound: the callee really ignores every final task'),
    dict(name='R06.6 sites: guard moved into Task._update as a chain of ==', edits=[
        (_M, _GUARD, ""), (_M, _CALL, _CALL_CHANGED),
        (_T, _STICKY, "        if current == rps.DONE or current == rps.FAILED or \\\n           current == rps.CANCELED:")]),
    dict(name='R06.6 sites: caller excludes CANCELED, Task._update refuses DONE/FAILED', edits=[
        (_M, _GTEST, "if task.state == rps.CANCELED:\n                        continue"),
        (_M, _CALL, _CALL_CHANGED)],
         note='the two sites cover FINAL together'),
    dict(name='R06.6 callee: the state is written from the corrected target', edits=[
        (_M, _GUARD, ""), (_M, _CALL, _CALL_CHANGED),
        (_T, "            val = task_dict.get(key, None)\n", "            val = task_dict.get(key, None)\n            if key == 'state':\n                val = target\n")],
         note='for a CANCELED task target was set to current: the write keeps CANCELED'),
    dict(name='FAILED/CANCELED truncation removed (information only)', edits=[
        (_M, "                    if target in [rps.CANCELED, rps.FAILED]:\n                        # don't replay intermediate states\n                        passed = passed[-1:]\n", "")]),
]
