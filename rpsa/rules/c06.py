"""C06  Applications observe the linear task state model (DESIGN 5 / C06)"""

import ast

from ..model import (walk, dotted, call_name, kwarg, unparse, short, UNKNOWN,
                     root_name, AnalysisError, calls_in, stores_in_target)
from ..cfg import cfg_of
from ..flow import (Deps, guards, must_pass, loop_slice, const_compare,
                    reaching_defs)
from .. import idioms as I

STATES = 'states.py'
TASK   = ('task.py', 'Task')
TMGR   = ('task_manager.py', 'TaskManager')


# ------------------------------------------------------------------------------
# R06.1  state table
#
def r06_1(prog, rep, rid='R06.1'):
    rep.rule(rid, 'the task state table is a linear order: None=-1, NEW=0, '
             'non-final values unique and contiguous, X_PENDING directly '
             'before X, the three final states share the maximum', minimum=6)
    tab = prog.const(STATES, '_task_state_values')
    final = prog.const(STATES, 'FINAL')
    new = prog.const(STATES, 'NEW')
    where = STATES + '::_task_state_values'
    nonfinal = {k: v for k, v in tab.items() if k not in final and k is not None}
    vals = sorted(nonfinal.values())
    rep.check(tab.get(None) == -1 and tab.get(new) == 0, rid, where,
              'None -> -1 and NEW -> 0', construct='table:origin',
              message='_task_state_values: None must be -1 and NEW 0 (found '
              '%r, %r)' % (tab.get(None), tab.get(new)))
    rep.check(vals == list(range(len(vals))), rid, where,
              'non-final values are 0..%d without gap or duplicate'
              % (len(vals) - 1), construct='table:contiguous',
              message='_task_state_values: non-final values %s are not a '
              'contiguous, duplicate-free range: two states compare equal or '
              'a gap makes the filled-in intermediate states wrong' % vals,
              history='a notification skipping ahead replays the wrong '
              'intermediate states (or none)')
    fv = {tab.get(f) for f in final}
    rep.check(len(final) == 3 and len(fv) == 1 and
              fv == {len(vals)}, rid, where, 'DONE/FAILED/CANCELED share the '
              'maximum value %d' % len(vals), construct='table:final',
              message='_task_state_values: the final states must share the '
              'value directly above the last non-final state (found %s)'
              % sorted(fv, key=str))
    pend_ok = True
    badp = []
    for k, v in nonfinal.items():
        if k.endswith('_PENDING'):
            base = k[:-len('_PENDING')]
            if nonfinal.get(base) != v + 1:
                pend_ok = False
                badp.append(k)
    rep.check(pend_ok, rid, where, 'every X_PENDING is directly followed by X',
              construct='table:pending', message='_task_state_values: %s not '
              'directly followed by their active state' % badp)
    # stage order = pipeline order
    order = ['TMGR_SCHEDULING', 'TMGR_STAGING_INPUT', 'AGENT_STAGING_INPUT',
             'AGENT_SCHEDULING', 'AGENT_EXECUTING', 'AGENT_STAGING_OUTPUT',
             'TMGR_STAGING_OUTPUT']
    seq = [nonfinal.get(s) for s in order]
    rep.check(None not in seq and seq == sorted(seq), rid, where,
              'the stages are ordered like the pipeline (%s)' % ' < '.join(
                  order), construct='table:pipeline', message='_task_state_'
              'values does not order the stages like the component pipeline: '
              '%s' % list(zip(order, seq)),
              history='a task advancing through the pipeline is seen moving '
              'backwards; its updates are discarded as stale')
    # the inverse table is derived from the value table
    m = prog.module(STATES)
    inv = m.assigns.get('_task_state_inv')
    okinv = bool(inv) and isinstance(inv[-1], ast.DictComp) and \
        '_task_state_values' in unparse(inv[-1].generators[0].iter) and \
        isinstance(inv[-1].generators[0].target, ast.Tuple) and \
        [unparse(inv[-1].key), unparse(inv[-1].value)] == \
        [unparse(e) for e in reversed(inv[-1].generators[0].target.elts)]
    rep.check(okinv, rid, STATES + '::_task_state_inv', '_task_state_inv is '
              'the inversion of _task_state_values', construct='table:inv',
              message='_task_state_inv is not built by inverting '
              '_task_state_values: filled-in intermediate states come from a '
              'different table')


# ------------------------------------------------------------------------------
# R06.2  who writes Task._state, who calls Task._update
#
def _state_writes(f):
    """[(ast node, how)] writes of self._state in a method of Task"""
    out = []
    for n in walk(f.node, nested=True):
        if isinstance(n, (ast.Assign, ast.AugAssign, ast.AnnAssign)):
            tg = n.targets if isinstance(n, ast.Assign) else [n.target]
            for t in tg:
                for e in I._flat(t):
                    if isinstance(e, ast.Attribute) and e.attr == '_state':
                        out.append((n, 'assign'))
        if isinstance(n, ast.Call) and dotted(n.func) == 'setattr' and \
                len(n.args) >= 3:
            out.append((n, 'setattr'))
        if isinstance(n, ast.Call) and isinstance(n.func, ast.Attribute) and \
                n.func.attr in ('update', '__setattr__') and \
                unparse(n.func.value) in ('self.__dict__', 'vars(self)'):
            out.append((n, 'dict'))
    return out


def _memo(obj, key, fn):
    """value computed once per program / function object"""
    d = obj.__dict__.setdefault('_c06_memo', {})
    if key not in d:
        d[key] = fn()
    return d[key]


def _locals_of(f):
    from ..flow import assigned_names
    return _memo(f, 'locals', lambda: set(f.params) | assigned_names(f.node))


def _flatten_closures(prog, f):
    """f, or a copy of f in which the functions defined inside it that are
    called exactly once, as a statement `name(args)`, are inlined at that
    call (extract-to-local-function refactorings: a closure reads the
    variables of f by name, its own variables are renamed).  The normalised
    views of the engine inline helper methods, not closures."""
    if not f.nested:
        return f
    return _memo(f, 'flat', lambda: _flatten_closures_(prog, f))


def _flatten_closures_(prog, f):
    import copy
    from ..model import FuncInfo
    from ..normalize import Inliner
    node = copy.deepcopy(f.node)
    work = FuncInfo(f.name, f.qual, f.module, f.cls, node)
    done = False
    for name, h in sorted(work.nested.items()):
        hn = h.node
        a = hn.args
        if hn.decorator_list or a.vararg or a.kwarg or a.kwonlyargs or \
                a.posonlyargs or any(
                    isinstance(x, (ast.Return, ast.Yield, ast.YieldFrom,
                                   ast.Await, ast.Global, ast.Nonlocal,
                                   ast.FunctionDef, ast.AsyncFunctionDef,
                                   ast.ClassDef, ast.Lambda))
                    for x in ast.walk(hn) if x is not hn):
            continue
        refs = [x for x in ast.walk(node) if isinstance(x, ast.Name) and
                x.id == name]
        stmts = [x for x in ast.walk(node) if isinstance(x, ast.Expr) and
                 isinstance(x.value, ast.Call) and
                 isinstance(x.value.func, ast.Name) and
                 x.value.func.id == name]
        inside = {id(x) for x in ast.walk(hn)}
        if len(refs) != 1 or len(stmts) != 1 or id(stmts[0]) in inside:
            continue
        shim = FuncInfo(name, h.qual, f.module, None, hn)
        b = Inliner(prog, {}).bind(shim, stmts[0].value, name, set())
        if b is None:
            continue
        new = (b[0] + b[1]) or [ast.Pass()]

        def rewrite(body):
            out = []
            for st in body:
                if st is hn:
                    continue
                if st is stmts[0]:
                    out.extend(new)
                    continue
                if not isinstance(st, (ast.FunctionDef, ast.AsyncFunctionDef,
                                       ast.ClassDef)):
                    for fld in ('body', 'orelse', 'finalbody'):
                        sub = getattr(st, fld, None)
                        if isinstance(sub, list) and sub and \
                                isinstance(sub[0], ast.stmt):
                            setattr(st, fld, rewrite(sub))
                    for hd in getattr(st, 'handlers', []) or []:
                        hd.body = rewrite(hd.body)
                out.append(st)
            return out or [ast.Pass()]
        node.body = rewrite(node.body)
        done = True
    if not done:
        return f
    ast.fix_missing_locations(node)
    return FuncInfo(f.name, f.qual, f.module, f.cls, node, parent=f.parent)


def _update_callers(prog):
    return _memo(prog, 'update_callers', lambda: _update_callers_(prog))


def _update_callers_(prog):
    """[(function, call)]: `<task object>._update(...)` anywhere in the
    package (receiver not self / super / a pilot)"""
    callers = []
    for m in prog.modules.values():
        funcs = list(m.funcs.values())
        for c in m.classes.values():
            funcs += list(c.methods.values())
        for f in funcs:
            if f.nested and any(
                    isinstance(c.func, ast.Attribute) and
                    c.func.attr == '_update'
                    for h in f.nested.values() for c in calls_in(h.node)):
                f = _flatten_closures(prog, f)
            for c in calls_in(f.node, nested=True):
                if isinstance(c.func, ast.Attribute) and \
                        c.func.attr == '_update' and \
                        unparse(c.func.value) != 'self' and \
                        not unparse(c.func.value).startswith('super'):
                    recv = unparse(c.func.value)
                    if '_pilots' in recv or recv.startswith('pilot'):
                        continue          # Pilot._update: property C14
                    callers.append((f, c))
    return callers


def r06_2(prog, rep, rid='R06.2'):
    rep.rule(rid, 'Task._state is written only by Task.__init__ (NEW) and '
             'Task._update; _update is called only from the replay loop of '
             '_update_tasks and from the guarded pilot-death callback',
             minimum=3)
    task = prog.cls(*TASK)
    new = prog.const(STATES, 'NEW')
    n_upd = 0
    for name, f in sorted(task.methods.items()):
        for n, how in _state_writes(f):
            if name == '__init__' and how == 'assign':
                v = prog.fold(f.module, n.value)
                rep.check(v == new, rid, f, 'Task.__init__ starts in NEW',
                          construct=n, message='Task.__init__ initialises '
                          '_state to %r, not NEW' % (v,), loc=f.loc(n))
            elif name == '_update':
                n_upd += 1
                rep.ok(rid, f, 'Task._update writes the state (%s)' % how,
                       f.loc(n))
            elif how == 'assign':
                rep.bad(rid, f, n, 'Task.%s writes self._state directly (`%s`)'
                        ': the state changes without the forward-only / '
                        'sticky-final guards of _update' % (name, short(n, 50)),
                        f.loc(n), history='a final task becomes non-final '
                        'again, or callbacks and Task.state disagree')
    if not n_upd:
        raise AnalysisError('UNRECOGNISED-IDIOM %s: Task._update does not '
                            'write the state' % task.where)
    # writes of <x>._state on non-self objects in the client-side task modules
    for rel in ('task_manager.py', 'task.py'):
        m = prog.module(rel)
        funcs = list(m.funcs.values())
        for c in m.classes.values():
            funcs += list(c.methods.values())
        for f in funcs:
            for n in walk(f.node, nested=True):
                if isinstance(n, (ast.Assign, ast.AugAssign)):
                    tg = n.targets if isinstance(n, ast.Assign) else [n.target]
                    for t in tg:
                        for e in I._flat(t):
                            if isinstance(e, ast.Attribute) and \
                                    e.attr == '_state' and \
                                    unparse(e.value) != 'self':
                                rep.bad(rid, f, n, '%s writes `%s` from '
                                        'outside Task' % (f.qual, short(e, 40)),
                                        f.loc(n))
                if isinstance(n, ast.Call) and dotted(n.func) == 'setattr' \
                        and n.args and unparse(n.args[0]) != 'self' and \
                        len(n.args) > 1 and 'state' in unparse(n.args[1]):
                    rep.bad(rid, f, n, '%s sets a state attribute through '
                            'setattr on `%s`' % (f.qual, short(n.args[0], 30)),
                            f.loc(n))
    # callers of Task._update
    tm = prog.cls(*TMGR)
    callers = _update_callers(prog)
    for f, c in callers:
        okay = f.cls is tm and f.name in ('_update_tasks', '_pilot_state_cb')
        rep.check(okay, rid, f, '%s calls Task._update' % f.qual, construct=c,
                  message='%s calls `%s`: Task._update is driven from outside '
                  'the two guarded places (replay loop of _update_tasks, '
                  'pilot-death callback)' % (f.qual, short(c, 50)),
                  loc=f.loc(c), history='a raw notification is applied '
                  'without progress normalisation: states are skipped or '
                  'repeated')
    if len(callers) < 1:
        raise AnalysisError('R06.2: only %d callers of Task._update found'
                            % len(callers))


def _origin(g, e, at):
    """unparse of an expression after following single reaching definitions
    of plain names (flow-sensitive, unlike Deps)"""
    from ..flow import reaching_defs
    for _ in range(4):
        if isinstance(e, ast.Name):
            rd = reaching_defs(g, e.id, at)
            if len(rd) == 1 and rd[0][1] is not None:
                e = rd[0][1]
                continue
        break
    return unparse(e)


# ------------------------------------------------------------------------------
# evaluation of a pure helper function over the finite domain of the state
# constants (R06.3 progress part, R06.7)
#
# `_task_state_progress` maps (current, target) - two of 18 state names - to
# (new state, passed states).  Instead of recognising the spelling of its
# guards and of the loop that builds the list, the function is evaluated for
# every pair by the small evaluator below (assignments, if / for / while / try,
# list / dict / tuple / set values, comprehensions, the module's tables and
# helper functions).  Module-level objects live in a `heap` that persists over
# the calls of one history, so that a function which keeps results between
# calls shows as such.  Anything the evaluator does not model ends the rule as
# UNRECOGNISED-IDIOM; nothing of /repo is imported or run.
#
class _Opq:
    """a value nothing is known about (an unresolved global, the result of
    a call that cannot be followed)"""
    def __repr__(self):
        return '<?>'

    def __deepcopy__(self, memo):
        return self


_OPQ = _Opq()


class _Fn:
    def __init__(self, f):
        self.f = f

    def __deepcopy__(self, memo):
        return self


class _Flow(Exception):
    pass


class _RetX(_Flow):
    def __init__(self, value):
        _Flow.__init__(self)
        self.value = value


class _RaiseX(_Flow):
    def __init__(self, name):
        _Flow.__init__(self)
        self.name = name


class _BrkX(_Flow):
    pass


class _CntX(_Flow):
    pass


class _Bi:
    def __init__(self, name):
        self.name = name


class _Attr:
    def __init__(self, obj, name):
        self.obj, self.name = obj, name


_PURE = {'list': list, 'tuple': tuple, 'dict': dict, 'set': set,
         'frozenset': frozenset, 'len': len, 'sorted': sorted, 'min': min,
         'max': max, 'sum': sum, 'abs': abs, 'int': int, 'str': str,
         'bool': bool, 'any': any, 'all': all, 'repr': repr,
         'range': lambda *a: list(range(*a)),
         'reversed': lambda x: list(reversed(x)),
         'enumerate': lambda *a: list(enumerate(*a)),
         'zip': lambda *a: list(zip(*a))}
_METHODS = {
    list: {'append', 'extend', 'insert', 'pop', 'remove', 'index', 'count',
           'copy', 'reverse', 'sort', 'clear'},
    dict: {'get', 'setdefault', 'pop', 'update', 'keys', 'values', 'items',
           'copy', 'clear', 'popitem'},
    set: {'add', 'discard', 'remove', 'union', 'intersection', 'difference',
          'copy', 'clear', 'update', 'issubset', 'issuperset'},
    frozenset: {'union', 'intersection', 'difference', 'issubset',
                'issuperset'},
    tuple: {'index', 'count'},
    str: {'startswith', 'endswith', 'format', 'join', 'split', 'upper',
          'lower', 'strip', 'replace', 'rsplit', 'partition', 'rpartition'},
}
_LAZY = {'keys', 'values', 'items'}
_LOGGING = {'debug', 'info', 'warning', 'warn', 'error', 'exception',
            'critical', 'prof', 'log'}
_EXC_PARENTS = {'KeyError': ('LookupError',), 'IndexError': ('LookupError',),
                'ZeroDivisionError': ('ArithmeticError',),
                'UnboundLocalError': ('NameError',)}


class _Interp:
    """evaluates functions of the analysed program on concrete values"""

    def __init__(self, prog, budget=400000):
        self.prog = prog
        self.heap = {}          # module-level objects: id(def expr) -> value
        self.names = {}         # heap key -> name
        self.loaded = {}        # heap key -> repr of the value when loaded
        self.rebound = set()    # names bound through `global`
        self.steps = 0
        self.budget = budget

    def fail(self, f, node, why):
        raise AnalysisError('UNRECOGNISED-IDIOM %s: `%s` %s' % (
            f.where if f is not None else '<module>', short(node, 50), why))

    def load(self, key, name, v):
        self.heap[key] = v
        self.names[key] = name
        self.loaded[key] = repr(v)
        return v

    def written(self):
        """names of the module-level objects changed since they were loaded"""
        return {self.names[k] for k, v in self.heap.items()
                if k in self.loaded and repr(v) != self.loaded[k]} | \
            self.rebound

    # -- calls ----------------------------------------------------------------
    def call(self, f, args, kwargs=None, depth=0):
        """('ret', value) | ('raise', exception class name)"""
        if depth > 4:
            self.fail(f, f.node, 'call depth')
        a = f.node.args
        if a.vararg or a.kwarg or f.node.decorator_list:
            self.fail(f, f.node, 'signature / decorator not modelled')
        params = [x.arg for x in a.posonlyargs + a.args]
        if len(args) > len(params):
            return ('raise', 'TypeError')
        env = dict(zip(params, args))
        for k, v in (kwargs or {}).items():
            if k in env or k not in params + [x.arg for x in a.kwonlyargs]:
                return ('raise', 'TypeError')
            env[k] = v
        pos = a.posonlyargs + a.args
        dflt = list(zip(pos[len(pos) - len(a.defaults):], a.defaults)) + \
            [(p, d) for p, d in zip(a.kwonlyargs, a.kw_defaults)
             if d is not None]
        for prm, dv in dflt:
            if prm.arg not in env:
                # evaluated once, when the function is defined
                key = ('default', id(dv))
                if key not in self.heap:
                    self.load(key, 'default of parameter `%s`' % prm.arg,
                              self.ev(dv, _Frame(self, None, f.module, {},
                                                 depth)))
                env[prm.arg] = self.heap[key]
        for p in params + [x.arg for x in a.kwonlyargs]:
            if p not in env:
                return ('raise', 'TypeError')
        fr = _Frame(self, f, f.module, env, depth)
        try:
            self.block(f.node.body, fr)
        except _RetX as r:
            return ('ret', r.value)
        except _RaiseX as r:
            return ('raise', r.name)
        return ('ret', None)

    # -- names ----------------------------------------------------------------
    def glob(self, fr, node, name):
        r = self.prog.lookup(fr.module, name)
        return self.ref(fr, node, r, name)

    def ref(self, fr, node, r, name):
        if r is None:
            if name in _PURE:
                return _Bi(name)
            return _OPQ
        if r[0] == 'func':
            return _Fn(r[1])
        if r[0] == 'const':
            mod, exprs = r[1], r[2]
            key = id(exprs[0])
            if key not in self.heap:
                import copy
                pristine = _memo(self.prog, 'pristine', dict)
                if key not in pristine:
                    if len(exprs) == 1:
                        v = self.ev(exprs[0], _Frame(self, None, mod, {},
                                                     fr.depth + 1))
                    else:
                        v = self.prog.fold(mod, ast.Name(id=name,
                                                         ctx=ast.Load()))
                        if v is UNKNOWN:
                            self.fail(fr.f, node, 'is bound several times at '
                                      'module level')
                    pristine[key] = v
                # (the value its definition gives: a fresh copy per process)
                self.load(key, name, copy.deepcopy(pristine[key]))
            return self.heap[key]
        return _OPQ

    def gkey(self, fr, name):
        r = self.prog.lookup(fr.module, name)
        if r and r[0] == 'const':
            return id(r[2][0])
        return ('global', fr.module.rel, name)

    # -- statements -----------------------------------------------------------
    def tick(self, fr, node):
        self.steps += 1
        if self.steps > self.budget:
            self.fail(fr.f, node, 'evaluation budget exceeded')

    def block(self, stmts, fr):
        for s in stmts:
            self.stmt(s, fr)

    def stmt(self, s, fr):
        self.tick(fr, s)
        if isinstance(s, ast.Expr):
            if not isinstance(s.value, ast.Constant):
                self.ev(s.value, fr)
        elif isinstance(s, ast.Assign):
            v = self.ev(s.value, fr)
            for t in s.targets:
                self.store(t, v, fr)
        elif isinstance(s, ast.AnnAssign):
            if s.value is not None:
                self.store(s.target, self.ev(s.value, fr), fr)
        elif isinstance(s, ast.AugAssign):
            self.aug(s, fr)
        elif isinstance(s, ast.If):
            self.block(s.body if self.truth(s.test, fr) else s.orelse, fr)
        elif isinstance(s, ast.For):
            seq = self.ev(s.iter, fr)
            if not isinstance(seq, (list, tuple, set, frozenset, dict, str)):
                self.fail(fr.f, s.iter, 'is iterated but not a known sequence')
            broke = False
            for x in list(seq):
                self.store(s.target, x, fr)
                try:
                    self.block(s.body, fr)
                except _BrkX:
                    broke = True
                    break
                except _CntX:
                    continue
            if not broke:
                self.block(s.orelse, fr)
        elif isinstance(s, ast.While):
            broke = False
            while self.truth(s.test, fr):
                self.tick(fr, s)
                try:
                    self.block(s.body, fr)
                except _BrkX:
                    broke = True
                    break
                except _CntX:
                    continue
            if not broke:
                self.block(s.orelse, fr)
        elif isinstance(s, ast.Return):
            raise _RetX(None if s.value is None else self.ev(s.value, fr))
        elif isinstance(s, ast.Raise):
            if s.exc is None:
                if fr.handling:
                    raise _RaiseX(fr.handling[-1])
                self.fail(fr.f, s, 'outside a handler')
            e = s.exc.func if isinstance(s.exc, ast.Call) else s.exc
            raise _RaiseX(unparse(e).split('.')[-1])
        elif isinstance(s, ast.Assert):
            if not self.truth(s.test, fr):
                raise _RaiseX('AssertionError')
        elif isinstance(s, ast.Pass):
            pass
        elif isinstance(s, ast.Break):
            raise _BrkX()
        elif isinstance(s, ast.Continue):
            raise _CntX()
        elif isinstance(s, ast.Global):
            fr.globals |= set(s.names)
        elif isinstance(s, ast.Delete):
            for t in s.targets:
                if isinstance(t, ast.Name) and t.id in fr.env:
                    del fr.env[t.id]
                elif isinstance(t, ast.Subscript):
                    b = self.ev(t.value, fr)
                    k = self.index(t.slice, fr)
                    if not isinstance(b, (list, dict)) or k is _OPQ:
                        self.fail(fr.f, t, 'deletion not modelled')
                    self.guarded(lambda: b.__delitem__(k))
                else:
                    self.fail(fr.f, t, 'deletion not modelled')
        elif isinstance(s, ast.Try):
            self.try_(s, fr)
        elif isinstance(s, ast.With):
            for it in s.items:
                v = self.ev(it.context_expr, fr)
                if v is not _OPQ:
                    self.fail(fr.f, it.context_expr, 'context manager not '
                              'modelled')
                if it.optional_vars is not None:
                    self.store(it.optional_vars, _OPQ, fr)
            self.block(s.body, fr)
        else:
            self.fail(fr.f, s, 'statement not modelled')

    def try_(self, s, fr):
        try:
            try:
                self.block(s.body, fr)
            except _RaiseX as r:
                for h in s.handlers:
                    if self.catches(h, r.name):
                        if h.name:
                            fr.env[h.name] = _OPQ
                        fr.handling.append(r.name)
                        try:
                            self.block(h.body, fr)
                        finally:
                            fr.handling.pop()
                        break
                else:
                    raise
            else:
                self.block(s.orelse, fr)
        finally:
            # (a `return` in a finally block overriding an exception in
            # flight is not modelled: the block runs, the exception goes on)
            self.block(s.finalbody, fr)

    @staticmethod
    def catches(h, name):
        if h.type is None:
            return True
        for t in (h.type.elts if isinstance(h.type, ast.Tuple) else [h.type]):
            n = unparse(t).split('.')[-1]
            if n in ('Exception', 'BaseException', name) or \
                    n in _EXC_PARENTS.get(name, ()):
                return True
        return False

    def guarded(self, fn):
        try:
            return fn()
        except _Flow:
            raise
        except AnalysisError:
            raise
        except Exception as e:                                  # noqa
            raise _RaiseX(type(e).__name__)

    def store(self, t, v, fr):
        if isinstance(t, ast.Name):
            if t.id in fr.globals:
                self.heap[self.gkey(fr, t.id)] = v
                self.rebound.add(t.id)
            else:
                fr.env[t.id] = v
        elif isinstance(t, (ast.Tuple, ast.List)):
            if any(isinstance(x, ast.Starred) for x in t.elts):
                self.fail(fr.f, t, 'starred target not modelled')
            if v is _OPQ:
                for x in t.elts:
                    self.store(x, _OPQ, fr)
                return
            if not isinstance(v, (list, tuple)):
                self.fail(fr.f, t, 'unpacks a value that is not a sequence')
            if len(v) != len(t.elts):
                raise _RaiseX('ValueError')
            for x, y in zip(t.elts, v):
                self.store(x, y, fr)
        elif isinstance(t, ast.Subscript):
            b = self.ev(t.value, fr)
            k = self.index(t.slice, fr)
            if not isinstance(b, (list, dict)) or k is _OPQ:
                self.fail(fr.f, t, 'store into a value that is not a known '
                          'list / dict')
            self.guarded(lambda: b.__setitem__(k, v))
        else:
            self.fail(fr.f, t, 'store target not modelled')

    def aug(self, s, fr):
        cur = self.ev(_load(s.target), fr)
        v = self.ev(s.value, fr)
        if cur is _OPQ or v is _OPQ:
            new = _OPQ
        elif isinstance(cur, list) and isinstance(s.op, ast.Add):
            if not isinstance(v, (list, tuple, set, frozenset, dict, str)):
                raise _RaiseX('TypeError')
            cur.extend(v)                    # in place, like list.__iadd__
            new = cur
        else:
            new = self.binop(s.op, cur, v, fr, s)
        self.store(s.target, new, fr)

    # -- expressions ----------------------------------------------------------
    def truth(self, e, fr):
        v = self.ev(e, fr)
        if isinstance(v, (_Fn, _Opq, _Bi, _Attr)):
            self.fail(fr.f, e, 'is tested but its value is not known')
        return bool(v)

    def index(self, sl, fr):
        if isinstance(sl, ast.Slice):
            parts = [None if x is None else self.ev(x, fr)
                     for x in (sl.lower, sl.upper, sl.step)]
            if any(p is _OPQ for p in parts):
                return _OPQ
            return slice(*parts)
        return self.ev(sl, fr)

    def binop(self, op, l, r, fr, node):
        if l is _OPQ or r is _OPQ:
            return _OPQ
        fns = {ast.Add: lambda: l + r, ast.Sub: lambda: l - r,
               ast.Mult: lambda: l * r, ast.Mod: lambda: l % r,
               ast.FloorDiv: lambda: l // r, ast.BitOr: lambda: l | r,
               ast.BitAnd: lambda: l & r}
        fn = fns.get(type(op))
        if fn is None or isinstance(l, (_Fn, _Bi, _Attr)) or \
                isinstance(r, (_Fn, _Bi, _Attr)):
            self.fail(fr.f, node, 'operator not modelled')
        return self.guarded(fn)

    def ev(self, e, fr):
        self.tick(fr, e)
        m = getattr(self, '_e_' + type(e).__name__, None)
        if m is None:
            self.fail(fr.f, e, 'expression not modelled')
        return m(e, fr)

    def _e_Constant(self, e, fr):
        return e.value

    def _e_Name(self, e, fr):
        if e.id in fr.globals:
            k = self.gkey(fr, e.id)
            if k in self.heap:
                return self.heap[k]
            return self.glob(fr, e, e.id)
        if e.id in fr.env:
            return fr.env[e.id]
        if e.id in fr.locals:
            raise _RaiseX('UnboundLocalError')
        return self.glob(fr, e, e.id)

    def _e_Attribute(self, e, fr):
        r = self.prog.resolve(fr.module, e) if isinstance(
            root_name(e), str) and root_name(e) not in fr.env and \
            root_name(e) not in fr.locals else None
        if r is not None:
            return self.ref(fr, e, r, e.attr)
        b = self.ev(e.value, fr)
        if b is _OPQ:
            return _OPQ
        return _Attr(b, e.attr)

    def _e_Subscript(self, e, fr):
        b = self.ev(e.value, fr)
        k = self.index(e.slice, fr)
        if b is _OPQ or k is _OPQ:
            return _OPQ
        if not isinstance(b, (list, tuple, dict, str)):
            self.fail(fr.f, e, 'subscript of a value that is not a known '
                      'container')
        return self.guarded(lambda: b[k])

    def _e_List(self, e, fr):
        return self.elts(e, fr)

    def _e_Tuple(self, e, fr):
        return tuple(self.elts(e, fr))

    def _e_Set(self, e, fr):
        return self.guarded(lambda: set(self.elts(e, fr)))

    def elts(self, e, fr):
        out = []
        for x in e.elts:
            if isinstance(x, ast.Starred):
                v = self.ev(x.value, fr)
                if not isinstance(v, (list, tuple, set, frozenset)):
                    self.fail(fr.f, x, 'starred value not a known sequence')
                out.extend(v)
            else:
                out.append(self.ev(x, fr))
        return out

    def _e_Dict(self, e, fr):
        out = {}
        for k, v in zip(e.keys, e.values):
            if k is None:
                d = self.ev(v, fr)
                if not isinstance(d, dict):
                    self.fail(fr.f, v, 'unpacked value not a known dict')
                out.update(d)
                continue
            kk, vv = self.ev(k, fr), self.ev(v, fr)
            self.guarded(lambda: out.__setitem__(kk, vv))
        return out

    def _e_BoolOp(self, e, fr):
        is_and = isinstance(e.op, ast.And)
        v = None
        for x in e.values:
            v = self.ev(x, fr)
            if isinstance(v, (_Fn, _Opq, _Bi, _Attr)):
                self.fail(fr.f, x, 'is tested but its value is not known')
            if bool(v) != is_and:
                return v
        return v

    def _e_UnaryOp(self, e, fr):
        if isinstance(e.op, ast.Not):
            return not self.truth(e.operand, fr)
        v = self.ev(e.operand, fr)
        if v is _OPQ:
            return _OPQ
        if isinstance(e.op, ast.USub):
            return self.guarded(lambda: -v)
        if isinstance(e.op, ast.UAdd):
            return self.guarded(lambda: +v)
        self.fail(fr.f, e, 'operator not modelled')

    def _e_BinOp(self, e, fr):
        return self.binop(e.op, self.ev(e.left, fr), self.ev(e.right, fr),
                          fr, e)

    def _e_Compare(self, e, fr):
        l = self.ev(e.left, fr)
        for op, c in zip(e.ops, e.comparators):
            r = self.ev(c, fr)
            if l is _OPQ or r is _OPQ:
                return _OPQ
            if isinstance(op, (ast.Is, ast.IsNot)):
                if l is None or r is None or isinstance(l, bool) or \
                        isinstance(r, bool) or (
                            isinstance(l, (list, dict, set)) and
                            isinstance(r, (list, dict, set))):
                    res = l is r
                else:
                    self.fail(fr.f, e, 'identity of values not modelled')
                if isinstance(op, ast.IsNot):
                    res = not res
            else:
                fn = {ast.Eq: lambda: l == r, ast.NotEq: lambda: l != r,
                      ast.Lt: lambda: l < r, ast.LtE: lambda: l <= r,
                      ast.Gt: lambda: l > r, ast.GtE: lambda: l >= r,
                      ast.In: lambda: l in r,
                      ast.NotIn: lambda: l not in r}[type(op)]
                res = self.guarded(fn)
            if not res:
                return False
            l = r
        return True

    def _e_IfExp(self, e, fr):
        return self.ev(e.body if self.truth(e.test, fr) else e.orelse, fr)

    def _e_NamedExpr(self, e, fr):
        v = self.ev(e.value, fr)
        self.store(e.target, v, fr)
        return v

    def _e_JoinedStr(self, e, fr):
        out = ''
        for p in e.values:
            if isinstance(p, ast.Constant):
                out += str(p.value)
            elif isinstance(p, ast.FormattedValue):
                v = self.ev(p.value, fr)
                out += '<?>' if v is _OPQ or p.format_spec is not None \
                    else str(v)
        return out

    def _e_FormattedValue(self, e, fr):
        return _OPQ

    def _comp(self, gens, fr, emit):
        def rec(i):
            if i == len(gens):
                emit()
                return
            gen = gens[i]
            seq = self.ev(gen.iter, fr)
            if not isinstance(seq, (list, tuple, set, frozenset, dict, str)):
                self.fail(fr.f, gen.iter, 'is iterated but not a known '
                          'sequence')
            for x in list(seq):
                self.tick(fr, gen.iter)
                self.store(gen.target, x, fr)
                if all(self.truth(c, fr) for c in gen.ifs):
                    rec(i + 1)
        # (the loop variables of a comprehension are kept in the frame: they
        # would be local to the comprehension, which only matters for a
        # function that re-uses the name afterwards)
        saved = dict(fr.env)
        rec(0)
        names = set()
        for gen in gens:
            names |= set(stores_in_target(gen.target))
        for n in names:
            if n in saved:
                fr.env[n] = saved[n]
            else:
                fr.env.pop(n, None)

    def _e_ListComp(self, e, fr):
        out = []
        self._comp(e.generators, fr, lambda: out.append(self.ev(e.elt, fr)))
        return out

    _e_GeneratorExp = _e_ListComp

    def _e_SetComp(self, e, fr):
        out = set()
        self._comp(e.generators, fr, lambda: self.guarded(
            lambda: out.add(self.ev(e.elt, fr))))
        return out

    def _e_DictComp(self, e, fr):
        out = {}

        def emit():
            k, v = self.ev(e.key, fr), self.ev(e.value, fr)
            self.guarded(lambda: out.__setitem__(k, v))
        self._comp(e.generators, fr, emit)
        return out

    def _e_Call(self, e, fr):
        if any(isinstance(a, ast.Starred) for a in e.args) or \
                any(k.arg is None for k in e.keywords):
            self.fail(fr.f, e, 'starred arguments not modelled')
        fn = e.func
        tgt = self.ev(fn, fr)
        args = [self.ev(a, fr) for a in e.args]
        kw = {k.arg: self.ev(k.value, fr) for k in e.keywords}
        if isinstance(tgt, _Fn):
            kind, v = self.call(tgt.f, args, kw, fr.depth + 1)
            if kind == 'raise':
                raise _RaiseX(v)
            return v
        odd = (_Fn, _Opq, _Bi, _Attr)
        if isinstance(tgt, _Bi):
            if kw and tgt.name not in ('sorted', 'dict', 'min', 'max'):
                self.fail(fr.f, e, 'keyword arguments not modelled')
            if any(isinstance(a, odd) for a in args + list(kw.values())):
                if tgt.name in ('str', 'repr'):
                    return '<?>'
                return _OPQ
            return self.guarded(lambda: _PURE[tgt.name](*args, **kw))
        if isinstance(tgt, _Attr):
            obj, name = tgt.obj, tgt.name
            for ty, names in _METHODS.items():
                if type(obj) is ty and name in names:
                    if any(a is _OPQ for a in args) and ty is not str and \
                            name in ('index', 'remove', 'pop', 'get',
                                     'setdefault', 'discard', 'count'):
                        return _OPQ
                    res = self.guarded(
                        lambda: getattr(obj, name)(*args, **kw))
                    return list(res) if name in _LAZY else res
            self.fail(fr.f, e, 'method of a %s value not modelled'
                      % type(obj).__name__)
        if tgt is _OPQ:
            # a callee that cannot be followed: logging and profiling calls
            # have no effect on the values; anything else must not receive a
            # mutable value
            name = fn.attr if isinstance(fn, ast.Attribute) else \
                fn.id if isinstance(fn, ast.Name) else ''
            if name not in _LOGGING and any(
                    isinstance(a, (list, dict, set))
                    for a in args + list(kw.values())):
                self.fail(fr.f, e, 'hands a mutable value to a callee that '
                          'cannot be followed')
            return _OPQ
        self.fail(fr.f, e, 'callee not modelled')


def _load(t):
    import copy
    t2 = copy.copy(t)
    t2.ctx = ast.Load()
    return t2


class _Frame:
    def __init__(self, ip, f, module, env, depth):
        self.f, self.module, self.env, self.depth = f, module, env, depth
        self.globals = set()
        self.handling = []
        self.locals = set()
        if f is not None:
            self.locals = _memo(f, 'frame_locals', lambda: _locals_of(f) - {
                x for n in walk(f.node) if isinstance(n, ast.Global)
                for x in n.names})


# ------------------------------------------------------------------------------
# R06.3  Task._update and _task_state_progress, decided over the state constants
#
_SYNTH = ast.parse('task._update(task_dict)').body[0].value


def _states(prog):
    """(value table without None, non-final states in model order, finals)"""
    tab = {k: v for k, v in prog.const(STATES,
                                       '_task_state_values').items()
           if k is not None}
    final = [s for s in prog.const(STATES, 'FINAL') if s in tab]
    nonfinal = sorted((s for s in tab if s not in final), key=lambda s: tab[s])
    return tab, nonfinal, final


def _replay_sites(prog, upd):
    """the calls of Task._update the replay of _update_tasks makes (how they
    bind the parameters other than the update dict); when the replay cannot
    be located: a call with the update dict only"""
    sites = [(f, c) for f, c in _update_callers(prog) if _in_replay(f, c)]
    return sites or [(upd, _SYNTH)]


def _anytime(prog):
    """the states the model allows to be entered from anywhere"""
    return {prog.const(STATES, 'FAILED'), prog.const(STATES, 'CANCELED')}


def _verdict_table(prog, upd, curs, tgts):
    """{(cur, tgt): [verdict per replay site]} of Task._update"""
    out = {}
    for f, call in _replay_sites(prog, upd):
        cache = {}
        for c in curs:
            for t in tgts:
                v = _update_verdict(prog, upd, f, call, c, t, cache)
                if v[0] == 'unsure':
                    raise AnalysisError(
                        'UNRECOGNISED-IDIOM %s: cannot decide what an update '
                        '%s -> %s does (%s)' % (upd.where, c, t, v[1]))
                out.setdefault((c, t), []).append(v)
    return out


def _exempt_targets(prog):
    """target states which Task._update accepts from a state that is not
    their predecessor (no single-step test): decided by evaluating _update
    for a NEW task"""
    tab, nonfinal, final = _states(prog)
    task = prog.cls(*TASK)
    upd = prog.find_method(task, '_update')
    cur = nonfinal[0]
    vt = _verdict_table(prog, upd, [cur], [t for t in tab
                                           if tab[t] - tab[cur] > 1])
    return {t for (c, t), vs in vt.items()
            if all(v[0] == 'leaves' and v[1] == t for v in vs)}


def r06_3(prog, rep, rid='R06.3'):
    rep.rule(rid, 'Task._update (evaluated for every pair of current and '
             'target state): DONE/FAILED are never left, a step other than +1 '
             'is refused unless the target is FAILED/CANCELED, valid steps '
             'are applied; _task_state_progress (evaluated for every pair): '
             'two final states and non-forward requests replay nothing, a '
             'forward request replays the states strictly between current '
             'and target followed by the target', minimum=8)
    task = prog.cls(*TASK)
    f = prog.find_method(task, '_update')
    rep.saw(f)
    if not _state_writes(f):
        raise AnalysisError('UNRECOGNISED-IDIOM %s: state write' % f.where)
    tab, nonfinal, final = _states(prog)
    done, failed = prog.const(STATES, 'DONE'), prog.const(STATES, 'FAILED')
    anytime = _anytime(prog)
    allst = nonfinal + final
    vt = _verdict_table(prog, f, [s for s in allst if s in nonfinal or
                                  s in (done, failed)], allst)

    def first(pred):
        for (c, t), vs in vt.items():
            for v in vs:
                if pred(c, t, v):
                    return c, t, v
        return None

    def show(v):
        return 'leaves the state untouched' if v[0] == 'refused' else \
            'writes the state %s (%s)' % (v[1], v[2])
    # (1) sticky DONE / FAILED
    w = first(lambda c, t, v: c in (done, failed) and v[0] != 'refused')
    rep.check(w is None, rid, f, 'the state of a DONE / FAILED task is never '
              'written (all %d target states)' % len(allst),
              construct='update:sticky',
              message='Task._update writes the state although the task is '
              'already DONE or FAILED (early return missing, on the wrong '
              'operand, or with the wrong polarity): for a %s task an update '
              'to %s %s' % (w[:2] + (show(w[2]),) if w else ('', '', '')),
              loc=f.loc(), history='a task is %s; a late %s notification '
              'changes Task.state again' % (w[:2] if w else ('', '')))
    # (2) single step
    w = first(lambda c, t, v: c in nonfinal and t not in anytime and
              tab[t] - tab[c] != 1 and v[0] != 'refused')
    rep.check(w is None, rid, f, 'a step other than +1 (target - current) to '
              'a state other than FAILED/CANCELED is refused',
              construct='update:single-step',
              message='Task._update does not reject every transition other '
              'than target = current + 1: for a task in state %s an update to '
              '%s %s' % (w[:2] + (show(w[2]),) if w else ('', '', '')),
              loc=f.loc(), history='%s -> %s is applied directly; Task.state '
              'skips states or moves backwards, the callbacks see states out '
              'of order' % (w[:2] if w else ('', '')))
    # (3) valid steps are applied
    w = first(lambda c, t, v: c in nonfinal and t not in anytime and
              tab[t] - tab[c] == 1 and (v[0] != 'leaves' or v[1] != t))
    rep.check(w is None, rid, f, 'the step to the next state is applied',
              construct='update:step-applied',
              message='Task._update does not apply a valid single step: for '
              'a task in state %s an update to %s %s'
              % (w[:2] + (show(w[2]),) if w else ('', '', '')), loc=f.loc(),
              history='%s -> %s: the replay of _update_tasks is rejected (or '
              'writes another state), Task.state never follows the '
              'notifications' % (w[:2] if w else ('', '')))
    w = first(lambda c, t, v: c in nonfinal and t in anytime and
              (v[0] != 'leaves' or v[1] != t))
    rep.check(w is None, rid, f, 'FAILED / CANCELED are entered from every '
              'non-final state', construct='update:any-time',
              message='Task._update does not apply an update to FAILED / '
              'CANCELED from every non-final state: for a task in state %s '
              'an update to %s %s' % (w[:2] + (show(w[2]),) if w
                                      else ('', '', '')), loc=f.loc(),
              history='a task fails in state %s: Task.state never becomes %s'
              % (w[:2] if w else ('', '')))

    # _task_state_progress
    fp = prog.function(STATES, '_task_state_progress')
    rep.saw(fp)
    pairs = [(c, t) for c in allst for t in allst]
    res = _progress_results(prog, fp, pairs, fresh=True)
    inv = {tab[s]: s for s in nonfinal}
    if sorted(inv) != list(range(len(nonfinal))) or \
            {tab[s] for s in final} != {len(nonfinal)}:
        raise AnalysisError('%s: the state table is not a linear order '
                            '(R06.1): the passed states cannot be specified'
                            % fp.where)

    def want(c, t):
        if c in final and t in final:
            return 'final'
        if tab[t] <= tab[c]:
            return 'stale'
        return [inv[i] for i in range(tab[c] + 1, tab[t])] + [t]

    def firstp(pred):
        for p in pairs:
            if pred(p[0], p[1], res[p]):
                return p[0], p[1], res[p]
        return None

    def showp(r):
        return 'raises %s' % r[1] if r[0] == 'raise' else \
            'returns (%s, %s)' % (r[1], _showlist(r[2]))
    w = firstp(lambda c, t, r: want(c, t) == 'final' and r[0] == 'ret' and
               r[2])
    rep.check(w is None, rid, fp, 'a request final -> final replays no state '
              '(it raises or returns an empty list)',
              construct='progress:final-final',
              message='_task_state_progress(uid, %s, %s) %s: a task that is '
              'already final gets states to replay; Task._update is called '
              'for a final task and its callbacks fire once more'
              % (w[:2] + (showp(w[2]),) if w else ('', '', '')),
              loc=fp.loc(), history='%s followed by %s for the same task'
              % (w[:2] if w else ('', '')))
    w = firstp(lambda c, t, r: want(c, t) == 'stale' and r[0] == 'ret' and
               r[2])
    rep.check(w is None, rid, fp, 'a request that is no progress (target '
              'value <= current value) replays no state',
              construct='progress:no-progress',
              message='_task_state_progress(uid, %s, %s) %s: equal or earlier '
              'states are replayed' % (w[:2] + (showp(w[2]),) if w
                                       else ('', '', '')), loc=fp.loc(),
              history='a duplicated or late notification (%s while the task '
              'is %s) triggers callbacks again' % ((w[1], w[0]) if w
                                                   else ('', '')))
    w = firstp(lambda c, t, r: isinstance(want(c, t), list) and
               (r[0] != 'ret' or r[2] != want(c, t)))
    rep.check(w is None, rid, fp, 'passed = states of range(current+1, '
              'target) + [target] for every forward request',
              construct='progress:range',
              message='_task_state_progress(uid, %s, %s) %s; the passed '
              'states must be %s (the states strictly between current and '
              'target followed by the target)' % (
                  w[:2] + (showp(w[2]), _showlist(want(w[0], w[1]))) if w
                  else ('', '', '', '')), loc=fp.loc(),
              history='a notification %s -> %s: the replay announces the '
              'wrong states, omits the target or repeats the current state'
              % (w[:2] if w else ('', '')))
    w = firstp(lambda c, t, r: isinstance(want(c, t), list) and
               r[0] == 'ret' and r[1] != t)
    rep.check(w is None, rid, fp, 'the first result of a forward request is '
              'the target state', construct='progress:result',
              message='_task_state_progress(uid, %s, %s) %s: the first result '
              'is not the target state, on which _update_tasks decides '
              'whether intermediate states are replayed'
              % (w[:2] + (showp(w[2]),) if w else ('', '', '')),
              loc=fp.loc(), history='%s -> %s' % (w[:2] if w else ('', '')))


def _showlist(l):
    if len(l) <= 3:
        return '[%s]' % ', '.join(map(str, l))
    return '[%s, ... %d more ..., %s]' % (l[0], len(l) - 2, l[-1])


def _progress_call(prog, fp, ip, cur, tgt, n):
    """('ret', new state, [passed]) | ('raise', exception name)"""
    params = fp.params
    # (uid, current, target), as _update_tasks calls it; every call is made
    # for another task
    if len(params) < 3:
        raise AnalysisError('UNRECOGNISED-IDIOM %s: parameters' % fp.where)
    r = ip.call(fp, ['task.%06d' % n, cur, tgt])
    if r[0] == 'raise':
        return r
    v = r[1]
    if not isinstance(v, (list, tuple)) or len(v) != 2 or \
            not isinstance(v[1], (list, tuple)):
        raise AnalysisError('UNRECOGNISED-IDIOM %s: (%s, %s) returns `%r`, '
                            'not (state, [passed states])'
                            % (fp.where, cur, tgt, v))
    return ('ret', v[0], list(v[1]))


def _progress_results(prog, fp, pairs, fresh):
    """results of _task_state_progress for the pairs; fresh: every call is
    the first one made in the process, else: one process, calls in order"""
    if fresh:
        return _memo(prog, ('fresh', id(fp), tuple(pairs)),
                     lambda: _progress_results_(prog, fp, pairs, True))
    return _progress_results_(prog, fp, pairs, False)


def _progress_results_(prog, fp, pairs, fresh):
    out = {}
    ip = None
    for n, (c, t) in enumerate(pairs):
        if fresh or ip is None:
            ip = _Interp(prog)
        out[c, t] = _progress_call(prog, fp, ip, c, t, n)
    return out


# ------------------------------------------------------------------------------
# R06.7  _task_state_progress is a function of its arguments
#
def r06_7(prog, rep, rid='R06.7'):
    rep.rule(rid, 'the result of _task_state_progress depends on its '
             'arguments only: what an earlier call (for another task) '
             'computed is never handed out for a different current / target '
             'state (final states share one value: a result kept per state '
             'value belongs to three target states)', minimum=1)
    fp = prog.function(STATES, '_task_state_progress')
    rep.saw(fp)
    tab, nonfinal, final = _states(prog)
    allst = nonfinal + final
    pairs = [(c, t) for c in allst for t in allst]
    fresh = _progress_results(prog, fp, pairs, fresh=True)
    witness = None
    for order in (pairs, pairs[::-1]):
        seq = _progress_results(prog, fp, order, fresh=False)
        diff = [(len(fresh[p][-1]) if fresh[p][0] == 'ret' else 0, i)
                for i, p in enumerate(order) if seq[p] != fresh[p]]
        if diff:
            # the discrepancy with the shortest list of passed states
            i = min(diff)[1]
            witness = (order, i, order[i], seq[order[i]])
            break
    if witness is None:
        rep.ok(rid, fp, 'every (current, target) pair gives the same result '
               'after any of the two enumeration orders of all %d pairs as '
               'when it is the first call' % len(pairs), fp.loc())
        return
    order, i, p2, got = witness
    # the shortest history: one earlier call
    p1 = None
    for q in reversed(order[:i]):
        ip = _Interp(prog)
        _progress_call(prog, fp, ip, q[0], q[1], 0)
        if _progress_call(prog, fp, ip, p2[0], p2[1], 1) != fresh[p2]:
            p1 = q
            break
    ip = _Interp(prog)
    for q in ([p1] if p1 else order[:i]):
        _progress_call(prog, fp, ip, q[0], q[1], 0)
    written = sorted(ip.written())

    def showp(r):
        return 'raises %s' % r[1] if r[0] == 'raise' else \
            '(%s, %s)' % (r[1], _showlist(r[2]))
    hist = 'task A: %s -> %s, then task B: %s -> %s' % (p1 + p2) if p1 else \
        'the %d calls before (%s -> %s) in the enumeration of all pairs' % (
            (i,) + p2)
    rep.bad(rid, fp, 'progress:history',
            '_task_state_progress(uid, %s, %s) gives %s when it is the first '
            'call, but %s after %s: the function keeps results between calls '
            '(module-level state written: %s) under a key that does not '
            'determine the states - DONE, FAILED and CANCELED share one '
            'value - so that the passed states replayed for one task are '
            'those computed for another task; Task.state and the callbacks '
            'follow the stale list' % (
                p2[0], p2[1], showp(fresh[p2]), showp(got), hist,
                ', '.join(written) or 'not identified'), fp.loc(),
            history=hist + ': task B is replayed %s instead of %s' % (
                showp(got), showp(fresh[p2])))


# ------------------------------------------------------------------------------
# R06.4 / R06.5  the batch loop
#
def _raises_by_design(prog, callee, depth=3, seen=None):
    seen = seen or set()
    if callee is None or id(callee) in seen:
        return False
    seen.add(id(callee))
    for n in walk(callee.node):
        if isinstance(n, ast.Raise) and n.exc is not None:
            return True
    if depth <= 0:
        return False
    for c in calls_in(callee.node):
        if _raises_by_design(prog, prog.resolve_call(callee, c), depth - 1,
                             seen):
            return True
    return False


def _raised_types(prog, callee, depth=2, seen=None):
    """names of the exception classes raised explicitly (not by assert) in
    callee and its resolved callees"""
    seen = seen if seen is not None else set()
    out = set()
    if callee is None or id(callee) in seen:
        return out
    seen.add(id(callee))
    for n in walk(callee.node):
        if isinstance(n, ast.Raise) and n.exc is not None:
            e = n.exc.func if isinstance(n.exc, ast.Call) else n.exc
            out.add(unparse(e).split('.')[-1])
    if depth > 0:
        for c in calls_in(callee.node):
            out |= _raised_types(prog, prog.resolve_call(callee, c),
                                 depth - 1, seen)
    return out


def batch_info(prog):
    tm = prog.cls(*TMGR)
    f = prog.find_method(tm, '_update_tasks')
    if f is None:
        raise AnalysisError('anchor %s._update_tasks not found' % tm.where)
    f = _flatten_closures(prog, f)
    g = cfg_of(f)
    smap = I.stmt_node_map(g)
    param = [p for p in f.params if p != 'self'][0]
    loops = [n for n in g.nodes if n.kind == 'for' and
             unparse(n.ast.iter) == param]
    if len(loops) != 1:
        raise AnalysisError('UNRECOGNISED-IDIOM %s: batch loop' % f.where)
    return tm, f, g, smap, loops[0]


def r06_4(prog, rep, rid='R06.4'):
    rep.rule(rid, 'per-notification isolation: a call in the batch loop of '
             '_update_tasks that raises by design is caught inside the loop, '
             'so one bad notification does not drop the others', minimum=1)
    tm, f, g, smap, H = batch_info(prog)
    rep.saw(f)
    task = prog.cls(*TASK)
    body = g.loop_body[H.id]
    n_found = 0
    for n in g.nodes:
        if n.id not in body:
            continue
        for c in I.stmt_calls(n):
            callee = prog.resolve_call(f, c)
            anchored = False
            if callee is None and isinstance(c.func, ast.Attribute) and \
                    c.func.attr == '_update':
                callee = prog.find_method(task, '_update')
                anchored = True
            if call_name(c).endswith('_task_state_progress'):
                anchored = True
            if callee is None:
                continue
            if not anchored and (not _raises_by_design(prog, callee, 2) or
                                 callee.name in ('debug', 'get')):
                continue
            n_found += 1
            raised = _raised_types(prog, callee, 2)
            # the exception edge of this node must lead to a handler inside
            # the loop which does not re-raise and which covers the types the
            # callee raises
            caught = False
            for e in g.succ[n.id]:
                if e.label != 'exc':
                    continue
                tgt = g.nodes[e.dst]
                hs = [g.nodes[x.dst] for x in g.succ[tgt.id]
                      if x.label == 'exc'] if tgt.kind == 'dispatch' else [tgt]
                hd = [h for h in hs if h.kind == 'handler' and h.id in body]
                covered = set()
                for h in hd:
                    t = h.ast.type
                    if t is None:
                        covered |= {'*'}
                    else:
                        for x in (t.elts if isinstance(t, ast.Tuple) else [t]):
                            nm = unparse(x).split('.')[-1]
                            covered.add('*' if nm in ('Exception',
                                                      'BaseException') else nm)
                if hd and ('*' in covered or (raised and raised <= covered)):
                    # handler bodies must not re-raise unconditionally
                    rer = False
                    for h in hd:
                        r = g.reachable(h.id, labels={'next', 'T', 'F', 'iter',
                                                      'done'})
                        if not any(ed.back and ed.dst == H.id or
                                   ed.dst not in body
                                   for x in r for ed in g.succ[x]
                                   if ed.label != 'exc'):
                            rer = True
                    caught = not rer
                    # ... and go on with the next notification: the loop is
                    # left only through its head
                    for h in (hd if caught else []):
                        r = g.reachable(h.id, skip_nodes={H.id},
                                        labels={'next', 'T', 'F', 'iter',
                                                'done'})
                        out = sorted(x for x in r
                                     if x not in body and x != H.id)
                        rep.check(not out, rid, f, 'the handler of `%s` goes '
                                  'on with the next notification'
                                  % short(c, 40),
                                  construct='batch:handler-continues',
                                  message='TaskManager._update_tasks catches '
                                  'the exception `%s` raises by design, but '
                                  'the handler leaves the loop over the '
                                  'notifications (break / return) instead of '
                                  'going on with the next one: one '
                                  'contradictory or invalid notification '
                                  'keeps all later notifications of the '
                                  'batch from being applied' % short(c, 50),
                                  loc=f.loc(h.ast),
                                  history='batch [t1: FAILED after DONE, t2: '
                                  'DONE]: t1 raises, the handler ends the '
                                  'loop, t2 is never updated and its '
                                  'callbacks never fire')
            rep.check(caught, rid, f, '`%s` (raises by design) is isolated per '
                      'notification' % short(c, 50), construct=c,
                      message='TaskManager._update_tasks calls `%s`, which '
                      'raises by design, without catching the exception '
                      'inside the per-notification loop: one contradictory or '
                      'invalid notification aborts the whole batch and the '
                      'callbacks already collected are never delivered'
                      % short(c, 60), loc=f.loc(c),
                      history='batch [t1: AGENT_EXECUTING, t2: FAILED after '
                      'DONE, t3: DONE]: t2 raises, t3 is never updated, the '
                      'callback for t1 is lost')
    if n_found < 1:
        raise AnalysisError('R06.4: only %d of the two anchored calls '
                            '(_task_state_progress, Task._update) found in '
                            'the batch loop' % n_found)


def r06_5(prog, rep, rid='R06.5'):
    rep.rule(rid, 'replay: known states are skipped, the passed states of '
             '_task_state_progress(uid, current, target) are applied one by '
             'one through _update and announced once each, in order',
             minimum=4)
    tm, f, g, smap, H = batch_info(prog)
    d = Deps(f.node)
    prog_calls = [c for c in calls_in(f.node)
                  if call_name(c).endswith('_task_state_progress')]
    if len(prog_calls) != 1:
        raise AnalysisError('UNRECOGNISED-IDIOM %s: _task_state_progress call'
                            % f.where)
    pc = prog_calls[0]
    pn = smap[id(pc)]
    start = loop_slice(g, H.id)[0]
    # arguments: (uid, current state of the task object, state of the
    # notification)
    a = pc.args
    from ..flow import reaching_defs
    tdv = H.ast.target.id if isinstance(H.ast.target, ast.Name) else '#'

    def origin(e):
        # expression after following single reaching definitions of names
        for _ in range(4):
            if isinstance(e, ast.Name):
                rd = reaching_defs(g, e.id, pn.id)
                if len(rd) == 1 and rd[0][1] is not None:
                    e = rd[0][1]
                    continue
            break
        return e
    okargs = False
    if len(a) == 3:
        o1, o2 = origin(a[1]), origin(a[2])
        okargs = isinstance(o1, ast.Attribute) and o1.attr == 'state' and \
            isinstance(o2, ast.Subscript) and \
            isinstance(o2.slice, ast.Constant) and \
            o2.slice.value == 'state' and root_name(o2) == tdv
    rep.check(okargs, rid, f, 'progress is computed from (task.state, '
              "notification['state']) in that order", construct=pc,
              message='_update_tasks calls `%s`: current and target state are '
              'not (state of the task object, state of the notification)'
              % short(pc, 70), loc=f.loc(pc),
              history='every forward notification is treated as stale and '
              'every stale one replayed')
    # skip on current == target
    oks = False
    for tid, lab in guards(g, pn.id, start=start):
        t = g.nodes[tid].ast
        if isinstance(t, ast.Compare) and len(t.ops) == 1 and len(a) == 3 and \
                {_origin(g, t.left, tid), _origin(g, t.comparators[0], tid)} \
                == {unparse(origin(a[1])), unparse(origin(a[2]))}:
            if (isinstance(t.ops[0], ast.Eq) and lab == 'F') or \
                    (isinstance(t.ops[0], ast.NotEq) and lab == 'T'):
                oks = True
    rep.check(oks, rid, f, 'a notification for the state the task already has '
              'is skipped', construct='batch:skip-known',
              message='_update_tasks does not skip notifications whose state '
              'equals the current state before computing the progress',
              loc=f.loc(pc), history='a duplicated notification (informational'
              ' only: _task_state_progress also answers with an empty list)')
    # the replay loop
    asg = pn.ast
    passed = None
    if isinstance(asg, ast.Assign) and isinstance(asg.targets[0], ast.Tuple) \
            and len(asg.targets[0].elts) == 2 and \
            isinstance(asg.targets[0].elts[1], ast.Name):
        passed = asg.targets[0].elts[1].id
    if passed is None:
        raise AnalysisError('UNRECOGNISED-IDIOM %s: result of '
                            '_task_state_progress' % f.where)
    rl = [n for n in g.nodes if n.kind == 'for' and
          isinstance(n.ast.iter, ast.Name) and n.ast.iter.id == passed and
          isinstance(n.ast.target, ast.Name)]
    if len(rl) != 1:
        raise AnalysisError('UNRECOGNISED-IDIOM %s: replay loop over %s'
                            % (f.where, passed))
    R = rl[0]
    s = R.ast.target.id
    body = g.loop_body[R.id]
    upd = [c for c in calls_in(R.ast) if isinstance(c.func, ast.Attribute) and
           c.func.attr == '_update']
    setst = [n for n in g.stmt_nodes() if n.id in body and n.kind == 'stmt'
             and isinstance(n.ast, ast.Assign) and
             isinstance(n.ast.value, ast.Name) and n.ast.value.id == s and
             any(isinstance(t, ast.Subscript) and
                 isinstance(t.slice, ast.Constant) and
                 t.slice.value == 'state' for t in n.ast.targets)]
    rstart = loop_slice(g, R.id)[0]
    oku = len(upd) == 1 and bool(setst) and \
        must_pass(g, rstart, smap[id(upd[0])].id, [n.id for n in setst]) and \
        not [x for x in guards(g, smap[id(upd[0])].id, start=rstart)] and \
        upd[0].args and root_name(upd[0].args[0]) == root_name(
            setst[0].ast.targets[0])
    rep.check(oku, rid, f, "each passed state is written into the notification "
              "and applied through _update", construct='batch:replay',
              message="the replay loop of _update_tasks does not set "
              "task_dict['state'] = %s and then call _update(task_dict) "
              "unconditionally for every passed state" % s, loc=f.loc(R.ast),
              history='NEW -> AGENT_SCHEDULING: intermediate states are '
              'announced but never applied, or applied with the final target '
              'so that _update rejects the step')
    # the definitions of the list that reach the replay loop: the result of
    # the progress call, possibly rewritten on the way
    live, todo = set(), [R.id]
    while todo:
        at = todo.pop()
        for dn, dv in reaching_defs(g, passed, at):
            if dn.id not in live:
                live.add(dn.id)
                if dv is not None and passed in {
                        x.id for x in walk(dv) if isinstance(x, ast.Name)}:
                    todo.append(dn.id)
    final = set(prog.const(STATES, 'FINAL'))
    for n in g.stmt_nodes():
        if n.kind == 'stmt' and isinstance(n.ast, ast.Assign) and any(
                isinstance(t, ast.Name) and t.id == passed
                for t in n.ast.targets) and n is not pn and n.id in live:
            v = n.ast.value
            if passed not in {x.id for x in walk(v) if isinstance(x, ast.Name)}:
                # another source of states to replay
                if isinstance(v, (ast.List, ast.Tuple)) and not v.elts or \
                        isinstance(v, ast.Call) and not v.args and \
                        dotted(v.func) in ('list', 'tuple'):
                    rep.ok(rid, f, '`%s`: nothing is replayed'
                           % short(n.ast, 30), f.loc(n.ast))
                    continue
                for tid, lab in guards(g, n.id, start=start):
                    t = g.nodes[tid].ast
                    cc = const_compare(prog, f.module, t, f.cls)
                    if cc and cc[2] and cc[2] <= final and \
                            (cc[1] == 'notin') == (lab == 'T') and \
                            _origin(g, t.left, tid).endswith('.state'):
                        raise AnalysisError(
                            'UNRECOGNISED-IDIOM %s: `%s` replays states that '
                            'are not the result of _task_state_progress, for '
                            'tasks that are not final (`%s`): equivalence '
                            'with the progress function is not decided here'
                            % (f.where, short(n.ast, 40), short(t, 40)))
                rep.bad(rid, f, 'batch:replay-source',
                        '_update_tasks replays `%s`, a list that is not the '
                        'result of _task_state_progress(uid, current, '
                        'target).  The progress function is also the arbiter '
                        'between contradictory final states (a CANCELED task '
                        'gets an empty list for a late FAILED / DONE, a DONE '
                        'or FAILED task makes it raise): bypassing it hands '
                        'a task that is already final to Task._update again '
                        'and announces a second final state to the callbacks'
                        % short(n.ast, 40), f.loc(n.ast),
                        history='CANCELED followed by FAILED for the same '
                        'task (cancel raced a failure): two final callbacks, '
                        'Task.state changes from CANCELED to FAILED; DONE '
                        'followed by CANCELED: the callbacks fire again for '
                        'a task that is DONE')
                continue
            okv = isinstance(v, ast.Subscript) and \
                isinstance(v.value, ast.Name) and v.value.id == passed and \
                isinstance(v.slice, ast.Slice) and (
                    v.slice.step is None or unparse(v.slice.step) == '1')
            if unparse(v) in ('list(%s)' % passed, 'tuple(%s)' % passed,
                              '%s.copy()' % passed):
                rep.ok(rid, f, '`%s` keeps the model order'
                       % short(n.ast, 40), f.loc(n.ast))
                continue
            # a slice that drops elements is only sound for targets which
            # Task._update accepts without the single-step test
            if okv and (v.slice.upper is not None or (
                    v.slice.lower is not None and
                    unparse(v.slice.lower) != '0')):
                exempt = _exempt_targets(prog)
                # the target states for which the statement is reached: the
                # tests on the target state (the first result of the progress
                # call / the state of the notification) are evaluated for
                # every state, all other tests are free
                tnames = {unparse(origin(a[2]))} if len(a) == 3 else set()
                if isinstance(asg.targets[0].elts[0], ast.Name):
                    tnames.add(asg.targets[0].elts[0].id)
                ttests = []
                for m in g.nodes:
                    if m.kind != 'test' or m.ast is None:
                        continue
                    cc = const_compare(prog, f.module, m.ast, f.cls)
                    if cc is None:
                        continue
                    ln = m.ast.left if unparse(m.ast.left) == cc[0] \
                        else m.ast.comparators[0]
                    if cc[0] in tnames or _origin(g, ln, m.id) in tnames:
                        ttests.append((m.id, cc[1], cc[2]))
                allowed = set()
                for st in (_states(prog)[0] if ttests else ()):
                    skip = [(tid, 'F' if (st in vals) == (op == 'in') else 'T')
                            for tid, op, vals in ttests]
                    if n.id in g.reachable(start, skip_edges=skip):
                        allowed.add(st)
                if not ttests:
                    allowed = None
                rep.check(allowed is not None and allowed <= exempt, rid, f,
                          'intermediate states are dropped (`%s`) only for '
                          'targets exempt from the single-step test %s'
                          % (short(n.ast, 30), sorted(exempt)),
                          construct='batch:truncate',
                          message='_update_tasks drops intermediate states '
                          '(`%s`) for targets %s, but Task._update accepts '
                          'only %s without the single-step test: the '
                          'truncated update is rejected and the task is '
                          'stuck in its old state' % (
                              short(n.ast, 40), sorted(allowed) if allowed
                              else 'of any state', sorted(exempt)),
                          loc=f.loc(n.ast),
                          history='a notification jumps from AGENT_EXECUTING '
                          'to DONE: the replay is cut to [DONE], _update '
                          'raises, the task never becomes final')
            rep.check(okv, rid, f, '`%s` keeps the model order'
                      % short(n.ast, 40), construct=n.ast,
                      message='_update_tasks rewrites the passed states with '
                      '`%s`: not an order-preserving slice' % short(n.ast, 50),
                      loc=f.loc(n.ast), history='callbacks announce states in '
                      'the wrong order')
    # announcement: collected once per applied state, delivered once
    coll = [c for c in calls_in(R.ast) if isinstance(c.func, ast.Attribute) and
            c.func.attr == 'append' and isinstance(c.func.value, ast.Name) and
            c.args and s in {x.id for x in walk(c.args[0])
                             if isinstance(x, ast.Name)}]
    okc = len(coll) == 1 and upd and \
        set(guards(g, smap[id(coll[0])].id, start=rstart)) == \
        set(guards(g, smap[id(upd[0])].id, start=rstart))
    rep.check(okc, rid, f, 'one callback record per applied state',
              construct='batch:collect', message='_update_tasks does not '
              'collect exactly one (task, state) record per state it applies',
              loc=f.loc(R.ast), history='a state is applied without callback '
              'or announced twice')
    if coll:
        lst = coll[0].func.value.id
        notif = [n for n in g.nodes if n.kind == 'for' and
                 isinstance(n.ast.iter, ast.Name) and n.ast.iter.id == lst]
        bulk = [c for c in calls_in(f.node) if lst in
                {x.id for x in walk(c) if isinstance(x, ast.Name)} and
                call_name(c).startswith('self._') and
                'cb' in call_name(c)]
        okn = False
        for n in notif:
            if H.id in n.loops or R.id in n.loops:
                continue
            tv = stores_in_target(n.ast.target)
            for c in calls_in(n.ast):
                if call_name(c).startswith('self._') and 'cb' in \
                        call_name(c) and [unparse(x) for x in c.args] == tv:
                    okn = True
        okn = okn or any(H.id not in smap[id(c)].loops for c in bulk)
        rep.check(okn, rid, f, 'the collected (task, state) records are '
                  'delivered to the callbacks after the batch, in order',
                  construct='batch:deliver', message='_update_tasks does not '
                  'deliver the collected (task, state) records to the '
                  'callback dispatcher once, after the batch loop',
                  loc=f.loc(), history='state callbacks are never invoked, or '
                  'invoked inside the loop once per remaining notification')


# ------------------------------------------------------------------------------
# R06.6  a final state is never left on the direct update path
#
# Task._update and its direct callers are evaluated over the finite domain of
# the state constants: for a fixed current state of the task and a fixed
# target state, tests over these two (and over anything computed from them
# and from module / class constants) have a definite outcome; tests over
# anything else are free (both branches).  A test that depends on the two
# states but cannot be evaluated taints the path: what is found behind it is
# never reported as a violation (UNRECOGNISED-IDIOM instead).
#
_FREE = ('u', None, False)    # unknown, independent of current / target state
_DEP  = ('u', None, True)     # unknown, computed from current / target state
_RECV = ('recv', None, True)  # the task object itself
_UPD  = ('upd', None, True)   # the update dict handed to Task._update
_STATE_ATTRS = ('state', '_state')


def _c(v, dep=False):
    return ('c', v, dep)


def _body_expr(fn):
    """the expression of a function whose body is a single `return <expr>`"""
    stmts = [s for s in fn.node.body
             if not (isinstance(s, ast.Expr) and
                     isinstance(s.value, ast.Constant))]
    if len(stmts) == 1 and isinstance(stmts[0], ast.Return) and \
            stmts[0].value is not None:
        return stmts[0].value
    return None


def _straight_body(fn):
    """([(name, expr)], result expr) of a function whose body is a sequence
    of assignments to plain names followed by `return <expr>`"""
    stmts = [s for s in fn.node.body
             if not (isinstance(s, ast.Expr) and
                     isinstance(s.value, ast.Constant))]
    if not stmts or not isinstance(stmts[-1], ast.Return) or \
            stmts[-1].value is None:
        return None
    pre = []
    for st in stmts[:-1]:
        if isinstance(st, ast.Assign) and len(st.targets) == 1 and \
                isinstance(st.targets[0], ast.Name):
            pre.append((st.targets[0].id, st.value))
        elif isinstance(st, ast.AnnAssign) and st.value is not None and \
                isinstance(st.target, ast.Name):
            pre.append((st.target.id, st.value))
        else:
            return None
    return pre, stmts[-1].value


class _Scope:
    """one function, evaluated for a task in state `cur` and (in Task._update)
    an update dict whose 'state' is `tgt`"""

    def __init__(self, prog, f, cur, tgt=None, recv=(), site=None, depth=0):
        self.prog, self.f = prog, f
        self.cur, self.tgt = cur, tgt
        self.recv = set(recv)         # source texts denoting the task object
        self.site = site              # the `_update` call looked at (caller)
        self.dparam = 'task_dict'     # name of _update's dict parameter
        self.depth = depth
        self.locals = _locals_of(f)
        self._task = None
        self._deps = None
        self._ideps = None

    # -- expressions ----------------------------------------------------------
    def ev(self, e, env):
        if self.recv and isinstance(e, (ast.Name, ast.Attribute,
                                        ast.Subscript)) and \
                unparse(e) in self.recv:
            return _RECV
        m = getattr(self, '_ev_' + type(e).__name__, None)
        return m(e, env) if m else self._opaque(e, env)

    def _opaque(self, e, env):
        dep = False
        for n in walk(e, nested=True):
            if isinstance(n, ast.Name):
                v = env.get(n.id)
                if (v is not None and v[2]) or n.id in self.recv:
                    dep = True
            elif isinstance(n, (ast.Attribute, ast.Subscript)) and \
                    self.recv and unparse(n) in self.recv:
                dep = True
            elif isinstance(n, ast.Attribute) and n.attr in _STATE_ATTRS and \
                    not self.foreign(n.value):
                dep = True
        return _DEP if dep else _FREE

    def foreign(self, e):
        """the object denoted by e is handed in from outside (reached from a
        parameter other than self only): not one of the tasks the receiver
        of this function knows, its `.state` says nothing about them"""
        return self.foreign_name(root_name(e))

    def foreign_name(self, r):
        if r is None or r == 'self':
            return False
        params = [p for p in self.f.params if p != 'self']
        if r in params:
            return True
        if self._deps is None:
            self._deps = Deps(self.f.node, implicit=False)
        cl = self._deps.closure(r)
        return bool(cl & set(params)) and not any(
            x == 'self' or x.startswith('self.') or x.startswith('ret:')
            for x in cl)

    def hidden_dep(self, test):
        """a test the evaluator takes as free depends (flow-insensitively,
        implicit flows included) on the state of a task after all, e.g.
        through a container filled under a test on `<task>.state`"""
        if self._ideps is None:
            self._ideps = Deps(self.f.node, implicit=True)
        for l in self._ideps.expr_depends(test):
            head, _, attr = l.rpartition('.')
            if attr in _STATE_ATTRS and head and '.' not in head and (
                    head in self.recv or not self.foreign_name(head)):
                return True
        return False

    def _ev_Constant(self, e, env):
        return _c(e.value)

    def _ev_Name(self, e, env):
        if e.id in env:
            return env[e.id]
        if e.id in self.locals:
            return _FREE
        v = self.prog.fold(self.f.module, e)
        return _FREE if v is UNKNOWN else _c(v)

    def _ev_Attribute(self, e, env):
        b = self.ev(e.value, env)
        if b[0] == 'recv' and e.attr in _STATE_ATTRS:
            return _c(self.cur, True)
        if b[0] in ('u', 'recv'):
            v = self.prog.fold(self.f.module, e, self.f.cls)
            if v is not UNKNOWN:
                return _c(v)
        if b[0] == 'recv':
            # a property is evaluated, a data attribute other than the state
            # is taken as independent of the state
            m = self.prog.find_method(self.task_cls(), e.attr)
            if m is None:
                return _FREE
            body = _body_expr(m)
            if self.depth < 3 and body is not None and 'property' in {
                    dotted(d) for d in m.node.decorator_list} and \
                    len(m.params) == 1:
                sub = _Scope(self.prog, m, self.cur, None,
                             depth=self.depth + 1)
                return sub.ev(body, {m.params[0]: _RECV})
            return _DEP
        if e.attr in _STATE_ATTRS and not self.foreign(e.value):
            return _DEP                # the state of some other task
        return ('u', None, b[2])

    def _upd_get(self, k, env):
        if k[0] != 'c':
            return _DEP
        if k[1] != 'state':
            return _FREE
        if '#tgt' in env:
            return env['#tgt']
        return _DEP if self.tgt is None else _c(self.tgt, True)

    def _lit_get(self, b, k, default=None):
        if k[0] != 'c':
            return ('u', None, True)
        try:
            if k[1] in b[1]:
                return b[1][k[1]]
        except TypeError:
            pass
        return default

    def _ev_Subscript(self, e, env):
        b = self.ev(e.value, env)
        k = self.ev(e.slice, env)
        if b[0] == 'upd':
            return self._upd_get(k, env)
        if b[0] == 'lit':
            return self._lit_get(b, k) or _FREE
        if b[0] == 'c' and k[0] == 'c':
            try:
                return _c(b[1][k[1]], b[2] or k[2])
            except Exception:                                   # noqa
                pass
        return ('u', None, b[2] or k[2])

    def _ev_Call(self, e, env):
        fn = e.func
        if any(isinstance(a, ast.Starred) for a in e.args) or \
                any(k.arg is None for k in e.keywords):
            return self._opaque(e, env)
        args = [self.ev(a, env) for a in e.args]
        base = None
        if isinstance(fn, ast.Attribute):
            base = self.ev(fn.value, env)
            if fn.attr == 'get' and args:
                if base[0] == 'upd':
                    return self._upd_get(args[0], env)
                dflt = args[1] if len(args) > 1 else _c(None)
                if base[0] == 'lit':
                    return self._lit_get(base, args[0], dflt)
                if base[0] == 'c' and isinstance(base[1], dict) and \
                        args[0][0] == 'c' and dflt[0] == 'c':
                    try:
                        return _c(base[1].get(args[0][1], dflt[1]),
                                  base[2] or args[0][2])
                    except TypeError:
                        pass
        name = dotted(fn)
        if name == 'getattr' and len(args) >= 2 and args[0][0] == 'recv' and \
                args[1][0] == 'c' and args[1][1] in _STATE_ATTRS:
            return _c(self.cur, True)
        if name == 'dict' and not args and e.keywords:
            return ('lit', {k.arg: self.ev(k.value, env) for k in e.keywords},
                    False)
        if name in ('list', 'tuple', 'set', 'frozenset', 'len', 'bool', 'str',
                    'sorted') and len(args) == 1 and not e.keywords and \
                args[0][0] == 'c' and name not in self.locals:
            try:
                return _c({'list': list, 'tuple': tuple, 'set': set,
                           'frozenset': frozenset, 'len': len, 'bool': bool,
                           'str': str, 'sorted': sorted}[name](args[0][1]),
                          args[0][2])
            except Exception:                                   # noqa
                pass
        r = self._inline(e, env, args, base)
        if r is not None:
            return r
        dep = any(a[2] for a in args) or bool(base and base[2]) or \
            any(self.ev(k.value, env)[2] for k in e.keywords)
        return _DEP if dep else _FREE

    def task_cls(self):
        if self._task is None:
            self._task = self.prog.cls(*TASK)
        return self._task

    def _inline(self, e, env, args, base):
        """value of a call of a helper whose body is `return <expr>`"""
        if self.depth >= 3:
            return None
        fn = e.func
        callee = None
        if base is not None and base[0] == 'recv':
            callee = self.prog.find_method(self.task_cls(), fn.attr)
        elif isinstance(fn, ast.Name) and fn.id in env:
            return None
        else:
            try:
                callee = self.prog.resolve_call(self.f, e)
            except AnalysisError:
                callee = None
        if callee is None:
            return None
        # a function defined inside the evaluated one reads its variables:
        # its result depends on the states unless it can be followed
        closure = callee.parent is not None and callee.parent is self.f
        opaque = _DEP if closure else None
        sb = _straight_body(callee)
        a = callee.node.args
        if sb is None or a.vararg or a.kwarg or a.kwonlyargs:
            return opaque
        pre, body = sb
        params = [x.arg for x in a.posonlyargs + a.args]
        deco = {dotted(d) for d in callee.node.decorator_list}
        vals = list(args)
        if callee.cls is not None and 'staticmethod' not in deco and \
                callee.parent is None:
            if base is None or 'classmethod' in deco:
                return None
            vals = [base] + vals
        if len(vals) > len(params):
            return opaque
        bound = dict(zip(params, vals))
        for k in e.keywords:
            if k.arg not in params or k.arg in bound:
                return opaque
            bound[k.arg] = self.ev(k.value, env)
        nd = len(a.defaults)
        for prm, dv in zip(a.args[len(a.args) - nd:], a.defaults):
            if prm.arg not in bound:
                v = self.prog.fold(callee.module, dv)
                bound[prm.arg] = _FREE if v is UNKNOWN else _c(v)
        if any(p not in bound for p in params):
            return opaque
        if closure:
            sub = _Scope(self.prog, callee, self.cur, self.tgt,
                         recv=self.recv, depth=self.depth + 1)
            sub.dparam = self.dparam
            # the variables of the enclosing function as they are now; names
            # the inner function binds itself are its own
            own = _locals_of(callee)
            bound = dict({k: v for k, v in env.items() if k not in own},
                         **bound)
        else:
            sub = _Scope(self.prog, callee, self.cur, None,
                         depth=self.depth + 1)
        for name, expr in pre:
            bound[name] = sub.ev(expr, bound)
        return sub.ev(body, bound)

    @staticmethod
    def _cmp(op, a, b):
        dep = a[2] or b[2]
        if a[0] != 'c' or b[0] != 'c':
            return ('u', None, dep)
        x, y = a[1], b[1]
        try:
            if isinstance(op, ast.Eq):
                return _c(x == y, dep)
            if isinstance(op, ast.NotEq):
                return _c(x != y, dep)
            if isinstance(op, ast.In):
                return _c(x in y, dep)
            if isinstance(op, ast.NotIn):
                return _c(x not in y, dep)
            if isinstance(op, (ast.Is, ast.IsNot)):
                if any(z is None or isinstance(z, bool) for z in (x, y)):
                    r = x is y
                    return _c(r if isinstance(op, ast.Is) else not r, dep)
                return ('u', None, dep)
            if isinstance(op, ast.Lt):
                return _c(x < y, dep)
            if isinstance(op, ast.LtE):
                return _c(x <= y, dep)
            if isinstance(op, ast.Gt):
                return _c(x > y, dep)
            if isinstance(op, ast.GtE):
                return _c(x >= y, dep)
        except Exception:                                       # noqa
            pass
        return ('u', None, dep)

    def _ev_Compare(self, e, env):
        vals = [self.ev(x, env) for x in [e.left] + list(e.comparators)]
        dep = False
        for i, op in enumerate(e.ops):
            v = self._cmp(op, vals[i], vals[i + 1])
            if v[0] != 'c':
                return ('u', None, any(x[2] for x in vals))
            dep = dep or v[2]
            if not v[1]:
                return _c(False, dep)
        return _c(True, dep)

    @staticmethod
    def truth(v):
        """True / False / None (unknown)"""
        if v[0] == 'c':
            return bool(v[1])
        if v[0] == 'recv':
            return True
        if v[0] == 'lit':
            return bool(v[1])
        return None

    def _ev_BoolOp(self, e, env):
        is_and = isinstance(e.op, ast.And)
        dep, unk, last = False, False, None
        for x in e.values:
            v = self.ev(x, env)
            t = self.truth(v)
            dep = dep or v[2]
            if t is None:
                unk = True
                continue
            if t != is_and:
                # a falsy operand of `and` / a truthy operand of `or` decides
                # the truth of the whole (its value only if nothing unknown
                # came before)
                return _c(v[1] if not unk and v[0] == 'c' else t, dep)
            last = v
        if unk or last is None:
            return ('u', None, dep)
        return (last[0], last[1], dep)

    def _ev_UnaryOp(self, e, env):
        v = self.ev(e.operand, env)
        if isinstance(e.op, ast.Not):
            t = self.truth(v)
            return ('u', None, v[2]) if t is None else _c(not t, v[2])
        if v[0] == 'c':
            try:
                if isinstance(e.op, ast.USub):
                    return _c(-v[1], v[2])
                if isinstance(e.op, ast.UAdd):
                    return _c(+v[1], v[2])
            except Exception:                                   # noqa
                pass
        return ('u', None, v[2])

    def _ev_BinOp(self, e, env):
        l, r = self.ev(e.left, env), self.ev(e.right, env)
        dep = l[2] or r[2]
        if l[0] == 'c' and r[0] == 'c':
            try:
                if isinstance(e.op, ast.Add):
                    return _c(l[1] + r[1], dep)
                if isinstance(e.op, ast.Sub):
                    return _c(l[1] - r[1], dep)
                if isinstance(e.op, ast.Mult):
                    return _c(l[1] * r[1], dep)
                if isinstance(e.op, ast.Mod):
                    return _c(l[1] % r[1], dep)
            except Exception:                                   # noqa
                pass
        return ('u', None, dep)

    def _ev_IfExp(self, e, env):
        t = self.ev(e.test, env)
        tt = self.truth(t)
        if tt is not None:
            v = self.ev(e.body if tt else e.orelse, env)
            return (v[0], v[1], v[2] or t[2])
        a, b = self.ev(e.body, env), self.ev(e.orelse, env)
        if a[0] == 'c' and b[0] == 'c' and repr(a[1]) == repr(b[1]):
            return _c(a[1], a[2] or b[2])
        return ('u', None, t[2] or a[2] or b[2])

    def _ev_JoinedStr(self, e, env):
        out, dep = '', False
        for p in e.values:
            if isinstance(p, ast.Constant):
                out += str(p.value)
                continue
            if not isinstance(p, ast.FormattedValue) or p.conversion != -1 \
                    or p.format_spec is not None:
                return self._opaque(e, env)
            v = self.ev(p.value, env)
            dep = dep or v[2]
            if v[0] != 'c' or not isinstance(v[1], (str, int)):
                return ('u', None, dep)
            out += str(v[1])
        return _c(out, dep)

    def _seq(self, e, env, ctor):
        vals = []
        for x in e.elts:
            if isinstance(x, ast.Starred):
                return self._opaque(e, env)
            vals.append(self.ev(x, env))
        dep = any(v[2] for v in vals)
        if all(v[0] == 'c' for v in vals):
            try:
                return _c(ctor([v[1] for v in vals]), dep)
            except TypeError:
                pass
        return ('u', None, dep)

    def _ev_List(self, e, env):
        return self._seq(e, env, list)

    def _ev_Tuple(self, e, env):
        return self._seq(e, env, tuple)

    def _ev_Set(self, e, env):
        return self._seq(e, env, set)

    def _ev_Dict(self, e, env):
        out = {}
        for k, v in zip(e.keys, e.values):
            kk = self.ev(k, env) if k is not None else _DEP
            if kk[0] != 'c':
                return self._opaque(e, env)
            try:
                out[kk[1]] = self.ev(v, env)
            except TypeError:
                return self._opaque(e, env)
        return ('lit', out, any(v[2] for v in out.values()))

    # -- statements -----------------------------------------------------------
    def bind(self, t, v, env, evs):
        if isinstance(t, ast.Name):
            env[t.id] = v
        elif isinstance(t, (ast.Tuple, ast.List)):
            if v[0] == 'c' and isinstance(v[1], (list, tuple)) and \
                    len(v[1]) == len(t.elts) and \
                    not any(isinstance(x, ast.Starred) for x in t.elts):
                for x, y in zip(t.elts, v[1]):
                    self.bind(x, _c(y, v[2]), env, evs)
            else:
                for x in t.elts:
                    self.bind(x, ('u', None, v[2]), env, evs)
        elif isinstance(t, ast.Starred):
            self.bind(t.value, ('u', None, v[2]), env, evs)
        elif isinstance(t, ast.Attribute):
            b = self.ev(t.value, env)
            if b[0] == 'recv' and t.attr in _STATE_ATTRS:
                evs.append(('write', v, False))
        elif isinstance(t, ast.Subscript):
            b = self.ev(t.value, env)
            k = self.ev(t.slice, env)
            if b[0] == 'upd':
                if k[0] != 'c':
                    env['#tgt'] = _DEP
                elif k[1] == 'state':
                    env['#tgt'] = v
            elif b[0] == 'lit' and isinstance(t.value, ast.Name):
                if k[0] == 'c':
                    try:
                        d = dict(b[1])
                        d[k[1]] = v
                        env[t.value.id] = ('lit', d, b[2] or v[2])
                    except TypeError:
                        env[t.value.id] = _DEP
                else:
                    env[t.value.id] = _DEP
            elif isinstance(t.value, ast.Attribute) and \
                    t.value.attr == '__dict__' and \
                    self.ev(t.value.value, env)[0] == 'recv':
                evs.append(('write', v, k[0] != 'c' or k[1] != '_state'))

    def _writes_state(self, callee, seen=None, depth=2):
        """a method of the task class that (transitively) writes the state"""
        seen = seen if seen is not None else set()
        if callee is None or id(callee) in seen:
            return False
        seen.add(id(callee))
        if _state_writes(callee):
            return True
        if depth <= 0:
            return False
        for c in calls_in(callee.node):
            if isinstance(c.func, ast.Attribute) and \
                    unparse(c.func.value) == 'self' and self._writes_state(
                        self.prog.find_method(self.task_cls(), c.func.attr),
                        seen, depth - 1):
                return True
        return False

    def call_events(self, st, env, evs):
        for c in calls_in(st):
            if self.site is not None and c is self.site:
                a = kwarg(c, self.dparam, 0)
                v = self.ev(a, env) if a is not None else _DEP
                tg = self._lit_get(v, _c('state'), None) if v[0] == 'lit' \
                    else _DEP
                evs.append(('call', tg, False))
                continue
            name = dotted(c.func)
            fn = c.func
            if name == 'setattr' and len(c.args) == 3 or \
                    isinstance(fn, ast.Attribute) and \
                    fn.attr == '__setattr__' and len(c.args) == 2:
                obj = c.args[0] if name == 'setattr' else fn.value
                nm, val = c.args[-2], c.args[-1]
                if self.ev(obj, env)[0] != 'recv':
                    continue
                n = self.ev(nm, env)
                if n[0] == 'c' and n[1] != '_state':
                    continue
                evs.append(('write', self.ev(val, env), n[0] != 'c'))
            elif isinstance(fn, ast.Attribute) and \
                    fn.attr in ('update', '__setitem__') and (
                        isinstance(fn.value, ast.Attribute) and
                        fn.value.attr == '__dict__' and
                        self.ev(fn.value.value, env)[0] == 'recv' or
                        isinstance(fn.value, ast.Call) and
                        dotted(fn.value.func) == 'vars' and fn.value.args and
                        self.ev(fn.value.args[0], env)[0] == 'recv'):
                evs.append(('write', _DEP, True))
            elif isinstance(fn, ast.Attribute) and self.site is None and \
                    self.ev(fn.value, env)[0] == 'recv' and \
                    self._writes_state(self.prog.find_method(
                        self.task_cls(), fn.attr)):
                # the write is delegated: not followed
                evs.append(('write', _DEP, True))

    def effect(self, st, env):
        """(environment after the statement took effect, events)"""
        env = dict(env)
        evs = []
        if isinstance(st, (ast.Assign, ast.AnnAssign, ast.AugAssign, ast.Expr,
                           ast.Return, ast.Raise, ast.Assert, ast.Delete)):
            self.call_events(st, env, evs)
        if isinstance(st, ast.Assign):
            v = self.ev(st.value, env)
            for t in st.targets:
                self.bind(t, v, env, evs)
        elif isinstance(st, ast.AnnAssign) and st.value is not None:
            self.bind(st.target, self.ev(st.value, env), env, evs)
        elif isinstance(st, ast.AugAssign):
            o, v = self.ev(st.target, env), self.ev(st.value, env)
            self.bind(st.target, ('u', None, o[2] or v[2]), env, evs)
        elif isinstance(st, ast.With):
            for it in st.items:
                self.call_events(it.context_expr, env, evs)
                if it.optional_vars is not None:
                    self.bind(it.optional_vars, self._opaque(
                        it.context_expr, env), env, evs)
        elif isinstance(st, ast.ExceptHandler):
            if st.name:
                env[st.name] = _FREE
        elif isinstance(st, ast.Delete):
            for t in st.targets:
                if isinstance(t, ast.Name):
                    env.pop(t.id, None)
        return env, evs

    def iter_filter(self, g, head, env):
        """conditions which every element delivered to the loop over the task
        objects satisfies: False = this task is never delivered, else taint"""
        t = head.ast.target
        if not (isinstance(t, ast.Name) and t.id in self.recv):
            return False, False
        try:
            from .c13 import iterable_guards
        except Exception as e:                                  # noqa
            raise AnalysisError('R06.6: filter recogniser of c13 not '
                                'available (%r)' % e)
        names, conds = iterable_guards(self.f, g, head.ast.iter, head.id)
        taint = False
        e2 = dict(env)
        for n in names:
            e2[n] = _RECV
        for c in conds:
            v = self.ev(c, e2)
            tt = self.truth(v)
            if tt is False:
                return True, False
            if tt is None and v[2]:
                taint = True
        return False, taint


def _explore(scope, g, env0, limit=20000):
    """events [(kind, value, tainted, uncertain, cfg node)] of all paths
    through the function which are feasible for the scope's states"""
    out = []
    seen = set()
    todo = [(g.entry.id, env0, False)]

    def push(e, env, taint):
        dst = g.nodes[e.dst]
        if dst.kind == 'for' and not e.back and ('#i%d' % e.dst) in env:
            env = dict(env)
            del env['#i%d' % e.dst]
        todo.append((e.dst, env, taint))

    while todo:
        nid, env, taint = todo.pop()
        key = (nid, taint, tuple(sorted((k, repr(v)) for k, v in env.items())))
        if key in seen:
            continue
        seen.add(key)
        if len(seen) > limit:
            raise AnalysisError('R06.6: %s: more than %d abstract states'
                                % (scope.f.where, limit))
        n = g.nodes[nid]
        edges = g.succ[nid]
        if n.kind in ('test', 'for') and n.ast is not None:
            evs = []
            scope.call_events(n.ast if n.kind == 'test' else n.ast.iter, env,
                              evs)
            for kind, val, unc in evs:
                out.append((kind, val, taint, unc or kind == 'write', n))
        if n.kind == 'test' and n.ast is not None:
            v = scope.ev(n.ast, env)
            tt = scope.truth(v)
            for e in edges:
                if e.label not in ('T', 'F'):
                    push(e, env, taint)
                elif tt is None:
                    push(e, env, taint or v[2] or scope.hidden_dep(n.ast))
                elif (e.label == 'T') == tt:
                    push(e, env, taint)
        elif n.kind == 'for':
            it = scope.ev(n.ast.iter, env)
            ikey = '#i%d' % nid
            seq = list(it[1]) if it[0] == 'c' and isinstance(
                it[1], (list, tuple)) else None
            i = env[ikey][1] if ikey in env else 0
            for e in edges:
                if e.label == 'iter':
                    e2 = dict(env)
                    if seq is not None:
                        if i >= len(seq):
                            continue
                        e2[ikey] = _c(i + 1)
                        scope.bind(n.ast.target, _c(seq[i], it[2]), e2, [])
                        push(e, e2, taint)
                    else:
                        never, tn = scope.iter_filter(g, n, env)
                        if never:
                            continue
                        scope.bind(n.ast.target, ('u', None, it[2]), e2, [])
                        push(e, e2, taint or tn)
                elif e.label == 'done':
                    if seq is not None and i < len(seq):
                        continue
                    e2 = dict(env)
                    e2.pop(ikey, None)
                    push(e, e2, taint)
                else:
                    push(e, env, taint)
        elif n.kind in ('stmt', 'with', 'handler') and n.ast is not None:
            env2, evs = scope.effect(n.ast, env)
            for e in edges:
                if e.label == 'exc':
                    push(e, env, taint)
                    continue
                stop = False
                for kind, val, unc in evs:
                    out.append((kind, val, taint, unc, n))
                    if kind == 'call' or not (
                            val[0] == 'c' and val[1] == scope.cur and not unc):
                        stop = True
                if not stop:
                    push(e, env2, taint)
        else:
            for e in edges:
                push(e, env, taint)
    return out


def _in_replay(f, call):
    """the call is made for the elements of the `passed` result of
    _task_state_progress (the discipline decided by R06.3 / R06.5)"""
    passed = set()
    for n in walk(f.node):
        if isinstance(n, ast.Assign) and isinstance(n.value, ast.Call) and \
                call_name(n.value).endswith('_task_state_progress') and \
                isinstance(n.targets[0], (ast.Tuple, ast.List)) and \
                len(n.targets[0].elts) == 2 and \
                isinstance(n.targets[0].elts[1], ast.Name):
            passed.add(n.targets[0].elts[1].id)
    if not passed:
        return False
    for n in walk(f.node):
        if isinstance(n, ast.For) and isinstance(n.iter, ast.Name) and \
                n.iter.id in passed and any(c is call for c in calls_in(n)):
            return True
    return False


def _update_verdict(prog, upd, f, call, cur, tgt, cache):
    """what Task._update does for a task in state cur and an update to tgt
    when called by `call` in f (call None: any values of the other
    parameters): ('leaves', new state, loc) | ('refused',) | ('unsure', why)"""
    a = upd.node.args
    if a.vararg or a.kwarg or (call is not None and any(
            isinstance(x, ast.Starred) for x in call.args)):
        raise AnalysisError('UNRECOGNISED-IDIOM %s: signature / call `%s`'
                            % (upd.where, short(call, 50)))
    params = [x.arg for x in a.posonlyargs + a.args + a.kwonlyargs]
    if len(params) < 2:
        raise AnalysisError('UNRECOGNISED-IDIOM %s: parameters' % upd.where)
    env = {}
    # how the call binds the parameters: the first one after self is the
    # update dict; constants and defaults are folded, the rest is free
    rest = params[2:]
    given = dict(zip(rest, call.args[1:])) if call is not None else {}
    for k in (call.keywords if call is not None else []):
        if k.arg is not None:
            given[k.arg] = k.value
    dflt = {}
    pos = a.posonlyargs + a.args
    for prm, dv in zip(pos[len(pos) - len(a.defaults):], a.defaults):
        dflt[prm.arg] = dv
    for prm, dv in zip(a.kwonlyargs, a.kw_defaults):
        if dv is not None:
            dflt[prm.arg] = dv
    sig = []
    for p in rest:
        if p in given:
            v = prog.fold(f.module, given[p])
        elif p in dflt and call is not None:
            v = prog.fold(upd.module, dflt[p])
        else:
            v = UNKNOWN
        env[p] = _FREE if v is UNKNOWN else _c(v)
        sig.append((p, repr(env[p])))
    env[params[1]] = _UPD
    key = (cur, tgt, tuple(sig))
    if key in cache:
        return cache[key]
    scope = _Scope(prog, upd, cur, tgt, recv=(params[0],))
    g = cfg_of(upd)
    res = ('refused',)
    unsure = None
    for kind, val, taint, unc, node in _explore(scope, g, env):
        if kind != 'write':
            continue
        if val[0] == 'c' and not unc and val[1] == cur:
            continue
        if val[0] == 'c' and not unc and not taint:
            res = ('leaves', val[1], upd.loc(node.ast))
            break
        unsure = ('unsure', '`%s` %s' % (
            short(node.ast, 50), 'is reached behind a test on the states the '
            'evaluator cannot decide' if taint else 'writes a value / an '
            'attribute the evaluator cannot determine'))
    if res[0] == 'refused' and unsure:
        res = unsure
    cache[key] = res
    return res


def r06_6(prog, rep, rid='R06.6'):
    rep.rule(rid, 'a final state is never left: every call of Task._update '
             'outside the replay of _task_state_progress is, for each final '
             'current state of the task, either excluded by the guards of the '
             'caller or refused by the guards of Task._update (the two sites '
             'together cover all of FINAL)', minimum=3)
    final = list(prog.const(STATES, 'FINAL'))
    task = prog.cls(*TASK)
    upd = prog.find_method(task, '_update')
    if upd is None:
        raise AnalysisError('anchor %s._update not found' % task.where)
    rep.saw(upd)
    sites = [(f, c) for f, c in _update_callers(prog) if not _in_replay(f, c)]
    n_sites = 0
    undecided = []
    for f, call in sites:
        rep.saw(f)
        n_sites += 1
        g = cfg_of(f)
        if id(call) not in I.stmt_node_map(g):
            raise AnalysisError('UNRECOGNISED-IDIOM %s: `%s` is not a '
                                'statement of the function itself (nested '
                                'function / lambda)' % (f.where,
                                                        short(call, 50)))
        recv = unparse(call.func.value)
        dparam = (upd.params + ['task_dict'] * 2)[1]
        cache = {}
        excluded, refused, rows = [], [], []
        for cur in final:
            scope = _Scope(prog, f, cur, None, recv=(recv,), site=call)
            scope.dparam = dparam
            env0 = {p: _FREE for p in f.params}
            reach = [x for x in _explore(scope, g, env0) if x[0] == 'call']
            if not reach:
                excluded.append(cur)
                rows.append((cur, 'excluded', None))
                continue
            sure = [x for x in reach if not x[2]]
            verdicts = []
            for kind, tg, taint, unc, node in reach:
                if tg is None:
                    continue         # the update carries no state
                if tg[0] != 'c':
                    verdicts.append((taint, ('unsure', 'the target state of '
                                             'the update is not a constant')))
                    continue
                verdicts.append((taint, _update_verdict(
                    prog, upd, f, call, cur, tg[1], cache) + (tg[1],)))
            if all(v[0] == 'refused' for t, v in verdicts):
                refused.append(cur)
                rows.append((cur, 'refused', None))
                continue
            leaves = [v for t, v in verdicts if v[0] == 'leaves' and not t]
            if leaves and sure:
                rows.append((cur, 'left', leaves[0]))
                continue
            why = [v[1] for t, v in verdicts if v[0] == 'unsure']
            undecided.append(
                'UNRECOGNISED-IDIOM %s: cannot decide whether `%s` changes '
                'the state of a %s task (%s)' % (
                    f.where, short(call, 50), cur, why[0] if why else
                    'the call is reached only behind a test on the task '
                    'state the evaluator cannot decide'))
        for cur, what, v in rows:
            if what != 'left':
                rep.ok(rid, f, '`%s` for a %s task: %s' % (
                    short(call, 40), cur, 'never called (guards of the caller)'
                    if what == 'excluded' else 'Task._update does not write '
                    'the state'), f.loc(call))
                continue
            new, wloc, tgt = v[1], v[2], v[3]
            rep.bad(rid, f, 'final-left:%s' % cur,
                    '%s calls `%s` (target state %s) also for a task that is '
                    'already %s, and Task._update then writes the state (%s): '
                    'the final state %s is replaced by %s.  The guards of the '
                    'caller exclude the current states %s, Task._update '
                    'refuses the write for %s; together they must cover all '
                    'of FINAL %s' % (
                        f.qual, short(call, 50), tgt, cur, wloc, cur, new,
                        sorted(excluded) or 'none', sorted(refused) or 'none',
                        sorted(final)),
                    f.loc(call),
                    history='a task becomes %s; then %s runs for it (for '
                    '_pilot_state_cb: the pilot the task is bound to becomes '
                    'final): Task.state changes %s -> %s and the task is '
                    'announced / published once more' % (
                        cur, f.qual, cur, new))
    if undecided:
        raise AnalysisError(undecided[0])
    if n_sites < 1:
        raise AnalysisError('R06.6: no call of Task._update outside the '
                            'replay loop found (the pilot-death callback is '
                            'expected)')


# ------------------------------------------------------------------------------
# R06.8  the dispatch of state notifications never removes callbacks
#
_REMOVERS = {'pop', 'popitem', 'clear', 'remove', 'discard', '__delitem__'}


def _registries(prog, tm):
    """attributes of the task manager in which register_callback stores the
    callback it was given"""
    f = prog.find_method(tm, 'register_callback')
    if f is None:
        raise AnalysisError('anchor %s.register_callback not found' % tm.where)
    params = [p for p in f.params if p != 'self']
    if not params:
        raise AnalysisError('UNRECOGNISED-IDIOM %s: parameters' % f.where)
    d = Deps(f.node, implicit=False)
    out = set()
    for n in walk(f.node):
        if isinstance(n, ast.Assign):
            for t in n.targets:
                if isinstance(t, ast.Subscript):
                    l = Deps.loc(t)
                    if l and l.startswith('self.') and \
                            params[0] in d.expr_depends(n.value):
                        out.add(l.split('.', 1)[1])
    if not out:
        raise AnalysisError('UNRECOGNISED-IDIOM %s: no store of `%s` into an '
                            'attribute of the task manager'
                            % (f.where, params[0]))
    return out


def _dispatch_path(prog, tm):
    """{FuncInfo: (call chain, per_record, calls)} of the methods which run
    for a batch of state notifications: _update_tasks and what it calls on
    self.  per_record: the method is (transitively) called from inside a
    loop, i.e. once per collected (task, state) record and not once per
    batch; calls: the calls in it that stay on the dispatch path"""
    root = prog.find_method(tm, '_update_tasks')
    if root is None:
        raise AnalysisError('anchor %s._update_tasks not found' % tm.where)
    out = {root: ([root.name], False, [])}
    todo = [root]
    while todo:
        f = todo.pop()
        chain, per_record, calls = out[f]
        if len(chain) > 5:
            continue
        in_loop = set()
        for n in walk(f.node, nested=True):
            if isinstance(n, (ast.For, ast.While)):
                for st in n.body:
                    in_loop |= {id(c) for c in calls_in(st, nested=True)}
            elif isinstance(n, (ast.ListComp, ast.SetComp, ast.DictComp,
                                ast.GeneratorExp)):
                in_loop |= {id(c) for c in calls_in(n, nested=True)}
        for c in calls_in(f.node, nested=True):
            if isinstance(c.func, ast.Attribute) and \
                    isinstance(c.func.value, ast.Name) and \
                    c.func.value.id == 'self':
                try:
                    callee = prog.resolve_call(f, c, tm)
                except AnalysisError:
                    callee = None
                if callee is None:
                    continue
                calls.append(c)
                pr = per_record or id(c) in in_loop
                if callee not in out or (pr and not out[callee][1]):
                    out[callee] = (chain + [callee.name], pr, [])
                    todo.append(callee)
    return out


def _registry_paths(f, regs):
    """predicate: the expression denotes the registry or a container inside
    it (not a copy), local aliases followed flow-insensitively"""
    alias = set()

    def is_path(e):
        if isinstance(e, ast.Attribute):
            return isinstance(e.value, ast.Name) and e.value.id == 'self' and \
                e.attr in regs
        if isinstance(e, ast.Name):
            return e.id in alias
        if isinstance(e, ast.Subscript):
            return is_path(e.value)
        if isinstance(e, ast.Call) and isinstance(e.func, ast.Attribute) and \
                e.func.attr in ('get', 'setdefault'):
            return is_path(e.func.value)
        if isinstance(e, ast.IfExp):
            return is_path(e.body) or is_path(e.orelse)
        if isinstance(e, ast.BoolOp):
            return any(is_path(v) for v in e.values)
        if isinstance(e, ast.NamedExpr):
            return is_path(e.value)
        return False

    def bind(t, how):
        names = set()
        if isinstance(t, ast.Name) and how in ('value', 'values'):
            names.add(t.id)
        elif isinstance(t, (ast.Tuple, ast.List)) and how == 'items' and \
                len(t.elts) == 2 and isinstance(t.elts[1], ast.Name):
            names.add(t.elts[1].id)
        return names
    while True:
        new = set()
        for n in walk(f.node, nested=True):
            if isinstance(n, ast.Assign) and is_path(n.value):
                for t in n.targets:
                    new |= bind(t, 'value')
            elif isinstance(n, ast.NamedExpr) and is_path(n.value):
                new |= bind(n.target, 'value')
            elif isinstance(n, (ast.For, ast.comprehension)):
                it = n.iter
                if isinstance(it, ast.Call) and \
                        isinstance(it.func, ast.Attribute) and \
                        it.func.attr in ('values', 'items') and \
                        is_path(it.func.value):
                    new |= bind(n.target, it.func.attr)
        if new <= alias:
            break
        alias |= new
    return is_path


def _is_empty(e):
    return (isinstance(e, ast.Constant) and e.value is None) or (
        isinstance(e, (ast.Dict, ast.List, ast.Set, ast.Tuple)) and
        not getattr(e, 'keys', None) and not getattr(e, 'elts', None)) or (
        isinstance(e, ast.Call) and isinstance(e.func, ast.Name) and
        e.func.id in ('dict', 'list', 'set', 'tuple') and not e.args and
        not e.keywords)


def _removals(f, is_path):
    """[(ast node, text)] statements / calls in f that take entries out of
    the registry"""
    out = []
    for n in walk(f.node, nested=True):
        if isinstance(n, ast.Delete):
            for t in n.targets:
                if isinstance(t, ast.Subscript) and is_path(t.value):
                    out.append((n, 'del'))
                elif isinstance(t, ast.Attribute) and is_path(t):
                    out.append((n, 'del'))
        elif isinstance(n, ast.Call) and isinstance(n.func, ast.Attribute) \
                and n.func.attr in _REMOVERS and is_path(n.func.value):
            out.append((n, n.func.attr))
        elif isinstance(n, ast.Assign):
            for t in n.targets:
                if isinstance(t, ast.Attribute) and is_path(t):
                    out.append((n, 'rebind'))         # self._callbacks = ...
                elif isinstance(t, ast.Subscript) and is_path(t.value) and \
                        _is_empty(n.value):
                    out.append((n, 'reset'))
    return out


def r06_8(prog, rep, rid='R06.8'):
    rep.rule(rid, 'callbacks registered for a task receive every (task, '
             'state) record of a batch: nothing on the dispatch path of the '
             'notifications (_update_tasks and the methods it calls) takes '
             'entries out of the callback registry', minimum=1)
    tm = prog.cls(*TMGR)
    regs = _registries(prog, tm)
    final = set(prog.const(STATES, 'FINAL'))
    n_seen = 0
    dpath = _dispatch_path(prog, tm)
    for f, (chain, per_record, dcalls) in sorted(dpath.items(),
                                                 key=lambda x: x[0].qual):
        is_path = _registry_paths(f, regs)
        touches = any(is_path(n) for n in walk(f.node, nested=True)
                      if isinstance(n, (ast.Attribute, ast.Name)))
        if not touches:
            continue
        rep.saw(f)
        n_seen += 1
        rem = _removals(f, is_path)
        if not rem:
            rep.ok(rid, f, '%s reads the callback registry (self.%s) and '
                   'removes nothing from it' % (
                       ' -> '.join(chain), ', self.'.join(sorted(regs))),
                   f.loc())
            continue
        g = cfg_of(f)
        smap = I.stmt_node_map(g)
        for n, how in rem:
            node = smap.get(id(n))
            if node is None:
                raise AnalysisError('UNRECOGNISED-IDIOM %s: `%s` is not a '
                                    'statement of the function itself'
                                    % (f.where, short(n, 50)))
            gtxt = []
            obj_final = False
            for tid, lab in guards(g, node.id):
                t = g.nodes[tid].ast
                gtxt.append(short(t, 40) if lab == 'T'
                            else 'not (%s)' % short(t, 40))
                cc = const_compare(prog, f.module, t, f.cls)
                if cc is None:
                    continue
                lhs, op, vals = cc
                holds = (op == 'in') == (lab == 'T')
                src = t.left if unparse(t.left) == lhs else t.comparators[0]
                if not (holds and vals and vals <= final):
                    continue
                o = _origin(g, src, tid)
                if o in f.params:
                    # the state that is being announced (a parameter), not
                    # the state of the task object
                    raise AnalysisError(
                        'UNRECOGNISED-IDIOM %s: `%s` removes callbacks when '
                        'the announced state `%s` is final: whether every '
                        'record was delivered before is not decided here'
                        % (f.where, short(n, 50), lhs))
                if o.rpartition('.')[2] in _STATE_ATTRS:
                    obj_final = True
            if obj_final and not per_record:
                # once per batch, for tasks that are final when the batch
                # has been applied: harmless after the records were handed
                # to the callbacks, harmful before
                if len(chain) > 1:
                    raise AnalysisError(
                        'UNRECOGNISED-IDIOM %s: `%s` removes the callbacks '
                        'of final tasks once per batch: whether they were '
                        'collected before is not decided here'
                        % (f.where, short(n, 50)))
                later = g.reachable(node.id)
                if not any(smap[id(c)].id in later for c in dcalls
                           if id(c) in smap and smap[id(c)] is not node):
                    rep.ok(rid, f, '`%s`: callbacks of final tasks are '
                           'removed after the records of the batch were '
                           'dispatched' % short(n, 40), f.loc(n))
                    continue
            rep.bad(rid, f, n,
                    '%s takes entries out of the callback registry (`%s`%s) '
                    'on the dispatch path of the state notifications (%s).  '
                    '_update_tasks applies all updates of a batch before it '
                    'dispatches the collected (task, state) records, one '
                    'call per replayed state: the state of the task object '
                    'is then already the last state of the batch, and '
                    'callbacks removed while one record is dispatched never '
                    'see the remaining records of that task (removal belongs '
                    'to unregister_callback / close)' % (
                        f.qual, short(n, 60), ', under `%s`' % ' and '.join(
                            gtxt[-2:]) if gtxt else '', ' -> '.join(chain)),
                    f.loc(n),
                    history='task.register_callback(cb); one batch moves '
                    'the task from AGENT_EXECUTING to DONE (notification '
                    'skips ahead, or [TMGR_STAGING_OUTPUT, DONE] in one '
                    'batch): cb is called for the first replayed state '
                    'only, DONE is never announced to it although '
                    'Task.state is DONE')
    if n_seen < 1:
        raise AnalysisError('R06.8: no method on the dispatch path of '
                            '_update_tasks reads the callback registry '
                            '(self.%s)' % ', self.'.join(sorted(regs)))


# ------------------------------------------------------------------------------
# R06.9  the dispatcher hands the announced state to the callbacks
#
def _record_dispatchers(prog):
    """[(dispatcher FuncInfo, task parameter, state parameter)]: the methods
    _update_tasks calls once per collected (task, state) record"""
    tm, f, g, smap, H = batch_info(prog)
    out = []
    # the records: <list>.append([task, s]) inside the replay loop over s
    recs = {}
    for c in calls_in(f.node):
        if isinstance(c.func, ast.Attribute) and c.func.attr == 'append' and \
                isinstance(c.func.value, ast.Name) and len(c.args) == 1 and \
                isinstance(c.args[0], (ast.List, ast.Tuple)) and \
                len(c.args[0].elts) == 2 and id(c) in smap:
            loops = [g.nodes[l] for l in smap[id(c)].loops
                     if g.nodes[l].kind == 'for' and l != H.id]
            for k, e in enumerate(c.args[0].elts):
                if isinstance(e, ast.Name) and any(
                        isinstance(l.ast.target, ast.Name) and
                        l.ast.target.id == e.id for l in loops):
                    recs[c.func.value.id] = k
    for n in g.nodes:
        if n.kind != 'for' or not isinstance(n.ast.iter, ast.Name) or \
                n.ast.iter.id not in recs or \
                not isinstance(n.ast.target, (ast.Tuple, ast.List)) or \
                len(n.ast.target.elts) != 2 or \
                not all(isinstance(e, ast.Name) for e in n.ast.target.elts):
            continue
        tv = [e.id for e in n.ast.target.elts]
        k = recs[n.ast.iter.id]
        for c in calls_in(n.ast):
            if not (isinstance(c.func, ast.Attribute) and
                    isinstance(c.func.value, ast.Name) and
                    c.func.value.id == 'self'):
                continue
            callee = prog.resolve_call(f, c, tm)
            if callee is None or c.keywords or \
                    sorted(unparse(a) for a in c.args) != sorted(tv):
                continue
            params = [p for p in callee.params if p != 'self']
            if len(params) != 2:
                continue
            names = [unparse(a) for a in c.args]
            out.append((callee, params[names.index(tv[1 - k])],
                        params[names.index(tv[k])]))
    return out


def r06_9(prog, rep, rid='R06.9'):
    rep.rule(rid, 'the method that dispatches one (task, state) record calls '
             'every callback with the task and the state of that record '
             '(the announced state), not with the state the task object has '
             'after the whole batch', minimum=2)
    tm = prog.cls(*TMGR)
    regs = {'self.' + r for r in _registries(prog, tm)}
    disp = _record_dispatchers(prog)
    if not disp:
        raise AnalysisError('UNRECOGNISED-IDIOM %s._update_tasks: no method '
                            'called once per collected (task, state) record'
                            % tm.where)
    n_calls = 0
    for f, p_task, p_state in disp:
        rep.saw(f)
        g = cfg_of(f)
        smap = I.stmt_node_map(g)
        d = Deps(f.node, implicit=False)
        for c in calls_in(f.node):
            if isinstance(c.func, ast.Attribute) or id(c) not in smap or \
                    not (d.expr_depends(c.func) & regs):
                continue
            node = smap[id(c)]
            n_calls += 1
            # the positional argument lists the call may be made with
            cands = None
            if not any(isinstance(a, ast.Starred) for a in c.args):
                cands = [list(c.args)]
            elif len(c.args) == 1 and isinstance(c.args[0].value, ast.Name):
                rd = reaching_defs(g, c.args[0].value.id, node.id)
                if rd and all(isinstance(v, (ast.Tuple, ast.List)) and
                              not any(isinstance(x, ast.Starred)
                                      for x in v.elts) for dn, v in rd):
                    cands = [list(v.elts) for dn, v in rd]
            if cands is None or any(len(a) < 2 for a in cands) or \
                    c.keywords and any(k.arg is None for k in c.keywords):
                raise AnalysisError('UNRECOGNISED-IDIOM %s: arguments of the '
                                    'callback call `%s`' % (f.where,
                                                            short(c, 50)))
            for args in cands:
                for pos, prm, what in ((0, p_task, 'task'),
                                       (1, p_state, 'state')):
                    o = _origin(g, args[pos], node.id)
                    same = o == prm and not reaching_defs(g, prm, node.id)
                    if not same and prm in d.expr_depends(args[pos]) | {
                            x for x in [o] if x == prm}:
                        raise AnalysisError(
                            'UNRECOGNISED-IDIOM %s: `%s` passes `%s` as %s: '
                            'computed from the parameter `%s`, equality not '
                            'decided' % (f.where, short(c, 50),
                                         short(args[pos], 30), what, prm))
                    rep.check(same, rid, f, '`%s`: the %s handed to the '
                              'callback is the parameter `%s`' % (
                                  short(c, 40), what, prm),
                              construct='dispatch:%s' % what,
                              message='%s calls the callback as `%s` with '
                              '`%s` in the place of the %s: not the %s of the '
                              'dispatched record (parameter `%s`).  '
                              '_update_tasks applies the whole batch before '
                              'it dispatches, so the task object already has '
                              'the last state of the batch: every callback '
                              'invocation of a task that moved over several '
                              'states announces that last state - the states '
                              'in between are never announced, the last one '
                              'several times' % (
                                  f.qual, short(c, 50), short(args[pos], 30),
                                  what, what, prm), loc=f.loc(c),
                              history='a notification moves a task from '
                              'AGENT_EXECUTING to DONE (intermediate states '
                              'filled in): the callback is called five times '
                              'with DONE instead of AGENT_STAGING_OUTPUT_'
                              'PENDING ... DONE')
    if n_calls < 1:
        raise AnalysisError('UNRECOGNISED-IDIOM %s: no call of a callback '
                            'taken from %s' % (disp[0][0].where,
                                               ', '.join(sorted(regs))))


# ------------------------------------------------------------------------------
#
# ------------------------------------------------------------------------------
# R06.10  every notification of a message reaches _update_tasks
#
# The subscriber callback (the method handed to register_subscriber from which
# _update_tasks is reached) is evaluated by the interpreter above on concrete
# messages: the component object is opaque (tests on its data are explored in
# both directions), methods of the class called on self are followed, and the
# batches handed to _update_tasks are recorded.  Per task, the notifications
# handed over must lead - under the documented state model - to the same
# announced states and the same last state as the notifications of the message.
#
class _SelfObj:
    """the component object: nothing is known about its data attributes"""
    def __repr__(self):
        return '<self>'

    def __deepcopy__(self, memo):
        return self


_SELF = _SelfObj()


class _BatchInterp(_Interp):
    def __init__(self, prog, cls, sink, entry, msgname, decisions):
        _Interp.__init__(self, prog, budget=60000)
        self.cls, self.sink, self.entry = cls, sink, entry
        self.msgname = msgname
        self.decisions, self.used = decisions, 0
        self.handed = []         # arguments of the calls of the sink
        self.msg_read = False    # the message was looked at
        self.tainted = False     # an unknown test was decided after that

    def decide(self):
        if self.used >= len(self.decisions):
            self.decisions.append(False)
        d = self.decisions[self.used]
        self.used += 1
        if self.msg_read:
            self.tainted = True
        return d

    def truth(self, e, fr):
        v = self.ev(e, fr)
        if isinstance(v, _Opq):
            return self.decide()
        if isinstance(v, (_Fn, _Bi, _Attr, _SelfObj)):
            self.fail(fr.f, e, 'is tested but its value is not known')
        return bool(v)

    def _e_BoolOp(self, e, fr):
        is_and = isinstance(e.op, ast.And)
        v = None
        for x in e.values:
            v = self.ev(x, fr)
            if isinstance(v, _Opq):
                v = self.decide()
            elif isinstance(v, (_Fn, _Bi, _Attr, _SelfObj)):
                self.fail(fr.f, x, 'is tested but its value is not known')
            if bool(v) != is_and:
                return v
        return v

    def _e_Name(self, e, fr):
        if fr.f is self.entry and e.id == self.msgname:
            self.msg_read = True
        return _Interp._e_Name(self, e, fr)

    def _e_Attribute(self, e, fr):
        if isinstance(e.value, ast.Name) and e.value.id in fr.env and \
                fr.env[e.value.id] is _SELF:
            return _OPQ          # a data attribute of the component
        return _Interp._e_Attribute(self, e, fr)

    def _e_Call(self, e, fr):
        import copy
        fn = e.func
        plain = not any(isinstance(a, ast.Starred) for a in e.args) and \
            not any(k.arg is None for k in e.keywords)
        if plain and isinstance(fn, ast.Attribute):
            base = self.ev(fn.value, fr)
            if base is _SELF:
                args = [self.ev(a, fr) for a in e.args]
                kw = {k.arg: self.ev(k.value, fr) for k in e.keywords}
                m = self.prog.find_method(self.cls, fn.attr)
                if m is not None and m.name == self.sink.name:
                    self.handed.append(copy.deepcopy(args + list(kw.values())))
                    return None
                if m is None:
                    if any(isinstance(a, (list, dict, set))
                           for a in args + list(kw.values())):
                        self.fail(fr.f, e, 'hands a mutable value to a callee '
                                  'that cannot be followed')
                    return _OPQ
                kind, v = self.call(m, [_SELF] + args, kw, fr.depth + 1)
                if kind == 'raise':
                    raise _RaiseX(v)
                return v
            if base is _OPQ and fn.attr == 'as_list' and len(e.args) == 1 \
                    and not e.keywords:
                # radical.utils.as_list: None -> [], a list as it is, any
                # other value -> [value]
                v = self.ev(e.args[0], fr)
                if v is None:
                    return []
                if isinstance(v, (list, tuple, set)):
                    return v
                if v is _OPQ:
                    return _OPQ
                return [v]
        return _Interp._e_Call(self, e, fr)


def _announced(prog, seq):
    """(announced states, last state) of a task that starts in the first
    state of the model and receives the notifications seq, under the
    documented model (late and duplicated ones are ignored, skipped states
    are filled in, a final state is entered directly and never left)"""
    tab, nonfinal, final = _states(prog)
    cur, out = nonfinal[0], []
    for s in seq:
        if s not in tab:
            raise AnalysisError('R06.10: `%s` is not a task state' % (s,))
        if cur in final or tab[s] <= tab[cur]:
            continue
        if s not in final:
            out += [x for x in nonfinal if tab[cur] < tab[x] < tab[s]]
        out.append(s)
        cur = s
    return out, cur


def _subscriber_entries(prog, tm, sink):
    """methods of the task manager registered as subscriber callbacks from
    which the sink is reached through calls on self"""
    def self_calls(f):
        return {c.func.attr for c in calls_in(f.node, nested=True)
                if isinstance(c.func, ast.Attribute) and
                isinstance(c.func.value, ast.Name) and
                c.func.value.id == 'self'}
    reach = {}
    for name, f in tm.methods.items():
        seen, todo = set(), [f]
        while todo:
            h = todo.pop()
            for nm in self_calls(h):
                if nm not in seen:
                    seen.add(nm)
                    m = prog.find_method(tm, nm)
                    if m is not None and m.name != sink.name:
                        todo.append(m)
        reach[name] = seen
    entries = []
    for f in tm.methods.values():
        for c in calls_in(f.node, nested=True):
            if call_name(c).endswith('register_subscriber') and \
                    len(c.args) >= 2 and \
                    isinstance(c.args[1], ast.Attribute) and \
                    unparse(c.args[1].value) == 'self':
                m = prog.find_method(tm, c.args[1].attr)
                if m is not None and sink.name in reach.get(m.name, ()) and \
                        m not in entries:
                    entries.append(m)
    direct = [f for n, f in tm.methods.items()
              if sink.name in self_calls(f) and f.name != sink.name]
    for f in direct:
        if f not in entries and not any(
                f.name in reach[e.name] for e in entries):
            raise AnalysisError('UNRECOGNISED-IDIOM %s: calls %s but is not '
                                'reached from a subscriber callback'
                                % (f.where, sink.name))
    return entries


def r06_10(prog, rep, rid='R06.10'):
    rep.rule(rid, 'the state subscriber hands every task notification of a '
             'message to _update_tasks: per task, what is handed over '
             'announces the same states as the notifications received '
             '(evaluated on concrete messages with reordered, duplicated '
             'and interleaved notifications)', minimum=2)
    tm = prog.cls(*TMGR)
    sink = prog.find_method(tm, '_update_tasks')
    if sink is None:
        raise AnalysisError('anchor %s._update_tasks not found' % tm.where)
    entries = _subscriber_entries(prog, tm, sink)
    if not entries:
        raise AnalysisError('UNRECOGNISED-IDIOM %s: no subscriber callback '
                            'reaches %s' % (tm.where, sink.name))
    tab, nonfinal, final = _states(prog)
    done = [s for s in final if s == 'DONE'] or final[:1]
    fail = [s for s in final if s == 'FAILED'] or final[-1:]
    n = len(nonfinal)
    if n < 6:
        raise AnalysisError('R06.10: state model too small')

    def note(uid, state, ty='task'):
        return {'type': ty, 'uid': uid, 'state': state}
    bulk = [note('t1', done[0]),                 # final state first ...
            note('p1', 'PMGR_ACTIVE', 'pilot'),
            note('t2', nonfinal[n // 2]),        # in order
            note('t1', nonfinal[-1]),            # ... late one last
            note('t2', nonfinal[n // 2 + 1]),
            note('t3', nonfinal[2]),
            note('t3', nonfinal[2]),             # duplicate
            note('t4', fail[0]),
            note('t4', nonfinal[-2]),
            note('t6', nonfinal[3]),             # reordered, not final
            note('t6', nonfinal[1]),
            note('t5', nonfinal[n // 2])]
    messages = [('a bulk with reordered, duplicated and interleaved '
                 'notifications', bulk),
                ('a single notification (not a list)',
                 note('t1', nonfinal[3])),
                ('a bulk of two tasks', [note('t1', nonfinal[1]),
                                         note('t2', nonfinal[2])])]

    def per_task(things):
        out = {}
        for t in things:
            if not isinstance(t, dict) or 'uid' not in t or 'state' not in t:
                return None
            if t.get('type', 'task') != 'task':
                continue
            out.setdefault(t['uid'], []).append(t['state'])
        return out

    import copy
    for f in entries:
        rep.saw(f)
        params = [p for p in f.params if p != 'self']
        if len(params) != 2:
            raise AnalysisError('UNRECOGNISED-IDIOM %s: not a (topic, msg) '
                                'subscriber callback' % f.where)
        for what, arg in messages:
            things = arg if isinstance(arg, list) else [arg]
            want = per_task(things)
            show = ' '.join('%s:%s' % (t['uid'], t['state']) for t in things)
            decisions, paths, judged, bad = [], 0, 0, False
            while True:
                paths += 1
                if paths > 64:
                    raise AnalysisError('UNRECOGNISED-IDIOM %s: more than 64 '
                                        'paths over unknown tests' % f.where)
                ip = _BatchInterp(prog, tm, sink, f, params[1], decisions)
                kind, v = ip.call(f, [_SELF, 'state_pubsub',
                                      {'cmd': 'update',
                                       'arg': copy.deepcopy(arg)}])
                gate = not ip.msg_read and not ip.handed
                if not gate:
                    if kind == 'raise':
                        raise AnalysisError(
                            'UNRECOGNISED-IDIOM %s: raises %s for the '
                            'message [%s]' % (f.where, v, show))
                    got_l = []
                    for call_args in ip.handed:
                        if len(call_args) != 1 or not isinstance(
                                call_args[0], (list, tuple)):
                            raise AnalysisError(
                                'UNRECOGNISED-IDIOM %s: what is handed to %s '
                                'is not a known list' % (f.where, sink.name))
                        got_l += list(call_args[0])
                    got = per_task(got_l)
                    if got is None:
                        raise AnalysisError(
                            'UNRECOGNISED-IDIOM %s: what is handed to %s is '
                            'not a list of notifications'
                            % (f.where, sink.name))
                    diff = []
                    for uid in sorted(want):
                        w = _announced(prog, want[uid])
                        g = _announced(prog, got.get(uid, []))
                        if w != g:
                            diff.append(
                                '%s receives [%s] of its notifications [%s]: '
                                'its last state is %s instead of %s' % (
                                    uid, ' '.join(got.get(uid, [])) or
                                    'nothing', ' '.join(want[uid]), g[1],
                                    w[1]) if g[1] != w[1] else
                                '%s receives [%s] of its notifications [%s]: '
                                'announced [%s] instead of [%s]' % (
                                    uid, ' '.join(got.get(uid, [])) or
                                    'nothing', ' '.join(want[uid]),
                                    ' '.join(g[0]), ' '.join(w[0])))
                    for uid in sorted(set(got) - set(want)):
                        diff.append('%s is handed over but was not in the '
                                    'message' % uid)
                    if diff and ip.tainted:
                        raise AnalysisError(
                            'UNRECOGNISED-IDIOM %s: notifications are dropped '
                            'depending on a test that is not decided here '
                            '(%s)' % (f.where, diff[0]))
                    judged += 1
                    if diff:
                        bad = True
                        rep.bad(rid, f, 'subscriber:batch',
                                '%s.%s does not hand all task notifications '
                                'of a message to %s (%s): %s.  _update_tasks '
                                'can only ignore late and duplicated '
                                'notifications and fill in skipped states '
                                'for the notifications it sees; nothing '
                                're-sends a dropped one, so the application '
                                'never sees the states (possibly the final '
                                'state) it carried'
                                % (tm.name, f.name, sink.name, what,
                                   '; '.join(diff[:3])), f.loc(),
                                history='one message [%s]' % show)
                        break
                # next path: flip the last unknown test decided False
                decisions = ip.decisions[:ip.used]
                while decisions and decisions[-1]:
                    decisions.pop()
                if not decisions:
                    break
                decisions[-1] = True
            if bad:
                break
            if judged == 0:
                raise AnalysisError('UNRECOGNISED-IDIOM %s: no path looks at '
                                    'the message' % f.where)
            if True:
                rep.ok(rid, f, 'per task, the notifications handed to %s '
                       'announce the same states as those of the message '
                       '(%s, %d path%s)' % (sink.name, what, judged,
                                            's' if judged > 1 else ''),
                       f.loc())


# ------------------------------------------------------------------------------
# R06.11  the batch loop treats a notification on its own merits
#
# Whether a notification reaches the progress call may depend on the
# notification, on the task object and on the component - not on what an
# earlier notification of the same batch left in a local of _update_tasks
# (a `seen` set, a "last uid", a counter).  A skip that is decided by such a
# local without looking at the state of the notification drops a notification
# which may be the more advanced one.
#
def r06_11(prog, rep, rid='R06.11'):
    rep.rule(rid, 'no test that decides whether a notification of the batch '
             'reaches _task_state_progress depends on a local that earlier '
             'notifications of the same batch have written', minimum=1)
    tm, f, g, smap, H = batch_info(prog)
    prog_calls = [c for c in calls_in(f.node)
                  if call_name(c).endswith('_task_state_progress')]
    if len(prog_calls) != 1:
        raise AnalysisError('UNRECOGNISED-IDIOM %s: _task_state_progress call'
                            % f.where)
    pn = smap[id(prog_calls[0])]
    body = g.loop_body[H.id]
    start = loop_slice(g, H.id)[0]
    tdv = set(stores_in_target(H.ast.target))
    # locals written inside the loop body: assigned, augmented, stored into
    # or changed through a mutating method
    written = set()
    for n in g.nodes:
        if n.id not in body or n.ast is None:
            continue
        if n.kind == 'for':
            written |= set(stores_in_target(n.ast.target))
            continue
        if n.kind not in ('stmt', 'test'):
            continue
        for x in walk(n.ast):
            if isinstance(x, (ast.Assign, ast.AugAssign, ast.AnnAssign)):
                tg = x.targets if isinstance(x, ast.Assign) else [x.target]
                for t in tg:
                    if isinstance(t, (ast.Subscript, ast.Attribute)):
                        r = root_name(t)
                        if isinstance(r, str):
                            written.add(r)
                    else:
                        written |= set(stores_in_target(t))
            elif isinstance(x, ast.NamedExpr):
                written |= set(stores_in_target(x.target))
            elif isinstance(x, ast.Call) and \
                    isinstance(x.func, ast.Attribute) and \
                    x.func.attr in ('append', 'extend', 'insert', 'add',
                                    'update', 'setdefault', 'appendleft',
                                    'pop', 'remove', 'discard', 'clear') and \
                    isinstance(x.func.value, ast.Name):
                written.add(x.func.value.id)
    written -= {'self'} | tdv

    def expand(e, at):
        """(names, reads the state of the notification / the task) of an
        expression after following the definitions made in this iteration"""
        names, state, todo, seen = set(), False, [(e, at)], set()
        while todo:
            x, at = todo.pop()
            for y in walk(x):
                if isinstance(y, ast.Subscript) and \
                        isinstance(y.slice, ast.Constant) and \
                        y.slice.value == 'state':
                    state = True
                if isinstance(y, ast.Attribute) and y.attr in _STATE_ATTRS:
                    state = True
                if isinstance(y, ast.Name) and (y.id, at) not in seen:
                    seen.add((y.id, at))
                    # (the name and the place where it is read)
                    names.add((y.id, at))
                    for dn, dv in reaching_defs(g, y.id, at):
                        if dn.id in body and dv is not None and \
                                len(seen) < 200:
                            todo.append((dv, dn.id))
        return names, state

    n_tests = 0
    for tid, lab in guards(g, pn.id, start=start):
        t = g.nodes[tid]
        if t.id not in body or t.ast is None:
            continue
        n_tests += 1
        names, state = expand(t.ast, tid)
        carried = sorted({
            c for c, at in names if c in written and
            any(dn.id not in body for dn, dv in reaching_defs(g, c, at))})
        if not carried:
            rep.ok(rid, f, '`%s` does not depend on earlier notifications of '
                   'the batch' % short(t.ast, 40), f.loc(t.ast))
            continue
        if state:
            raise AnalysisError(
                'UNRECOGNISED-IDIOM %s: `%s` decides on a notification by '
                'what earlier notifications of the batch left in `%s` and by '
                'its state: equivalence with the state model is not decided '
                'here' % (f.where, short(t.ast, 40), ', '.join(carried)))
        rep.bad(rid, f, 'batch:skip-by-history',
                'TaskManager._update_tasks decides with `%s` whether a '
                'notification is applied, and `%s` is written while earlier '
                'notifications of the same batch are handled; the test does '
                'not look at the state of the notification.  A bulk can carry '
                'several notifications for one task, in any order: the one '
                'that is skipped may be the more advanced one (the final '
                'state), and nothing re-sends it'
                % (short(t.ast, 50), ', '.join(carried)), f.loc(t.ast),
                history='one batch [t1:AGENT_EXECUTING_PENDING, '
                't1:AGENT_EXECUTING] or [t1:TMGR_STAGING_OUTPUT, t1:DONE]: '
                'the second notification is dropped, t1 never reaches the '
                'later state')
    if n_tests < 1:
        raise AnalysisError('UNRECOGNISED-IDIOM %s: no test guards the '
                            'progress call inside the batch loop' % f.where)


def run(prog, rep, tier):
    rep.decided = ('the state table is a linear order with shared final '
        'value and X_PENDING directly before X; Task._state is written only '
        'by __init__ (NEW) and _update; _update is called only from the '
        'replay loop and the guarded pilot-death callback; Task._update, '
        'evaluated for every (current, target) pair of state constants the '
        'way the replay calls it: DONE/FAILED are never left, a step other '
        'than +1 is refused unless the target is FAILED/CANCELED, valid steps '
        'and FAILED/CANCELED from any non-final state are applied; '
        '_task_state_progress, evaluated for every pair: two final states '
        'and requests that are no progress replay nothing, a forward request '
        'replays exactly the states between current and target plus the '
        'target and answers the target; evaluated again in two enumeration '
        'orders of all pairs within one process: every result equals the '
        'result of a first call (nothing kept between calls is handed out '
        'for another target state); the batch loop isolates raising calls '
        'per notification, skips known states, replays the list answered by '
        'the progress call (no other source, intermediate states dropped '
        'only for targets Task._update accepts from anywhere) through '
        '_update and collects exactly one callback record per applied state, '
        'delivered after the loop; nothing on the dispatch path of these '
        'records (_update_tasks and the methods it calls on self) takes '
        'entries out of the registry register_callback fills; every call of '
        'Task._update outside that replay (the pilot-death callback) is, for '
        'each final current state, either excluded by the guards of the '
        'caller or refused by Task._update (decided by evaluating both '
        'functions over the state constants); the state subscriber, '
        'evaluated on concrete messages (reordered, duplicated, interleaved '
        'notifications, a single one), hands to _update_tasks, per task, '
        'notifications that announce the same states as those received; no '
        'test in front of the progress call in the batch loop depends on a '
        'local written while earlier notifications of the batch were handled.')
    rep.undecided = ('what application callbacks do; a notification skipped '
        'inside the batch loop of _update_tasks by a test over both its state '
        'and what earlier notifications of the batch left in a local '
        '(reported as not analysable); histories of '
        '_task_state_progress calls other than the two enumeration orders '
        '(a discrepancy that only shows after three or more specific calls); '
        'removal of callbacks guarded by the announced state being final '
        '(reported as not analysable).')
    rep.assumptions = ['no other module writes Task._state through setattr '
                       'with a computed name',
                       'ru pubsub invokes _state_sub_cb once per message',
                       'R06.6: data attributes of a Task other than _state '
                       'do not encode its state; the state of a task does '
                       'not change between the guards of a caller and its '
                       'call of _update (both under the same callback)',
                       'R06.3 / R06.7: logging and profiling calls have no '
                       'effect on the values of _task_state_progress; the '
                       'module-level tables of states.py hold, when the '
                       'function is first called, the values their '
                       'definitions give']
    rep.attempt(r06_1, prog, rep)
    rep.attempt(r06_2, prog, rep)
    rep.attempt(r06_3, prog, rep)
    rep.attempt(r06_4, prog, rep)
    rep.attempt(r06_5, prog, rep)
    rep.attempt(r06_6, prog, rep)
    rep.attempt(r06_7, prog, rep)
    rep.attempt(r06_8, prog, rep)
    rep.attempt(r06_9, prog, rep)
    rep.attempt(r06_10, prog, rep)
    rep.attempt(r06_11, prog, rep)


# ------------------------------------------------------------------------------
_S = 'states.py'
_T = 'task.py'
_M = 'task_manager.py'

_GUARD = ("                    if task.state in rps.FINAL:\n"
          "                        continue\n\n")
_GTEST = "if task.state in rps.FINAL:\n                        continue"
_CALL = ("                    task._update(update)\n"
         "                    tasks.append(task.as_dict())\n")
_CALL_CHANGED = ("                    before = task.state\n"
                 "                    task._update(update)\n\n"
                 "                    if task.state != before:\n"
                 "                        tasks.append(task.as_dict())\n")
_DICT = ("                    update = {'uid'             : task.uid,\n"
         "                              'exception'       : 'RuntimeError(\"pilot died\")',\n"
         "                              'exception_detail': 'pilot %s is final' % pid,\n"
         "                              'state'           : rps.FAILED}\n\n")
_STICKY = "        if current in [rps.FAILED, rps.DONE]:"
_UPD_DEF = "    def _update(self, task_dict, reconnect=False):"
_TLOOP = ("                for task in self._tasks.values():\n\n"
          "                    # only tasks bound")

MUTATIONS = [
    dict(name='R06.1 two non-final states share a value', rules=('R06.1',), edits=[
        (_S, "        AGENT_SCHEDULING             :  8,\n        AGENT_EXECUTING_PENDING      :  9,", "        AGENT_SCHEDULING             :  8,\n        AGENT_EXECUTING_PENDING      :  8,")]),
    dict(name='R06.1 CANCELED ranks below the other finals', rules=('R06.1',), edits=[
        (_S, "        CANCELED                     : 15}\n_task_state_inv", "        CANCELED                     : 14}\n_task_state_inv")]),
    dict(name='R06.1 executing ordered before scheduling', rules=('R06.1',), edits=[
        (_S, "        AGENT_SCHEDULING_PENDING     :  7,\n        AGENT_SCHEDULING             :  8,\n        AGENT_EXECUTING_PENDING      :  9,\n        AGENT_EXECUTING              : 10,", "        AGENT_EXECUTING_PENDING      :  7,\n        AGENT_EXECUTING              :  8,\n        AGENT_SCHEDULING_PENDING     :  9,\n        AGENT_SCHEDULING             : 10,")]),
    dict(name='R06.1 pending state after its active state', rules=('R06.1',), edits=[
        (_S, "        TMGR_STAGING_INPUT_PENDING   :  3,\n        TMGR_STAGING_INPUT           :  4,", "        TMGR_STAGING_INPUT           :  3,\n        TMGR_STAGING_INPUT_PENDING   :  4,")]),
    dict(name='R06.2 cancel() sets the state directly', rules=('R06.2',), edits=[
        (_T, "        self._tmgr.cancel_tasks(self.uid)\n", "        self._tmgr.cancel_tasks(self.uid)\n        self._state = rps.CANCELED\n")]),
    dict(name='R06.2 task manager pokes the state', rules=('R06.2',), edits=[
        (_M, "                task_dict['state'] = self._tasks[uid].state\n", "                task_dict['state'] = self._tasks[uid].state\n                task._state = task_dict['state']\n")]),
    dict(name='R06.2 raw notification applied in the state callback', rules=('R06.2',), edits=[
        (_M, "        self._update_tasks(tasks)\n\n        return True\n", "        for t in tasks:\n            if t['uid'] in self._tasks:\n                self._tasks[t['uid']]._update(t)\n\n        return True\n")]),
    dict(name='R06.2 Task starts in TMGR_SCHEDULING_PENDING', rules=('R06.2',), edits=[
        (_T, "        self._state            = rps.NEW\n", "        self._state            = rps.TMGR_SCHEDULING_PENDING\n")]),
    dict(name='R06.3 only DONE is sticky', rules=('R06.3',), edits=[
        (_T, "        if current in [rps.FAILED, rps.DONE]:", "        if current in [rps.DONE]:")]),
    dict(name='R06.3 sticky test on the target', rules=('R06.3',), edits=[
        (_T, "        if current in [rps.FAILED, rps.DONE]:", "        if target in [rps.FAILED, rps.DONE]:")]),
    dict(name='R06.3 sticky test polarity flipped', rules=('R06.3',), edits=[
        (_T, "        if current in [rps.FAILED, rps.DONE]:", "        if current not in [rps.FAILED, rps.DONE]:")]),
    dict(name='R06.3 single-step test accepts any forward step', rules=('R06.3',), edits=[
        (_T, "                if s_tgt - s_cur != 1:", "                if s_tgt - s_cur < 1:")]),
    dict(name='R06.3 single-step operands reversed', rules=('R06.3',), edits=[
        (_T, "                if s_tgt - s_cur != 1:", "                if s_cur - s_tgt != 1:")]),
    dict(name='R06.3 invalid step only logged', rules=('R06.3',), edits=[
        (_T, "                    raise RuntimeError('invalid state transition %s: %s -> %s'\n                            % (self.uid, current, target))\n", "")]),
    dict(name='R06.3 single-step test skipped for agent states', rules=('R06.3',), edits=[
        (_T, "            if target not in [rps.FAILED, rps.CANCELED]:\n                s_tgt", "            if target not in [rps.FAILED, rps.CANCELED] and 'AGENT' not in target:\n                s_tgt")]),
    dict(name='R06.3 no-progress return replays the current state', rules=('R06.3',), edits=[
        (_S, "    if cur >= tgt:\n        # nothing to do, a similar or better progression happened earlier\n        return [current, []]\n\n    # dig out all intermediate states, skip current\n    passed = list()\n    for i in range(cur + 1,tgt):\n        passed.append(_task_state_inv[i])", "    if cur >= tgt:\n        # nothing to do, a similar or better progression happened earlier\n        return [current, [current]]\n\n    # dig out all intermediate states, skip current\n    passed = list()\n    for i in range(cur + 1,tgt):\n        passed.append(_task_state_inv[i])")]),
    dict(name='R06.3 equal states count as progress', rules=('R06.3',), edits=[
        (_S, "    if cur >= tgt:\n        # nothing to do, a similar or better progression happened earlier\n        return [current, []]\n\n    # dig out all intermediate states, skip current\n    passed = list()\n    for i in range(cur + 1,tgt):\n        passed.append(_task_state_inv[i])", "    if cur > tgt:\n        # nothing to do, a similar or better progression happened earlier\n        return [current, []]\n\n    # dig out all intermediate states, skip current\n    passed = list()\n    for i in range(cur + 1,tgt):\n        passed.append(_task_state_inv[i])")]),
    dict(name='R06.3 passed list starts at the current state', rules=('R06.3',), edits=[
        (_S, "    passed = list()\n    for i in range(cur + 1,tgt):\n        passed.append(_task_state_inv[i])", "    passed = list()\n    for i in range(cur,tgt):\n        passed.append(_task_state_inv[i])")]),
    dict(name='R06.4 batch aborts on a contradictory final (F16 reverted)', rules=('R06.4',), edits=[
        (_M, "                except Exception:\n                    # a contradicting or invalid update for one task must not\n                    # prevent the updates of the other tasks in this bulk\n                    self._log.exception('tmgr: invalid state update: %s', uid)\n                    continue\n", "                finally:\n                    pass\n")]),
    dict(name='R06.4 handler re-raises', rules=('R06.4',), edits=[
        (_M, "                    self._log.exception('tmgr: invalid state update: %s', uid)\n                    continue\n", "                    self._log.exception('tmgr: invalid state update: %s', uid)\n                    raise\n")]),
    dict(name='R06.4 only KeyError is caught', rules=('R06.4',), edits=[
        (_M, "                except Exception:\n                    # a contradicting", "                except KeyError:\n                    # a contradicting")],
         note='a typed handler that does not match what the callee raises'),
    dict(name='R06.5 progress arguments swapped', rules=('R06.5',), edits=[
        (_M, "                    target, passed = rps._task_state_progress(uid, current,\n                                                              target)", "                    target, passed = rps._task_state_progress(uid, target,\n                                                              current)")]),
    dict(name='R06.5 replay applies the final target in every step', rules=('R06.5',), edits=[
        (_M, "                        task_dict['state'] = s\n                        self._tasks[uid]._update(task_dict)\n", "                        self._tasks[uid]._update(task_dict)\n")]),
    dict(name='R06.5 replay announces without applying', rules=('R06.5',), edits=[
        (_M, "                        task_dict['state'] = s\n                        self._tasks[uid]._update(task_dict)\n\n                        to_notify.append([task, s])", "                        task_dict['state'] = s\n\n                        to_notify.append([task, s])")]),
    dict(name='R06.5 replay in reverse order', rules=('R06.5',), edits=[
        (_M, "                        passed = passed[-1:]\n", "                        passed = passed[::-1]\n")]),
    dict(name='R06.5 callbacks only for the last state', rules=('R06.5',), edits=[
        (_M, "                        self._tasks[uid]._update(task_dict)\n\n                        to_notify.append([task, s])", "                        self._tasks[uid]._update(task_dict)\n\n                    if passed:\n                        to_notify.append([task, passed[-1]])")],
         note='s is no longer in the record'),
    dict(name='R06.5 callbacks never delivered', rules=('R06.5',), edits=[
        (_M, "                for task, state in to_notify:\n                    self._task_cb(task, state)\n", "                pass\n"),
        (_M, "                self._bulk_cbs(set([task for task,_ in to_notify]))", "                pass")]),
    dict(name='R06.6 pilot-death callback relies on Task._update to skip final tasks (seed C06-c)', rules=('R06.6',), edits=[
        (_M, _GUARD, ""), (_M, _CALL, _CALL_CHANGED)],
         note='_update refuses only DONE and FAILED: a CANCELED task becomes FAILED'),
    dict(name='R06.6 caller guard narrowed to DONE/FAILED', rules=('R06.6',), edits=[
        (_M, _GTEST, "if task.state in [rps.DONE, rps.FAILED]:\n                        continue")]),
    dict(name='R06.6 caller guard tests the state of the pilot', rules=('R06.6',), edits=[
        (_M, _GTEST, "if state not in rps.FINAL:\n                        continue")]),
    dict(name='R06.6 caller guard through a Task property that knows two finals only', rules=('R06.6',), edits=[
        (_M, _GTEST, "if task.is_final:\n                        continue"),
        (_T, _UPD_DEF, "    @property\n    def is_final(self):\n        return self._state in [rps.DONE, rps.FAILED]\n\n" + _UPD_DEF)]),
    dict(name='R06.6 caller guard dropped, early return of _update narrowed to FAILED', rules=('R06.6',), edits=[
        (_M, _GUARD, ""), (_M, _CALL, _CALL_CHANGED),
        (_T, _STICKY, "        if current in [rps.FAILED]:")],
         note='also R06.3: a DONE task whose pilot dies becomes FAILED'),
    dict(name='R06.6 caller guard dropped, refusal in _update only for reconnects', rules=('R06.6',), edits=[
        (_M, _GUARD, ""), (_M, _CALL, _CALL_CHANGED),
        (_T, _STICKY, "        if current in rps.FINAL and reconnect:")]),
    dict(name='R06.5 intermediate states dropped for every final target (seed C06-a)', rules=('R06.5',), edits=[
        (_M, "                    if target in [rps.CANCELED, rps.FAILED]:\n                        # don't replay", "                    if target in rps.FINAL:\n                        # don't replay")]),
]

SILENT = [
    dict(name='sticky test as two comparisons', edits=[
        (_T, "        if current in [rps.FAILED, rps.DONE]:", "        if current in (rps.DONE, rps.FAILED):")]),
    dict(name='single-step test as == 1 with else', edits=[
        (_T, "                if s_tgt - s_cur != 1:\n                    self._log.error('%s: invalid state transition %s -> %s',\n                                    self.uid, current, target)\n                    raise RuntimeError('invalid state transition %s: %s -> %s'\n                            % (self.uid, current, target))\n",
             "                if s_tgt - s_cur == 1:\n                    pass\n                else:\n                    raise RuntimeError('invalid state transition %s: %s -> %s'\n                            % (self.uid, current, target))\n")]),
    dict(name='handler catches the two designed exception types', edits=[
        (_M, "                except Exception:\n                    # a contradicting", "                except (ValueError, RuntimeError):\n                    # a contradicting")]),
    dict(name='known-state skip as !=', edits=[
        (_M, "                if current == target:\n                    self._log.debug('tmgr: state known: %s', uid)\n                    continue\n", "                if current != target:\n                    pass\n                else:\n                    continue\n")]),
    dict(name='no-progress return as tuple', edits=[
        (_S, "        return [current, []]\n\n    # dig out all intermediate states, skip current\n    passed = list()\n    for i in range(cur + 1,tgt):\n        passed.append(_task_state_inv[i])", "        return current, []\n\n    # dig out all intermediate states, skip current\n    passed = list()\n    for i in range(cur + 1,tgt):\n        passed.append(_task_state_inv[i])")]),
    dict(name='progress arguments via keywords-free locals renamed', edits=[
        (_M, "                current = task.state\n                target  = task_dict['state']\n", "                current = task.state\n                target  = task_dict['state']\n                cur_s, tgt_s = current, target\n")]),
    dict(name='R06.6 site: task state hoisted into a local', edits=[
        (_M, _GUARD, "                    tstate = task.state\n                    if tstate in rps.FINAL:\n                        continue\n\n")]),
    dict(name='R06.6 site: finality hoisted into a boolean', edits=[
        (_M, _GUARD, "                    is_final = task.state in rps.FINAL\n                    if is_final:\n                        continue\n\n")]),
    dict(name='R06.6 site: the two guards merged with or', edits=[
        (_M, "                    if task.pilot != pid:\n                        continue\n\n" + _GUARD,
             "                    if task.pilot != pid or task.state in rps.FINAL:\n                        continue\n\n")]),
    dict(name='R06.6 site: guard in positive, nested form', edits=[
        (_M, _GUARD + _DICT + _CALL,
             "                    if task.state not in rps.FINAL:\n"
             "                        update = {'uid'  : task.uid,\n"
             "                                  'exception'       : 'RuntimeError(\"pilot died\")',\n"
             "                                  'exception_detail': 'pilot %s is final' % pid,\n"
             "                                  'state': rps.FAILED}\n\n"
             "                        task._update(update)\n"
             "                        tasks.append(task.as_dict())\n")]),
    dict(name='R06.6 site: guard as filter of the iterated list', edits=[
        (_M, _TLOOP, "                for task in [t for t in self._tasks.values()\n                               if t.state not in rps.FINAL]:\n\n                    # only tasks bound"),
        (_M, _GUARD, "")]),
    dict(name='R06.6 site: guard in an extracted helper method', edits=[
        (_M, _GUARD, "                    if self._is_final(task):\n                        continue\n\n"),
        (_M, "    def _pilot_state_cb(self, pilots, state=None):\n", "    def _is_final(self, task):\n        return task.state in rps.FINAL\n\n    def _pilot_state_cb(self, pilots, state=None):\n")]),
    dict(name='R06.6 site: guard through a Task property', edits=[
        (_M, _GTEST, "if task.is_final:\n                        continue"),
        (_T, _UPD_DEF, "    @property\n    def is_final(self):\n        return self._state in rps.FINAL\n\n" + _UPD_DEF)]),
    dict(name='R06.6 site: update built with dict() in the call', edits=[
        (_M, _DICT + "                    task._update(update)",
             "                    task._update(dict(uid=task.uid, state=rps.FAILED,\n"
             "                                      exception='RuntimeError(\"pilot died\")',\n"
             "                                      exception_detail='pilot %s is final' % pid))")]),
    dict(name='R06.6 sites: guard moved completely into Task._update (all of FINAL refused there)', edits=[
        (_M, _GUARD, ""), (_M, _CALL, _CALL_CHANGED),
        (_T, _STICKY, "        if current in rps.FINAL:")],
         note='the seed C06-c made sound: the callee really ignores every final task'),
    dict(name='R06.6 sites: guard moved into Task._update as a chain of ==', edits=[
        (_M, _GUARD, ""), (_M, _CALL, _CALL_CHANGED),
        (_T, _STICKY, "        if current == rps.DONE or current == rps.FAILED or \\\n           current == rps.CANCELED:")]),
    dict(name='R06.6 sites: caller excludes CANCELED, Task._update refuses DONE/FAILED', edits=[
        (_M, _GTEST, "if task.state == rps.CANCELED:\n                        continue"),
        (_M, _CALL, _CALL_CHANGED)],
         note='the two sites cover FINAL together'),
    dict(name='R06.6 callee: the state is written from the corrected target', edits=[
        (_M, _GUARD, ""), (_M, _CALL, _CALL_CHANGED),
        (_T, "            val = task_dict.get(key, None)\n", "            val = task_dict.get(key, None)\n            if key == 'state':\n                val = target\n")],
         note='for a CANCELED task target was set to current: the write keeps CANCELED'),
    dict(name='FAILED/CANCELED truncation removed (information only)', edits=[
        (_M, "                    if target in [rps.CANCELED, rps.FAILED]:\n                        # don't replay intermediate states\n                        passed = passed[-1:]\n", "")]),
]

# text fragments of the unchanged tree used by the variants below
_PROG_DEF = "def _task_state_progress(uid, current, target):\n"
_PROG_BUILD = ("    # dig out all intermediate states, skip current\n"
               "    passed = list()\n"
               "    for i in range(cur + 1,tgt):\n"
               "        passed.append(_task_state_inv[i])\n\n"
               "    # append target state to trigger notification of transition\n"
               "    passed.append(target)\n\n"
               "    return target, passed\n")
_PROG_CMP = ("    if cur >= tgt:\n"
             "        # nothing to do, a similar or better progression happened earlier\n"
             "        return [current, []]\n\n")
_PROG_FINALS = ("    if current == CANCELED:\n"
                "        if target in [DONE, FAILED, CANCELED]:\n"
                "            return [target, []]\n\n"
                "    if current in FINAL:\n"
                "        if target in FINAL:\n"
                "            raise ValueError('invalid transition for %s: %s -> %s'\n"
                "                             % (uid, current, target))\n")
_STEP = ("        if not reconnect:\n"
         "            if target not in [rps.FAILED, rps.CANCELED]:\n"
         "                s_tgt = rps._task_state_value(target)\n"
         "                s_cur = rps._task_state_value(current)\n"
         "                if s_tgt - s_cur != 1:\n"
         "                    self._log.error('%s: invalid state transition %s -> %s',\n"
         "                                    self.uid, current, target)\n"
         "                    raise RuntimeError('invalid state transition %s: %s -> %s'\n"
         "                            % (self.uid, current, target))\n")
_KEYS = ("        for key in ['state', 'stdout', 'stderr', 'exit_code', 'return_value',\n"
         "                    'endpoint_fs', 'resource_sandbox', 'session_sandbox',\n"
         "                    'pilot', 'pilot_sandbox', 'task_sandbox', 'client_sandbox',\n"
         "                    'exception', 'exception_detail', 'slots', 'partition',\n"
         "                    'ofiles']:\n\n"
         "            val = task_dict.get(key, None)\n"
         "            if val is not None:\n"
         "                setattr(self, \"_%s\" % key, val)\n")
_CB_GET = ("            # get wildcard callbacks\n"
           "            cb_dicts += self._callbacks[metric].get('*', {}).values()\n"
           "            cb_dicts += self._callbacks[metric].get(uid, {}).values()\n")
_CB_END = ("                except:\n"
           "                    self._log.exception('cb error (%s)', cb.__name__)\n")
_CB_DEF = "    def _task_cb(self, task, state):\n"
_DISPATCH = ("        if to_notify:\n"
             "            if _USE_BULK_CB:\n"
             "                self._bulk_cbs(set([task for task,_ in to_notify]))\n"
             "            else:\n"
             "                for task, state in to_notify:\n"
             "                    self._task_cb(task, state)\n")
_PROGRESS = ("                    target, passed = rps._task_state_progress(uid, current,\n"
             "                                                              target)\n\n"
             "                    if target in [rps.CANCELED, rps.FAILED]:\n"
             "                        # don't replay intermediate states\n"
             "                        passed = passed[-1:]\n")

MUTATIONS += [
    dict(name='R06.7 passed states memoised per (current value, target value) (seed C06-e)', rules=('R06.7',), edits=[
        (_S, _PROG_DEF, "_task_state_passed = dict()\n\n\n" + _PROG_DEF),
        (_S, _PROG_BUILD,
         "    passed = _task_state_passed.get((cur, tgt))\n\n"
         "    if passed is None:\n\n"
         "        passed = list()\n"
         "        for i in range(cur + 1,tgt):\n"
         "            passed.append(_task_state_inv[i])\n\n"
         "        passed.append(target)\n\n"
         "        _task_state_passed[cur, tgt] = passed\n\n"
         "    return target, list(passed)\n")],
         note='DONE, FAILED and CANCELED share the value 15: the first v -> final decides the last state of every later v -> other final'),
    dict(name='R06.7 memo by values in try / except KeyError form', rules=('R06.7',), edits=[
        (_S, _PROG_DEF, "_progress_cache = {}\n\n\n" + _PROG_DEF),
        (_S, _PROG_BUILD,
         "    try:\n"
         "        return target, _progress_cache[cur, tgt][:]\n"
         "    except KeyError:\n"
         "        pass\n\n"
         "    passed = [_task_state_inv[i] for i in range(cur + 1, tgt)] + [target]\n"
         "    _progress_cache[cur, tgt] = tuple(passed)\n\n"
         "    return target, passed\n")]),
    dict(name='R06.7 memo by values in a mutable default argument, setdefault form', rules=('R06.7',), edits=[
        (_S, _PROG_DEF, "def _task_state_progress(uid, current, target, _seen={}):\n"),
        (_S, _PROG_BUILD,
         "    passed = _seen.setdefault((cur, tgt), [_task_state_inv[i]\n"
         "                               for i in range(cur + 1, tgt)] + [target])\n\n"
         "    return target, list(passed)\n")]),
    dict(name='R06.7 last progression kept in a global and reused when the values repeat', rules=('R06.7',), edits=[
        (_S, _PROG_DEF, "_last_progress = None\n\n\n" + _PROG_DEF),
        (_S, _PROG_BUILD,
         "    global _last_progress\n"
         "    if _last_progress and _last_progress[0] == (cur, tgt):\n"
         "        return target, list(_last_progress[1])\n\n"
         "    passed = list()\n"
         "    for i in range(cur + 1,tgt):\n"
         "        passed.append(_task_state_inv[i])\n"
         "    passed.append(target)\n"
         "    _last_progress = ((cur, tgt), passed)\n\n"
         "    return target, list(passed)\n")],
         note='bulks of equal transitions: t1 14 -> DONE directly followed by t2 14 -> FAILED'),
    dict(name='R06.8 per-task callbacks dropped in _task_cb once the task is final (seed C06-f)', rules=('R06.8',), edits=[
        (_M, _CB_END, _CB_END + "\n            if task.state in rps.FINAL:\n                self._callbacks[metric].pop(uid, None)\n")],
         note='_update_tasks applied the whole batch before: task.state is the last state of the batch, not the announced one'),
    dict(name='R06.8 same clean-up through a local alias and del', rules=('R06.8',), edits=[
        (_M, _CB_GET, "            registry = self._callbacks[metric]\n"
                      "            cb_dicts += registry.get('*', {}).values()\n"
                      "            cb_dicts += registry.get(uid, {}).values()\n"),
        (_M, _CB_END, _CB_END + "\n            done = task.state in rps.FINAL\n            if done and uid in registry:\n                del registry[uid]\n")]),
    dict(name='R06.8 clean-up for final tasks in _update_tasks before the dispatch', rules=('R06.8',), edits=[
        (_M, _DISPATCH, "        for task, _ in to_notify:\n"
                        "            if task.state in rps.FINAL:\n"
                        "                self._callbacks[rpc.TASK_STATE].pop(task.uid, None)\n\n" + _DISPATCH)],
         note='the per-task callbacks are gone before any record of the batch is dispatched'),
    dict(name='R06.8 per-task callbacks are one-shot (cleared after the first dispatch)', rules=('R06.8',), edits=[
        (_M, _CB_END, _CB_END + "\n            self._callbacks[metric].get(uid, {}).clear()\n")]),
    dict(name='R06.5 FAILED / CANCELED notifications skip the progress function (seeds C06-d, C05-f)', rules=('R06.5',), edits=[
        (_M, _PROGRESS,
         "                    if target in [rps.CANCELED, rps.FAILED]:\n"
         "                        passed = [target]\n\n"
         "                    else:\n"
         "                        target, passed = rps._task_state_progress(uid, current,\n"
         "                                                                  target)\n")],
         note='the progress function is also the arbiter between contradictory finals: CANCELED then FAILED is replayed'),
    dict(name='R06.5 FAILED notifications skip the progress function (== form)', rules=('R06.5',), edits=[
        (_M, _PROGRESS,
         "                    target, passed = rps._task_state_progress(uid, current,\n"
         "                                                              target)\n\n"
         "                    if target == rps.CANCELED:\n"
         "                        passed = passed[-1:]\n\n"
         "                    if task_dict['state'] == rps.FAILED:\n"
         "                        passed = [rps.FAILED]\n")]),
    dict(name='R06.3 final correction announced: CANCELED -> DONE/FAILED replays the target (seed C06-b)', rules=('R06.3',), edits=[
        (_S, "        if target in [DONE, FAILED, CANCELED]:\n            return [target, []]\n\n    if current in FINAL:\n",
             "        if target == CANCELED:\n            return [target, []]\n        if target in [DONE, FAILED]:\n            return [target, [target]]\n\n    if current in FINAL:\n")]),
    dict(name='R06.3 merged final guard raises only for DONE (FAILED -> final falls through)', rules=('R06.3',), edits=[
        (_S, _PROG_FINALS,
         "    if current in FINAL and target in FINAL:\n"
         "        if current == DONE:\n"
         "            raise ValueError('invalid transition for %s: %s -> %s'\n"
         "                             % (uid, current, target))\n"
         "        if current == CANCELED:\n"
         "            return [target, []]\n"),
        (_S, _PROG_CMP + _PROG_BUILD, _PROG_CMP.replace('cur >= tgt', 'cur > tgt') + _PROG_BUILD)],
         note='only visible together: FAILED -> DONE reaches the comparison, 15 > 15 is false, DONE is replayed'),
    dict(name='R06.3 flag form of the single-step test forgets the reconnect negation', rules=('R06.3',), edits=[
        (_T, _STEP,
         "        check = reconnect and target not in [rps.FAILED, rps.CANCELED]\n"
         "        if check and rps._task_state_value(target) \\\n"
         "                   - rps._task_state_value(current) != 1:\n"
         "            raise RuntimeError('invalid state transition %s: %s -> %s'\n"
         "                               % (self.uid, current, target))\n")]),
]

SILENT += [
    dict(name='contradictory finals dropped silently instead of raising', edits=[
        (_S, "    if current in FINAL:\n        if target in FINAL:\n            raise ValueError('invalid transition for %s: %s -> %s'\n                             % (uid, current, target))\n\n    cur = _task_state_values[current]", "    cur = _task_state_values[current]")],
         note='was a mutant of the shape-based R06.3; evaluated: DONE -> FAILED replays nothing either way (15 >= 15), which is what the property asks for'),
    dict(name='R06.3 progress: final guards merged, comprehension, mirrored comparison (seed C06-r6)', edits=[
        (_S, _PROG_FINALS,
         "    if current in FINAL and target in FINAL:\n\n"
         "        if current != CANCELED:\n"
         "            raise ValueError('invalid transition for %s: %s -> %s'\n"
         "                             % (uid, current, target))\n\n"
         "        return [target, []]\n"),
        (_S, _PROG_CMP + _PROG_BUILD, _PROG_CMP.replace('cur >= tgt', 'tgt <= cur') +
         "    passed = [_task_state_inv[val] for val in range(cur + 1, tgt)] + [target]\n\n"
         "    return target, passed\n")]),
    dict(name='R06.3 _update: single-step test as flag + one condition, cached attributes (seed C06-r6)', edits=[
        (_T, _STEP,
         "        check = not reconnect and target not in [rps.FAILED, rps.CANCELED]\n\n"
         "        if check and rps._task_state_value(target) \\\n"
         "                   - rps._task_state_value(current) != 1:\n"
         "            self._log.error('%s: invalid state transition %s -> %s',\n"
         "                            self.uid, current, target)\n"
         "            raise RuntimeError('invalid state transition %s: %s -> %s'\n"
         "                               % (self.uid, current, target))\n")]),
    dict(name='R06.3 _update: key list as class attribute, early-continue loop, concatenated name (seed C06-r6)', edits=[
        (_T, _UPD_DEF, "    _update_keys = ['state', 'stdout', 'stderr', 'exit_code', 'return_value',\n"
                       "                    'endpoint_fs', 'resource_sandbox', 'session_sandbox',\n"
                       "                    'pilot', 'pilot_sandbox', 'task_sandbox', 'client_sandbox',\n"
                       "                    'exception', 'exception_detail', 'slots', 'partition',\n"
                       "                    'ofiles']\n\n" + _UPD_DEF),
        (_T, _KEYS,
         "        for key in self._update_keys:\n\n"
         "            val = task_dict.get(key)\n"
         "            if val is None:\n"
         "                continue\n\n"
         "            setattr(self, '_' + key, val)\n")]),
    dict(name='R06.3 progress: while loop and extend instead of for / append', edits=[
        (_S, _PROG_BUILD,
         "    passed = []\n"
         "    val = cur + 1\n"
         "    while val < tgt:\n"
         "        passed += [_task_state_inv[val]]\n"
         "        val += 1\n"
         "    passed.extend([target])\n\n"
         "    return (target, passed)\n")]),
    dict(name='R06.7 memo keyed by the state names, copy handed out', edits=[
        (_S, _PROG_DEF, "_task_state_passed = dict()\n\n\n" + _PROG_DEF),
        (_S, _PROG_BUILD,
         "    passed = _task_state_passed.get((current, target))\n\n"
         "    if passed is None:\n\n"
         "        passed = list()\n"
         "        for i in range(cur + 1,tgt):\n"
         "            passed.append(_task_state_inv[i])\n\n"
         "        passed.append(target)\n\n"
         "        _task_state_passed[current, target] = passed\n\n"
         "    return target, list(passed)\n")],
         note='the key determines the target state: the result is a function of the arguments'),
    dict(name='R06.7 intermediate states memoised per value pair, target appended after the lookup', edits=[
        (_S, _PROG_DEF, "_task_states_between = dict()\n\n\n" + _PROG_DEF),
        (_S, _PROG_BUILD,
         "    key = (cur, tgt)\n"
         "    if key not in _task_states_between:\n"
         "        _task_states_between[key] = [_task_state_inv[i]\n"
         "                                     for i in range(cur + 1, tgt)]\n\n"
         "    return target, _task_states_between[key] + [target]\n")],
         note='what is kept depends on the two values only'),
    dict(name='R06.7 inverse table built lazily through a global', edits=[
        (_S, _PROG_DEF, "_inv_lazy = None\n\n\n" + _PROG_DEF),
        (_S, _PROG_BUILD,
         "    global _inv_lazy\n"
         "    if _inv_lazy is None:\n"
         "        _inv_lazy = {v: k for k, v in _task_state_values.items()\n"
         "                     if k not in FINAL}\n\n"
         "    passed = list()\n"
         "    for i in range(cur + 1,tgt):\n"
         "        passed.append(_inv_lazy[i])\n"
         "    passed.append(target)\n\n"
         "    return target, passed\n")],
         note='module-level state is written, but what is kept does not depend on the arguments'),
    dict(name='R06.8 site: registry slot cached in a local, early-continue in the loop', edits=[
        (_M, _CB_GET, "            registry = self._callbacks[metric]\n"
                      "            cb_dicts += registry.get('*', {}).values()\n"
                      "            cb_dicts += registry.get(uid, {}).values()\n")]),
    dict(name='R06.8 site: callback list built by a comprehension over both slots', edits=[
        (_M, "            cb_dicts = list()\n            metric   = rpc.TASK_STATE\n\n" + _CB_GET,
             "            metric   = rpc.TASK_STATE\n"
             "            cb_dicts = [cbd for key in ('*', uid)\n"
             "                            for cbd in self._callbacks[metric].get(key, {}).values()]\n")]),
    dict(name='R06.8 site: lookup extracted into a helper method', edits=[
        (_M, _CB_GET, "            cb_dicts = self._state_cbs(metric, uid)\n"),
        (_M, _CB_DEF, "    def _state_cbs(self, metric, uid):\n"
                      "        slot = self._callbacks[metric]\n"
                      "        return list(slot.get('*', {}).values()) + \\\n"
                      "               list(slot.get(uid, {}).values())\n\n" + _CB_DEF)]),
    dict(name='R06.8 clean-up for final tasks in _update_tasks after the dispatch', edits=[
        (_M, _DISPATCH, _DISPATCH + "\n        for task, _ in to_notify:\n"
                                    "            if task.state in rps.FINAL:\n"
                                    "                self._callbacks[rpc.TASK_STATE].pop(task.uid, None)\n")],
         note='changes behaviour (a later unregister_callback finds nothing), not the property: every record of a final task was dispatched before'),
    dict(name='R06.5 site: replayed list initialised before the try, copied after the progress call', edits=[
        (_M, "                try:\n                    target, passed = rps._task_state_progress",
             "                passed = []\n                try:\n                    target, passed = rps._task_state_progress"),
        (_M, "                        passed = passed[-1:]\n", "                        passed = passed[-1:]\n\n                    passed = list(passed)\n")]),
    dict(name='R06.5 site: truncation in else-less positive form with renamed result', edits=[
        (_M, _PROGRESS,
         "                    reached, passed = rps._task_state_progress(uid, current,\n"
         "                                                               target)\n\n"
         "                    if reached == rps.CANCELED or reached == rps.FAILED:\n"
         "                        passed = passed[len(passed) - 1:]\n")],
         note='passed[len(passed) - 1:] == passed[-1:] for a non-empty list, [] for an empty one'),
]

_HANDLER = ("                    self._log.exception('tmgr: invalid state update: %s', uid)\n"
            "                    continue\n")
_CB_CALLS = ("                    if cb_data: cb(task, state, cb_data)\n"
             "                    else      : cb(task, state)\n")

MUTATIONS += [
    dict(name='R06.4 handler ends the loop over the notifications (seed C06-g4)', rules=('R06.4',), edits=[
        (_M, _HANDLER, _HANDLER.replace('continue', 'break'))]),
    dict(name='R06.4 handler returns from _update_tasks', rules=('R06.4',), edits=[
        (_M, _HANDLER, _HANDLER.replace('continue', 'return'))],
         note='also the callbacks collected so far are lost'),
    dict(name='R06.9 callbacks without cb_data get task.state (seed C06-g5)', rules=('R06.9',), edits=[
        (_M, _CB_CALLS, _CB_CALLS.replace('cb(task, state)', 'cb(task, task.state)'))]),
    dict(name='R06.9 the state handed to the callbacks is read from the task object first', rules=('R06.9',), edits=[
        (_M, _CB_CALLS, "                    now = task.state\n"
                        "                    if cb_data: cb(task, now, cb_data)\n"
                        "                    else      : cb(task, now)\n")]),
    dict(name='R06.9 argument tuple form with the task state', rules=('R06.9',), edits=[
        (_M, _CB_CALLS, "                    if cb_data: args = (task, task.state, cb_data)\n"
                        "                    else      : args = (task, state)\n"
                        "                    cb(*args)\n")]),
]

SILENT += [
    dict(name='R06.4 site: try / except / else, handler falls through to the next notification', edits=[
        (_M, _HANDLER + "\n                task_dict['state'] = self._tasks[uid].state\n"
                        "                ru.dict_merge(self._task_info[uid], task_dict, ru.OVERWRITE)\n",
             _HANDLER.replace("                    continue\n", "") +
             "\n                else:\n"
             "                    task_dict['state'] = self._tasks[uid].state\n"
             "                    ru.dict_merge(self._task_info[uid], task_dict, ru.OVERWRITE)\n")]),
    dict(name='R06.4 / R06.5 site: replay extracted into a local function (seed C06-r8)', edits=[
        (_M, "        to_notify = list()\n\n        with self._tasks_lock:\n",
             "        to_notify = list()\n\n"
             "        def replay(task, current, task_dict):\n"
             "            target, passed = rps._task_state_progress(task_dict['uid'], current,\n"
             "                                                      task_dict['state'])\n\n"
             "            if target in [rps.CANCELED, rps.FAILED]:\n"
             "                passed = passed[-1:]\n\n"
             "            for s in passed:\n"
             "                task_dict['state'] = s\n"
             "                task._update(task_dict)\n"
             "                to_notify.append([task, s])\n\n"
             "        with self._tasks_lock:\n"),
        (_M, _PROGRESS + "\n                    for s in passed:\n\n"
                         "                        task_dict['state'] = s\n"
                         "                        self._tasks[uid]._update(task_dict)\n\n"
                         "                        to_notify.append([task, s])\n",
             "                    replay(task, current, task_dict)\n")]),
    dict(name='R06.9 site: argument tuple chosen on cb_data, one call', edits=[
        (_M, _CB_CALLS, "                    if cb_data: args = (task, state, cb_data)\n"
                        "                    else      : args = (task, state)\n"
                        "                    cb(*args)\n")]),
    dict(name='R06.9 site: announced state through a renamed local', edits=[
        (_M, _CB_CALLS, "                    announced = state\n"
                        "                    if cb_data: cb(task, announced, cb_data)\n"
                        "                    else      : cb(task, announced)\n")]),
    dict(name='R06.9 site: callback and its data unpacked in the loop header', edits=[
        (_M, "            for cb_dict in cb_dicts:\n\n                cb      = cb_dict['cb']\n                cb_data = cb_dict['cb_data']\n",
             "            for cb, cb_data in [(x['cb'], x['cb_data']) for x in cb_dicts]:\n")]),
]

# round 6: the subscriber hands the whole message to _update_tasks (R06.10)
_SUB_CALL = "        self._update_tasks(tasks)\n\n        return True\n"
_SUB_FILT = ("        tasks  = [thing for thing in things "
             "if thing.get('type') == 'task']\n")
_SUB_DEF = "    def _state_sub_cb(self, topic, msg):\n"
_SUB_CMD = ("        if cmd != 'update':\n"
            "            self._log.debug('ignore state cb msg with cmd %s', cmd)\n"
            "            return True\n\n"
            "        things = ru.as_list(arg)\n" + _SUB_FILT + "\n" + _SUB_CALL)

MUTATIONS += [
    dict(name='R06.10 only the last update per task of a bulk is handed on (seed C06-i4)', rules=('R06.10',), edits=[
        (_M, _SUB_CALL, "        latest = {task['uid']: task for task in tasks}\n\n"
                        "        self._update_tasks(list(latest.values()))\n\n"
                        "        return True\n")],
         note='a reordered bulk: the late notification wins, the final state is dropped'),
    dict(name='R06.10 last update per task, collected in a loop', rules=('R06.10',), edits=[
        (_M, _SUB_CALL, "        latest = dict()\n"
                        "        for task in tasks:\n"
                        "            latest[task['uid']] = task\n\n"
                        "        self._update_tasks([latest[uid] for uid in latest])\n\n"
                        "        return True\n")]),
    dict(name='R06.10 only the first update per task of a bulk is handed on', rules=('R06.10',), edits=[
        (_M, _SUB_CALL, "        seen, first = set(), list()\n"
                        "        for task in tasks:\n"
                        "            if task['uid'] in seen:\n"
                        "                continue\n"
                        "            seen.add(task['uid'])\n"
                        "            first.append(task)\n\n"
                        "        self._update_tasks(first)\n\n"
                        "        return True\n")],
         note='an in-order bulk [t2:AGENT_EXECUTING_PENDING t2:AGENT_EXECUTING] loses the second state'),
    dict(name='R06.10 most advanced update per task, states compared as strings', rules=('R06.10',), edits=[
        (_M, _SUB_CALL, "        best = dict()\n"
                        "        for task in tasks:\n"
                        "            uid = task['uid']\n"
                        "            if uid not in best or task['state'] > best[uid]['state']:\n"
                        "                best[uid] = task\n\n"
                        "        self._update_tasks(list(best.values()))\n\n"
                        "        return True\n")],
         note='"DONE" < "TMGR_STAGING_OUTPUT" as strings'),
    dict(name='R06.10 the first notification of a bulk is skipped', rules=('R06.10',), edits=[
        (_M, _SUB_CALL, "        self._update_tasks(tasks[1:])\n\n        return True\n")]),
    dict(name='R06.10 only the last notification of a bulk is handed on', rules=('R06.10',), edits=[
        (_M, _SUB_CALL, "        self._update_tasks(tasks[-1:])\n\n        return True\n")]),
    dict(name='R06.10 final-state notifications filtered out of the bulk', rules=('R06.10',), edits=[
        (_M, _SUB_FILT, "        tasks  = [thing for thing in things if thing.get('type') == 'task'\n"
                        "                                           and thing['state'] not in rps.FINAL]\n")]),
    dict(name='R06.10 fast path hands single notifications on, bulks of one task collapsed', rules=('R06.10',), edits=[
        (_M, _SUB_CALL, "        if len(tasks) > 1:\n"
                        "            tasks = list({t['uid']: t for t in tasks}.values())\n\n"
                        + _SUB_CALL)]),
]

SILENT += [
    dict(name='R06.10 site: filter as loop with early continue', edits=[
        (_M, _SUB_FILT, "        tasks = list()\n"
                        "        for thing in things:\n"
                        "            if thing.get('type') != 'task':\n"
                        "                continue\n"
                        "            tasks.append(thing)\n")]),
    dict(name='R06.10 site: filter inlined into the call, renamed locals, copy', edits=[
        (_M, _SUB_FILT + "\n" + _SUB_CALL,
             "        self._update_tasks(list(t for t in things if t.get('type') == 'task'))\n\n"
             "        return True\n")]),
    dict(name='R06.10 site: filter in an extracted helper method', edits=[
        (_M, _SUB_FILT, "        tasks  = self._task_things(things)\n"),
        (_M, _SUB_DEF, "    def _task_things(self, things):\n"
                       "        return [thing for thing in things if thing.get('type') == 'task']\n\n"
                       + _SUB_DEF)]),
    dict(name='R06.10 site: nothing handed on for a message without task notifications', edits=[
        (_M, _SUB_CALL, "        if not tasks:\n            return True\n\n" + _SUB_CALL)]),
    dict(name='R06.10 site: command test in positive, nested form', edits=[
        (_M, _SUB_CMD,
             "        if cmd == 'update':\n"
             "            things = ru.as_list(arg)\n"
             "            tasks  = [thing for thing in things if thing.get('type') == 'task']\n"
             "            self._update_tasks(tasks)\n"
             "        else:\n"
             "            self._log.debug('ignore state cb msg with cmd %s', cmd)\n\n"
             "        return True\n")]),
    dict(name='R06.10 site: one call of _update_tasks per notification, in order', edits=[
        (_M, _SUB_CALL, "        for task in tasks:\n            self._update_tasks([task])\n\n        return True\n")]),
]

# round 6: further variants of the round-6 kinds of slip at sibling sites
_TN = "        to_notify = list()\n\n        with self._tasks_lock:\n"
MUTATIONS += [
    dict(name='R06.5 current state cached per task over the batch (stale for the second notification)', rules=('R06.5',), edits=[
        (_M, _TN, "        to_notify = list()\n        states    = dict()\n\n        with self._tasks_lock:\n"),
        (_M, "                current = task.state\n                target  = task_dict['state']\n",
             "                current = states.setdefault(uid, task.state)\n                target  = task_dict['state']\n")],
         note='[t1:A t1:B] in one bulk: the states up to A are replayed and announced twice'),
    dict(name='R06.5 callback records kept per task (clean-up: one record per task)', rules=('R06.5',), edits=[
        (_M, _TN, "        to_notify = dict()\n\n        with self._tasks_lock:\n"),
        (_M, "                        to_notify.append([task, s])\n", "                        to_notify[task] = s\n"),
        (_M, "                for task, state in to_notify:\n", "                for task, state in to_notify.items():\n"),
        (_M, "set([task for task,_ in to_notify])", "set(to_notify)")],
         note='a skip over N states announces only the last one'),
    dict(name='R06.4 replay step retried, the retry handler is narrower than what _update raises', rules=('R06.4',), edits=[
        (_M, "                        task_dict['state'] = s\n                        self._tasks[uid]._update(task_dict)\n\n                        to_notify.append([task, s])\n",
             "                        task_dict['state'] = s\n                        for attempt in range(2):\n                            to_notify.append([task, s])\n                            try:\n                                self._tasks[uid]._update(task_dict)\n                                break\n                            except KeyError:\n                                pass\n")]),
]

# round 6: the same coalescing slip inside _update_tasks (R06.11)
_UID = ("                uid = task_dict['uid']\n\n"
        "                # we don't care about tasks we don't know\n")
MUTATIONS += [
    dict(name='R06.11 one update per task and batch: uids seen are skipped in the batch loop', rules=('R06.11',), edits=[
        (_M, _TN, "        to_notify = list()\n        seen      = set()\n\n        with self._tasks_lock:\n"),
        (_M, _UID, "                uid = task_dict['uid']\n\n"
                   "                if uid in seen:\n"
                   "                    continue\n"
                   "                seen.add(uid)\n\n"
                   "                # we don't care about tasks we don't know\n")]),
    dict(name='R06.11 consecutive notifications for the same task are skipped', rules=('R06.11',), edits=[
        (_M, _TN, "        to_notify = list()\n        last      = None\n\n        with self._tasks_lock:\n"),
        (_M, _UID, "                uid = task_dict['uid']\n\n"
                   "                same = (uid == last)\n"
                   "                last = uid\n"
                   "                if same:\n"
                   "                    continue\n\n"
                   "                # we don't care about tasks we don't know\n")]),
    dict(name='R06.11 tasks updated in this batch are remembered in a dict and not updated again', rules=('R06.11',), edits=[
        (_M, _TN, "        to_notify = list()\n        updated   = dict()\n\n        with self._tasks_lock:\n"),
        (_M, "                if not task:\n", "                if not task or updated.get(uid):\n"),
        (_M, "                current = task.state\n                target  = task_dict['state']\n",
             "                updated[uid] = True\n                current = task.state\n                target  = task_dict['state']\n")]),
]

SILENT += [
    dict(name='R06.11 site: uids logged once per batch (a seen-set that only guards a log line)', edits=[
        (_M, _TN, "        to_notify = list()\n        logged    = set()\n\n        with self._tasks_lock:\n"),
        (_M, _UID, "                uid = task_dict['uid']\n\n"
                   "                if uid not in logged:\n"
                   "                    self._log.debug('tmgr: first update in bulk: %s', uid)\n"
                   "                    logged.add(uid)\n\n"
                   "                # we don't care about tasks we don't know\n")]),
    dict(name='R06.11 site: notifications counted per batch', edits=[
        (_M, _TN, "        to_notify = list()\n        n_seen    = 0\n\n        with self._tasks_lock:\n"),
        (_M, _UID, "                uid = task_dict['uid']\n                n_seen += 1\n\n"
                   "                # we don't care about tasks we don't know\n")]),
    dict(name='R06.11 site: task object pre-initialised before the loop, unknown-task test on the local', edits=[
        (_M, _TN, "        to_notify = list()\n        task      = None\n\n        with self._tasks_lock:\n"),
        (_M, "                if not task:\n", "                if task is None:\n")]),
]
