"""C09  Launch commands enact the placement they were given  (DESIGN 5 / C09)

R09.1  purity: the query methods of a launcher do not write an attribute of
       the launcher object that flows back into a command
R09.2  the command (returned string and every host/rank/resource file written
       on the way) depends on the node names / indices of the placement
R09.3  a launcher whose command does not count the ranks refuses multi-rank
       tasks (in can_launch, or by raising in get_launch_cmds)
R09.4  interface: five methods per factory class, can_launch returns a pair on
       every path, find_launcher asks the launchers in the configured order and
       stops at the first that accepts, _prepare_launch_methods keeps order and
       launcher table consistent
R09.5  node collections derived from the slots (node counts, node lists) name
       every node once whatever the order of the slots
R09.6  a launcher which names no node accepts a task only after an exact
       comparison of the slot's node name with the local node name(s)
R09.7  launcher selection is history independent: nothing reachable from
       find_launcher / get_launcher changes the launch order, the launcher
       table, or an object they alias
R09.8  the number of ranks a command asks for is the number of slots / ranks,
       never an average of ranks over nodes or a number of distinct nodes; a
       constant rank count goes with a host list which has one entry per rank;
       a total rank count goes with a host file which carries the ranks per
       node (or with another value of the command which does)
R09.9  the element of the can_launch answer which find_launcher reads as the
       verdict is the element the launchers put the verdict in (by position)
R09.10 files written for a command are opened in a truncating mode
R09.11 a cursor which hands out rank ids advances by the number of ids used;
       the number of ids per iteration is a count of the slot the iteration
       is at, not of a fixed slot of the list
R09.12 argument binding: calls of helpers which write a file for the command
       (ru.create_hostfile by TRUSTED_SIGNATURES, the launcher's own helpers
       by their definition) bind, text parameters get no non-string constant,
       the host / slot list parameter gets a value derived from the slots
R09.13 a constant compared with a case-folded string lies in the image of the
       folding (flavour / variant detection can succeed)
R09.14 an aggregate over the slots is rendered into the command behind the
       loop which fills it, not appended in every iteration
R09.15 a value read with .get() and derived when unset is derived when the
       option is absent (the default does not pre-empt the derivation)
R09.16 path-wise form of R09.2: within one configuration of a launcher the
       node identity reaches the command (or its file) on every path of
       get_launch_cmds if it does on some, unless the task has no placement
R09.17 path-wise form of R09.8 b: a list whose length feeds a rank count
       option has one entry per rank under EVERY definition which reaches the
       len() (no branch re-binds it to a per-node / de-duplicated collection)
"""

import ast
import re
import operator

from ..model import (walk, dotted, call_name, kwarg, unparse, short, UNKNOWN,
                     root_name, AnalysisError, calls_in, stores_in_target)
from ..cfg import cfg_of
from ..flow import Deps, guards, must_pass, reaching_defs
from .. import idioms as I

LM_REL  = 'agent/launch_method/base.py'
LM_BASE = (LM_REL, 'LaunchMethod')
RM      = ('agent/resource_manager/base.py', 'ResourceManager')
QUERY   = ('get_launch_cmds', 'get_rank_cmd', 'get_exec', 'can_launch',
           'get_launcher_env')

PLACE_KEYS = ('node_name', 'node_index')

# launchers whose get_launch_cmds is not what starts the ranks (DESIGN C09
# exceptions table): the Dragon executor (agent/executing/dragon.py) only
# builds the exec script and hands it to the dragon runtime; it never calls
# get_launch_cmds.
DELEGATING = {'Dragon': 'ranks are started by the dragon runtime of the Dragon '
                        'executor, which never calls get_launch_cmds'}

# functions writing a file which the command refers to
FILE_WRITERS = {'ru.create_hostfile', 'ru.write_json'}

ORDER_BREAKERS = {'sorted', 'reversed', 'set', 'frozenset'}
ORDER_KEEPERS  = {'list', 'tuple', 'iter'}


# ------------------------------------------------------------------------------
# factory table
#
def factory(prog):
    """[(LM name, ClassInfo)] of the `impl` dict in LaunchMethod.create"""
    f  = prog.method(LM_BASE[0], LM_BASE[1], 'create')
    li = f.module.local_imports(f.node)
    table = None
    for n in walk(f.node):
        if isinstance(n, ast.Assign) and isinstance(n.value, ast.Dict) and \
                n.value.values and all(isinstance(v, ast.Name)
                                       for v in n.value.values):
            table = n.value
    if table is None:
        raise AnalysisError('UNRECOGNISED-IDIOM %s: no {NAME: Class} dict '
                            'literal found' % f.where)
    out = []
    for k, v in zip(table.keys, table.values):
        name = prog.fold(f.module, k)
        r = prog.resolve(f.module, v, li)
        if not r or r[0] != 'class' or name is UNKNOWN:
            raise AnalysisError('factory row %s: %s of %s does not resolve to '
                                'a class of the package' % (unparse(k),
                                                            unparse(v), f.where))
        out.append((name, r[1]))
    return f, out


def factory_classes(prog):
    f, rows = factory(prog)
    out = []
    for name, c in rows:
        if c not in out:
            out.append(c)
    return out


# ------------------------------------------------------------------------------
# helpers
#
def const_key(n):
    """'k' for x['k'] (load or store) and x.get('k', ..); else None"""
    if isinstance(n, ast.Subscript) and isinstance(n.slice, ast.Constant) and \
            isinstance(n.slice.value, str):
        return n.slice.value
    if isinstance(n, ast.Call) and isinstance(n.func, ast.Attribute) and \
            n.func.attr == 'get' and n.args and \
            isinstance(n.args[0], ast.Constant) and \
            isinstance(n.args[0].value, str):
        return n.args[0].value
    # Slot / TaskDescription are TypedDicts: slot.node_name == slot['node_name']
    # (self.node_name is the launcher's own host name, not a slot's)
    if isinstance(n, ast.Attribute) and n.attr in ATTR_KEYS and \
            not (isinstance(n.value, ast.Name) and n.value.id == 'self'):
        return n.attr
    return None


ATTR_KEYS = ('slots', 'ranks', 'node_name', 'node_index')


def key_base(n):
    return n.func.value if isinstance(n, ast.Call) else n.value


def has_key_below(expr, key):
    """the access chain of expr passes a constant key `key`"""
    e = expr
    while True:
        if const_key(e) == key:
            return True
        if isinstance(e, (ast.Subscript, ast.Attribute, ast.Starred)):
            e = e.value
        elif isinstance(e, ast.Call) and isinstance(e.func, ast.Attribute):
            e = e.func.value
        else:
            return False


def chain_root(expr):
    """root name of an access chain which may contain .get() calls"""
    e = expr
    while True:
        if isinstance(e, (ast.Subscript, ast.Attribute, ast.Starred)):
            e = e.value
        elif isinstance(e, ast.Call) and isinstance(e.func, ast.Attribute):
            e = e.func.value
        else:
            break
    return e.id if isinstance(e, ast.Name) else None


def is_static(f):
    return any(dotted(d) == 'staticmethod' for d in f.node.decorator_list)


def reach(prog, K, entries):
    """methods of K's MRO reachable from the entry methods through resolved
    calls: {where: FuncInfo}, plus [(caller, call, callee)]"""
    mro = prog.mro(K)
    out, edges = {}, []
    todo = []
    for n in entries:
        f = prog.find_method(K, n)
        if f is not None:
            todo.append(f)
    while todo:
        f = todo.pop()
        if f.where in out:
            continue
        out[f.where] = f
        for c in calls_in(f.node, nested=True):
            g = prog.resolve_call(f, c, K)
            if g is None or g.cls is None or g.cls not in mro:
                continue
            if g.name == '__init__':
                continue
            edges.append((f, c, g))
            todo.append(g)
    return out, edges


class PDeps(Deps):
    """Deps whose reads carry pseudo locations for the placement:
    '@slots' (the slot list is read), '@place:<root>' / '@place!' (a node
    name / index is read below <root> / directly below the slot list),
    '@ranks', '@len:<root>'; for-targets additionally depend on
    '@iter:<root>' (one item per element)"""

    def reads(self, expr):
        out = Deps.reads(self, expr)
        for n in walk(expr, nested=True):
            k = const_key(n)
            if k == 'slots':
                out.add('@slots')
            elif k == 'ranks':
                out.add('@ranks')
            elif k in PLACE_KEYS:
                b = key_base(n)
                if has_key_below(b, 'slots'):
                    out.add('@place!')
                else:
                    r = chain_root(b)
                    if r:
                        out.add('@place:' + r)
            if isinstance(n, ast.Call):
                dn = dotted(n.func)
                if dn:
                    out.add('ret:' + dn)
                if dn in ('getattr', 'hasattr') and len(n.args) >= 2 and \
                        isinstance(n.args[0], ast.Name) and \
                        n.args[0].id == 'self' and \
                        isinstance(n.args[1], ast.Constant):
                    out.add('self.%s' % n.args[1].value)
            if isinstance(n, ast.Call) and isinstance(n.func, ast.Name) and \
                    n.func.id == 'len' and len(n.args) == 1:
                a = n.args[0]
                if has_key_below(a, 'slots'):
                    out.add('@len!')
                else:
                    r = chain_root(a)
                    if r:
                        out.add('@len:' + r)
        return out


def exit_control_reads(d, fnode):
    """reads of every test which decides whether / which exit statement runs:
    if/while/ifexp tests and for-iters with a return, raise, break or continue
    below them, and assert tests"""
    out = set()

    def has_exit(n):
        for m in walk(n):
            if isinstance(m, (ast.Return, ast.Raise, ast.Break, ast.Continue)):
                return True
        return False

    for n in walk(fnode):
        if isinstance(n, (ast.If, ast.While)) and has_exit(n):
            out |= d.reads(n.test)
        elif isinstance(n, ast.For) and has_exit(n):
            out |= d.reads(n.iter)
        elif isinstance(n, ast.Assert):
            out |= d.reads(n.test)
        elif isinstance(n, ast.IfExp):
            out |= d.reads(n.test)
    return out


class Graph:
    """dependence graph over the functions of one launcher class reachable from
    the entry methods.  Nodes: (function, location) for locals, ('', 'self.x')
    for attributes of the launcher, ('RET', function) for return values,
    ('FILE', '') for everything written to a file."""

    def __init__(self, prog, K, entries, implicit=True, control=True):
        self.prog = prog
        self.K = K
        self.funcs, self.calls = reach(prog, K, entries)
        self.e = {}
        self.deps = {}
        for w, f in self.funcs.items():
            d = PDeps(f.node, nested=True, implicit=implicit)
            self.deps[w] = d
            # one item per element of the iterated container
            for n in walk(f.node, nested=True):
                if isinstance(n, (ast.For, ast.comprehension)):
                    it = n.iter
                    if has_key_below(it, 'slots'):
                        mark = '@iter!'
                    else:
                        r = chain_root(it)
                        mark = '@iter:' + r if r else None
                    if isinstance(it, ast.Call) and dotted(it.func) in \
                            ('enumerate', 'list', 'sorted', 'reversed') \
                            and it.args:
                        r = chain_root(it.args[0])
                        mark = '@iter:' + r if r else mark
                        if has_key_below(it.args[0], 'slots'):
                            mark = '@iter!'
                    if mark:
                        for t in stores_in_target(n.target):
                            d.edges.setdefault(t, set()).add(mark)
            for l, ds in d.edges.items():
                self._add(self.q(w, l), [self.q(w, x) for x in ds])
            for n in walk(f.node):
                if isinstance(n, ast.Return) and n.value is not None:
                    self._add(('RET', w), [self.q(w, x)
                                           for x in d.reads(n.value)])
            if control:
                self._add(('RET', w), [self.q(w, x) for x in
                                       exit_control_reads(d, f.node)])
            for c in calls_in(f.node, nested=True):
                nm = call_name(c)
                if (isinstance(c.func, ast.Attribute) and
                        c.func.attr in ('write', 'writelines')) or \
                        nm in FILE_WRITERS:
                    rd = set()
                    for a in c.args:
                        rd |= d.reads(a)
                    for k in c.keywords:
                        rd |= d.reads(k.value)
                    self._add(('FILE', ''), [self.q(w, x) for x in rd])
        for f, c, g in self.calls:
            w = f.where
            d = self.deps[w]
            nm = call_name(c)
            if nm:
                self._add((w, 'ret:' + nm), [('RET', g.where)])
            params = list(g.params)
            via_obj = isinstance(c.func, ast.Attribute) and (
                (isinstance(c.func.value, ast.Name) and
                 c.func.value.id in ('self', 'cls')) or
                isinstance(c.func.value, ast.Call))
            if via_obj and not is_static(g) and params:
                params = params[1:]
            for i, a in enumerate(c.args):
                rd = [self.q(w, x) for x in d.reads(a)]
                if isinstance(a, ast.Starred) or i >= len(params):
                    for p in params:
                        self._add((g.where, p), rd)
                else:
                    self._add((g.where, params[i]), rd)
            for k in c.keywords:
                rd = [self.q(w, x) for x in d.reads(k.value)]
                if k.arg in params:
                    self._add((g.where, k.arg), rd)
                else:
                    for p in params:
                        self._add((g.where, p), rd)

    def q(self, w, l):
        if l.startswith('self.'):
            return ('', l)
        return (w, l)                    # locals, 'ret:..' and '@..' marks

    def _add(self, k, vs):
        self.e.setdefault(k, set()).update(vs)

    def closure(self, starts):
        seen = set()
        todo = list(starts)
        while todo:
            k = todo.pop()
            if k in seen:
                continue
            seen.add(k)
            todo.extend(self.e.get(k, ()))
        return seen

    def from_placement(self, w, name, _memo=None):
        """local `name` of function w derives from the slot list"""
        cl = self.closure([(w, name)])
        return any(l == '@slots' for _, l in cl)

    def marks(self, cl, kinds):
        """pseudo locations of the given kinds in closure `cl` which really
        derive from the placement"""
        out = []
        for w, l in cl:
            if not isinstance(l, str) or not l.startswith('@'):
                continue
            kind, _, r = l[1:].partition(':')
            bang = kind.endswith('!')
            kind = kind.rstrip('!')
            if kind not in kinds:
                continue
            if kind == 'ranks' or bang or self.from_placement(w, r):
                out.append((w, l))
        return out


def graph(prog, K, entries, implicit=True, control=True):
    """Graph, built once per program / class / entries / mode"""
    cache = prog.__dict__.setdefault('_c09_graphs', {})
    key = (K.where, tuple(entries), implicit, control)
    if key not in cache:
        cache[key] = Graph(prog, K, entries, implicit, control)
    return cache[key]


def place_pred(G, w):
    """memoised predicate: local `name` of function w derives from a node
    name / node index of the placement"""
    memo = {}

    def pd(name):
        if name not in memo:
            memo[name] = bool(G.marks(G.closure([(w, name)]), ('place',)))
        return memo[name]
    return pd


def self_attr_of(target, alias):
    """attribute of the launcher object a store goes through, or None"""
    e = target
    chain = []
    while isinstance(e, (ast.Subscript, ast.Attribute, ast.Starred)):
        chain.append(e)
        e = e.value
    if not isinstance(e, ast.Name):
        return None
    if e.id == 'self':
        if chain and isinstance(chain[-1], ast.Attribute):
            return chain[-1].attr
        return None
    if e.id in alias and chain:
        return alias[e.id]
    return None


def local_aliases(fnode):
    """{name: attr}: locals bound exactly once, to a pure path below self.attr
    (or to an element of it by iteration) - stores through them change the
    launcher object"""
    cnt, cand = {}, {}
    for n in walk(fnode, nested=True):
        tv = []
        if isinstance(n, ast.Assign):
            for t in n.targets:
                for x in stores_in_target(t):
                    cnt[x] = cnt.get(x, 0) + 1
                if isinstance(t, ast.Name):
                    tv.append((t.id, n.value))
        elif isinstance(n, (ast.AugAssign, ast.AnnAssign)):
            for x in stores_in_target(n.target):
                cnt[x] = cnt.get(x, 0) + 2
        elif isinstance(n, (ast.For, ast.comprehension)):
            for x in stores_in_target(n.target):
                cnt[x] = cnt.get(x, 0) + 1
            if isinstance(n.target, ast.Name):
                tv.append((n.target.id, n.iter))
        for name, v in tv:
            if I.is_path(v):
                e = v
                chain = []
                while isinstance(e, (ast.Subscript, ast.Attribute)):
                    chain.append(e)
                    e = e.value
                if isinstance(e, ast.Name) and e.id == 'self' and chain and \
                        isinstance(chain[-1], ast.Attribute):
                    cand[name] = chain[-1].attr
    return {k: v for k, v in cand.items() if cnt.get(k) == 1}


def enclosing_tests(fnode, stmt):
    """tests of the if / while statements (and iterables of the for loops)
    lexically around `stmt`"""
    out = []

    def rec(node, stack):
        if node is stmt:
            out.extend(stack)
            return True
        for c in ast.iter_child_nodes(node):
            st = stack
            if isinstance(node, (ast.If, ast.While)) and c is not node.test:
                st = stack + [node.test]
            elif isinstance(node, ast.For) and c is not node.iter:
                st = stack + [node.iter]
            if rec(c, st):
                return True
        return False

    rec(fnode, [])
    return out


def history_dependence(GV, f, kind, target, stmt, a, tasksrc):
    """why a store to self.<a> makes later results depend on earlier calls,
    or None for an idempotent (re)initialisation from configuration: the
    stored value depends neither on the task nor on the attribute's previous
    value, and the store is not conditional on the task"""
    if kind in ('aug', 'mutate', 'del'):
        return 'accumulates'
    w = f.where
    d = GV.deps[w]
    rd, ctl = set(), set()
    if isinstance(stmt, (ast.Assign, ast.AnnAssign)) and \
            stmt.value is not None:
        rd |= d.reads(stmt.value)
    elif isinstance(stmt, ast.Call):                    # setattr(self, ..)
        for x in stmt.args[2:]:
            rd |= d.reads(x)
    e = target
    while isinstance(e, (ast.Subscript, ast.Attribute)):
        if isinstance(e, ast.Subscript):
            rd |= d.reads(e.slice)
        e = e.value
    for t in enclosing_tests(f.node, stmt):
        ctl |= d.reads(t)
    cl_v = GV.closure([GV.q(w, x) for x in rd])
    cl_c = GV.closure([GV.q(w, x) for x in ctl])
    pre = 'self.' + a
    for ww, l in cl_v:
        if ww == '' and (l == pre or l.startswith(pre + '[') or
                         l.startswith(pre + '.')):
            return 'the stored value depends on the previous value'
    if (cl_v | cl_c) & tasksrc:
        return 'what is stored depends on the task'
    return None


def launcher_stores(fnode):
    """I.stores plus setattr(self, 'name', v) / delattr(self, 'name')"""
    yield from I.stores(fnode, nested=True)
    for c in calls_in(fnode, nested=True):
        if isinstance(c.func, ast.Name) and c.func.id in ('setattr',
                'delattr') and len(c.args) >= 2 and \
                isinstance(c.args[0], ast.Name) and c.args[0].id == 'self' \
                and isinstance(c.args[1], ast.Constant):
            yield ('assign', str(c.args[1].value), c)


# ------------------------------------------------------------------------------
# R09.1  purity
#
def r09_1(prog, rep, classes, rid='R09.1', minimum=81):
    rep.rule(rid, 'no query method of a launcher (get_launch_cmds, '
             'get_rank_cmd, get_exec, can_launch, get_launcher_env and their '
             'self callees) writes an attribute of the launcher which flows '
             'into a command: the command depends on the task at hand only',
             minimum=minimum)
    for K in classes:
        G  = graph(prog, K, QUERY, implicit=True, control=True)
        GV = graph(prog, K, QUERY, implicit=False, control=False)
        sinks = [('FILE', '')]
        tasksrc = set()
        for q in QUERY:
            f = prog.find_method(K, q)
            if f is not None:
                sinks.append(('RET', f.where))
                tasksrc |= {(f.where, p) for p in f.params
                            if p not in ('self', 'cls')}
        relevant = {l[5:].split('[')[0].split('.')[0]
                    for w, l in G.closure(sinks)
                    if w == '' and l.startswith('self.')}
        rep.stat('R09.1 functions', len(G.funcs))
        for w in sorted(G.funcs):
            f = G.funcs[w]
            rep.saw(f)
            alias = local_aliases(f.node)
            hits = {}
            others, idem = set(), set()
            for kind, target, stmt in launcher_stores(f.node):
                a = target if isinstance(target, str) else \
                    self_attr_of(target, alias)
                if a is None:
                    continue
                why = a in relevant and history_dependence(
                    GV, f, kind, target, stmt, a, tasksrc)
                if why:
                    hits.setdefault(a, []).append((kind, target, stmt, why))
                elif a in relevant:
                    idem.add(a)
                else:
                    others.add(a)
            if not hits:
                extra = ''
                if others:
                    extra = ' (writes %s, which no command reads)' % \
                        ', '.join('self.' + x for x in sorted(others))
                if idem:
                    extra += ' (sets %s from configuration only: idempotent)' \
                        % ', '.join('self.' + x for x in sorted(idem))
                rep.ok(rid, f, '%s: %s does not write launcher state read by '
                       'a command%s' % (K.name, f.qual, extra), f.loc())
                continue
            for a, sts in sorted(hits.items()):
                kind, target, stmt, why = sts[0]
                rep.bad(rid, f, 'self.%s' % a,
                        '%s.%s changes self.%s (`%s`%s: %s) and the '
                        'launcher\'s commands read self.%s: the command '
                        'generated for a task depends on the tasks handled '
                        'before it'
                        % (K.name, f.name, a, short(stmt, 60),
                           ', %d statements' % len(sts) if len(sts) > 1
                           else '', why, a),
                        f.loc(stmt),
                        history='%s.%s(task A) followed by %s.%s(task B) on '
                        'the same launcher object: what the first call left '
                        'in self.%s is part of the command for B'
                        % (K.name, f.name, K.name, f.name, a))


# ------------------------------------------------------------------------------
# R09.2  the command depends on the placement
#
def always_raises(f):
    g = cfg_of(f)
    return g.exit.id not in g.reachable(g.entry.id)


def passes_through(f, pname):
    """every return of f returns parameter `pname` untouched"""
    rets = [n for n in walk(f.node) if isinstance(n, ast.Return)]
    if not rets:
        return False
    for n in walk(f.node, nested=True):
        if isinstance(n, ast.Name) and n.id == pname and \
                isinstance(n.ctx, (ast.Store, ast.Del)):
            return False
    return all(isinstance(r.value, ast.Name) and r.value.id == pname
               for r in rets)


def exec_param(f):
    ps = [p for p in f.params if p not in ('self', 'cls')]
    if len(ps) < 2:
        raise AnalysisError('UNRECOGNISED-IDIOM %s: expected (task, exec_path) '
                            'parameters' % f.where)
    return ps[1]


def r09_2(prog, rep, classes, rid='R09.2', minimum=13):
    rep.rule(rid, 'the launch command (returned string and the host / rank / '
             'resource-set files written for it) is data dependent on the node '
             'names or node indices of task[\'slots\']', minimum=minimum)
    for K in classes:
        f = prog.find_method(K, 'get_launch_cmds')
        if f is None:
            continue                       # R09.4 reports the missing method
        rep.saw(f)
        if always_raises(f):
            rep.ok(rid, f, '%s.get_launch_cmds refuses every task (raises on '
                   'every path)' % K.name, f.loc())
            continue
        if passes_through(f, exec_param(f)):
            # the launcher adds nothing to the command: the exec script runs
            # where the agent runs - then it must refuse any other node
            if K.name in DELEGATING:
                rep.ok(rid, f, '%s: delegating launcher (%s)'
                       % (K.name, DELEGATING[K.name]), f.loc())
                continue
            cl_f = prog.find_method(K, 'can_launch')
            okc = False
            if cl_f is not None:
                G = graph(prog, K, ['can_launch'])
                cl = G.closure([('RET', cl_f.where)])
                okc = bool(G.marks(cl, ('place',)))
            rep.check(okc, rid, f,
                      '%s runs the exec script where the agent runs and its '
                      'can_launch decides on the node name of the placement'
                      % K.name,
                      construct='%s:placement' % K.name,
                      message='%s.get_launch_cmds returns the exec script '
                      'unchanged (it starts on the agent node) and '
                      '%s.can_launch never looks at the node of the '
                      'placement: a task placed on another node is started on '
                      'the agent node' % (K.name, K.name),
                      loc=f.loc(),
                      history='task placed by the scheduler on node B while '
                      'the agent runs on node A: the process starts on A')
            continue
        G = graph(prog, K, ['get_launch_cmds'])
        cl = G.closure([('RET', f.where), ('FILE', '')])
        m = G.marks(cl, ('place',))
        rep.stat('R09.2 graph nodes', len(G.e))
        rep.check(bool(m), rid, f,
                  '%s: command depends on the node names/indices of the '
                  'placement (%d reads)' % (K.name, len(m)),
                  construct='%s:placement' % K.name,
                  message='%s.get_launch_cmds builds a command which does not '
                  'depend on any node_name / node_index of task[\'slots\'] '
                  '(neither the returned string nor a file written for it): '
                  'the ranks start wherever the launcher puts them, not on '
                  'the nodes the scheduler reserved' % K.name,
                  loc=f.loc(),
                  history='pilot with nodes n1,n2; task A (1 rank) was placed '
                  'on n2 because n1 is full: the command names no node, the '
                  'launcher starts the rank on n1 (oversubscribed) while n2 '
                  'stays reserved and idle')


# ------------------------------------------------------------------------------
# R09.3  refuse rather than mis-count
#
_OPS = {ast.Gt: operator.gt, ast.GtE: operator.ge, ast.Lt: operator.lt,
        ast.LtE: operator.le, ast.Eq: operator.eq, ast.NotEq: operator.ne}
_SWAP = {ast.Gt: ast.Lt, ast.GtE: ast.LtE, ast.Lt: ast.Gt, ast.LtE: ast.GtE,
         ast.Eq: ast.Eq, ast.NotEq: ast.NotEq}


def count_expr(f, e, _seen=()):
    """e is the number of ranks of the task: len(<slot list>) or the 'ranks'
    entry of the description (directly or through single-purpose locals)"""
    if isinstance(e, ast.Call) and isinstance(e.func, ast.Name) and \
            e.func.id == 'len' and len(e.args) == 1:
        return slots_expr(f, e.args[0])
    if const_key(e) == 'ranks':
        return True
    if isinstance(e, ast.Name) and e.id not in _seen:
        vals = [n.value for n in walk(f.node) if isinstance(n, ast.Assign)
                and any(isinstance(t, ast.Name) and t.id == e.id
                        for t in n.targets)]
        return bool(vals) and all(count_expr(f, v, _seen + (e.id,))
                                  for v in vals)
    return False


def slots_expr(f, e, _seen=()):
    if const_key(e) == 'slots':
        return True
    if isinstance(e, ast.Name) and e.id not in _seen:
        vals = [n.value for n in walk(f.node) if isinstance(n, ast.Assign)
                and any(isinstance(t, ast.Name) and t.id == e.id
                        for t in n.targets)]
        return bool(vals) and all(slots_expr(f, v, _seen + (e.id,))
                                  for v in vals)
    return False


def multi_label(f, test):
    """'T' / 'F': the out-edge of `test` taken by every task with more than
    one rank; None if the test is not such a test.  ('X': a comparison of the
    rank count which does not separate one rank from many)"""
    if not isinstance(test, ast.Compare) or len(test.ops) != 1:
        return None
    l, r, op = test.left, test.comparators[0], type(test.ops[0])
    if op not in _OPS:
        return None
    if count_expr(f, r) and isinstance(l, ast.Constant):
        l, r, op = r, l, _SWAP[op]
    if not (count_expr(f, l) and isinstance(r, ast.Constant) and
            isinstance(r.value, (int, float)) and
            not isinstance(r.value, bool)):
        return None
    res = [_OPS[op](n, r.value) for n in range(2, 10)]
    if all(res):
        return 'T'
    if not any(res):
        return 'F'
    return 'X'


def refusing_return(n):
    v = n.value
    return isinstance(v, ast.Tuple) and v.elts and \
        isinstance(v.elts[0], ast.Constant) and not v.elts[0].value


def returns_guarded_single(f, accept_only):
    """every (accepting) return of f is control dependent on the single-rank
    outcome of a rank-count test.  Returns (ok, n_returns, wrong test|None)"""
    g = cfg_of(f)
    rets = [n for n in g.stmt_nodes() if n.kind == 'stmt' and
            isinstance(n.ast, ast.Return) and
            n.id in g.reachable(g.entry.id)]
    if accept_only:
        rets = [n for n in rets if not refusing_return(n.ast)]
    wrong = None
    for t in g.nodes:
        if t.kind == 'test' and multi_label(f, t.ast) == 'X':
            wrong = t.ast
    ok = True
    for n in rets:
        good = False
        for tid, lab in guards(g, n.id):
            ml = multi_label(f, g.nodes[tid].ast)
            if ml in ('T', 'F') and ml != lab:
                good = True
        ok = ok and good
    return ok, len(rets), wrong


def r09_3(prog, rep, classes, rid='R09.3', minimum=13):
    rep.rule(rid, 'a launcher whose command does not carry the number of '
             'ranks refuses tasks with more than one rank (can_launch returns '
             'false, or get_launch_cmds raises, for more than one slot / rank)',
             minimum=minimum)
    for K in classes:
        f = prog.find_method(K, 'get_launch_cmds')
        if f is None:
            continue
        rep.saw(f)
        if always_raises(f):
            rep.ok(rid, f, '%s.get_launch_cmds refuses every task' % K.name,
                   f.loc())
            continue
        if K.name in DELEGATING and passes_through(f, exec_param(f)):
            rep.ok(rid, f, '%s: delegating launcher (%s)'
                   % (K.name, DELEGATING[K.name]), f.loc())
            continue
        # value dependence only: a raise guarded by len(slots) is a refusal,
        # not a way of counting
        G = graph(prog, K, ['get_launch_cmds'], implicit=False, control=False)
        cl = G.closure([('RET', f.where), ('FILE', '')])
        m = G.marks(cl, ('ranks', 'len', 'iter'))
        if m:
            rep.ok(rid, f, '%s: the command carries the number of ranks (%s)'
                   % (K.name, ', '.join(sorted({l for _, l in m}))[:80]),
                   f.loc())
            continue
        cf_ = prog.find_method(K, 'can_launch')
        a_ok, a_n, a_wrong = (False, 0, None)
        if cf_ is not None:
            rep.saw(cf_)
            a_ok, a_n, a_wrong = returns_guarded_single(cf_, True)
        b_ok, b_n, b_wrong = returns_guarded_single(f, False)
        wrong = a_wrong or b_wrong
        rep.check(a_ok or b_ok, rid, cf_ or f,
                  '%s starts one process whatever the task: multi-rank tasks '
                  'are refused (%s)' % (K.name, ' and '.join(
                      x for x, y in (('can_launch', a_ok),
                                     ('get_launch_cmds raises', b_ok)) if y)),
                  construct='%s:single-rank' % K.name,
                  message='the command of %s does not depend on the number of '
                  'ranks (no len(slots), no ranks, no per-slot part), but '
                  'neither %s.can_launch returns false nor get_launch_cmds '
                  'raises for every task with more than one slot/rank%s'
                  % (K.name, K.name,
                     ' - the test `%s` does not separate one rank from many'
                     % short(wrong, 50) if wrong is not None else ''),
                  loc=(cf_ or f).loc(),
                  history='task with ranks=2 placed on two slots: %s accepts '
                  'it and its command starts a single process' % K.name)


# ------------------------------------------------------------------------------
# R09.4  interface, selection order
#
def is_stub(f):
    body = [s for s in f.node.body
            if not (isinstance(s, ast.Expr) and
                    isinstance(s.value, ast.Constant))]
    if len(body) != 1 or not isinstance(body[0], ast.Raise):
        return False
    e = body[0].exc
    if isinstance(e, ast.Call):
        e = e.func
    return e is not None and dotted(e) == 'NotImplementedError'


def pair_returns(prog, K, f, depth=2):
    """(bad return nodes, unknown return nodes, falls through)"""
    g = cfg_of(f)
    for n in walk(f.node):
        if isinstance(n, ast.Try) and n.finalbody:
            raise AnalysisError('UNRECOGNISED-IDIOM %s: try/finally in '
                                'can_launch' % f.where)
    live = g.reachable(g.entry.id)
    bad, unknown = [], []
    fall = False
    for e in g.pred[g.exit.id]:
        if e.src not in live:
            continue
        n = g.nodes[e.src]
        if not (n.kind == 'stmt' and isinstance(n.ast, ast.Return)):
            fall = True
    for n in walk(f.node):
        if not isinstance(n, ast.Return):
            continue
        v = n.value
        if v is None or (isinstance(v, ast.Constant)):
            bad.append(n)
        elif isinstance(v, ast.Tuple):
            if len(v.elts) != 2 or any(isinstance(x, ast.Starred)
                                       for x in v.elts):
                bad.append(n)
        elif isinstance(v, ast.Call) and depth > 0 and \
                prog.resolve_call(f, v, K) is not None and \
                prog.resolve_call(f, v, K).cls is not None:
            h = prog.resolve_call(f, v, K)
            b2, u2, f2 = pair_returns(prog, K, h, depth - 1)
            if b2 or f2:
                bad.append(n)
            elif u2:
                unknown.append(n)
        elif isinstance(v, ast.Name):
            vals = [a.value for a in walk(f.node) if isinstance(a, ast.Assign)
                    and any(isinstance(t, ast.Name) and t.id == v.id
                            for t in a.targets)]
            if vals and all(isinstance(x, ast.Tuple) and len(x.elts) == 2
                            for x in vals):
                pass
            else:
                unknown.append(n)
        else:
            unknown.append(n)
    return bad, unknown, fall


def r09_4(prog, rep, classes, rid='R09.4', minimum=86):
    rep.rule(rid, 'every launcher of the factory table implements the five '
             'query methods; can_launch answers with a pair on every path; '
             'find_launcher asks the launchers in the configured order and '
             'returns the first that accepts; failed launchers leave the order',
             minimum=minimum)
    base = prog.cls(*LM_BASE)
    for K in classes:
        for q in QUERY:
            f = prog.find_method(K, q)
            okm = f is not None and not is_stub(f)
            rep.check(okm, rid, K, '%s provides %s' % (K.name, q),
                      construct='%s.%s' % (K.name, q),
                      message='%s is in the factory table of '
                      'LaunchMethod.create but does not implement %s (%s)'
                      % (K.name, q, 'inherits the NotImplementedError stub'
                         if f is not None else 'no such method'),
                      loc='%s/%s:%d' % ('src/radical/pilot', K.module.rel,
                                        K.node.lineno),
                      history='a pilot configured with this launcher: the '
                      'executor calls %s for the first task and the task '
                      'fails with NotImplementedError' % q)
        f = prog.find_method(K, 'can_launch')
        if f is None or is_stub(f):
            continue
        rep.saw(f)
        bad, unknown, fall = pair_returns(prog, K, f)
        if unknown and not bad and not fall:
            raise AnalysisError('UNRECOGNISED-IDIOM %s: cannot tell the shape '
                                'of `%s`' % (f.where, short(unknown[0], 60)))
        rep.check(not bad and not fall, rid, f,
                  '%s.can_launch returns a (bool, reason) pair on every path'
                  % K.name,
                  construct=bad[0] if bad else '%s:fall-through' % K.name,
                  message='%s.can_launch %s: find_launcher unpacks the answer '
                  'into (can, reason) and raises instead of asking the next '
                  'launcher' % (K.name, 'returns `%s`' % short(bad[0], 40)
                                if bad else 'can end without a return'),
                  loc=f.loc(bad[0]) if bad else f.loc(),
                  history='a task for which this path is taken is not '
                  'launched although a later launcher of the order accepts it')
    find_launcher(prog, rep, rid)
    prepare(prog, rep, rid)


def iter_source(f, it):
    """(path text, wrapper names) of a loop iterable: wrappers are the calls
    around the path (list(), sorted(), .keys(), .items())"""
    wrappers = []
    e = it
    for _ in range(6):
        if isinstance(e, ast.Call) and isinstance(e.func, ast.Name) and \
                len(e.args) >= 1:
            wrappers.append(e.func.id)
            e = e.args[0]
        elif isinstance(e, ast.Call) and isinstance(e.func, ast.Attribute) \
                and e.func.attr in ('keys', 'items', 'copy') and not e.args:
            wrappers.append('.' + e.func.attr)
            e = e.func.value
        elif isinstance(e, ast.Subscript) and isinstance(e.slice, ast.Slice) \
                and e.slice.lower is None and e.slice.upper is None and \
                e.slice.step is None:
            wrappers.append('[:]')
            e = e.value
        elif isinstance(e, ast.Name):
            vals = [n.value for n in walk(f.node) if isinstance(n, ast.Assign)
                    and any(isinstance(t, ast.Name) and t.id == e.id
                            for t in n.targets)]
            if len(vals) != 1:
                break
            e = vals[0]
        else:
            break
    return unparse(e), wrappers


def launcher_loop(prog):
    """(f, cfg, can_launch call, its cfg node, head of the loop over the
    launchers) of ResourceManager.find_launcher"""
    f = prog.method(RM[0], RM[1], 'find_launcher')
    g = cfg_of(f)
    smap = I.stmt_node_map(g)
    calls = [c for c in calls_in(f.node) if isinstance(c.func, ast.Attribute)
             and c.func.attr == 'can_launch']
    if len(calls) != 1:
        raise AnalysisError('UNRECOGNISED-IDIOM %s: %d can_launch calls'
                            % (f.where, len(calls)))
    call = calls[0]
    cnode = smap.get(id(call))
    if cnode is None or not cnode.loops:
        raise AnalysisError('UNRECOGNISED-IDIOM %s: can_launch is not called '
                            'in a loop' % f.where)
    head = g.nodes[cnode.loops[-1]]
    if head.kind != 'for':
        raise AnalysisError('UNRECOGNISED-IDIOM %s: launcher loop is not a '
                            'for loop' % f.where)
    return f, g, call, cnode, head


def _int_index(sub):
    """i of x[i] with a constant integer index, else None"""
    if not isinstance(sub, ast.Subscript):
        return None
    sl, sign = sub.slice, 1
    if isinstance(sl, ast.UnaryOp) and isinstance(sl.op, ast.USub):
        sl, sign = sl.operand, -1
    if isinstance(sl, ast.Constant) and isinstance(sl.value, int) and \
            not isinstance(sl.value, bool):
        return sign * sl.value
    return None


def answer_tests(f, g, call, cnode, head):
    """[(test cfg node, i)]: tests of the launcher loop which read element i
    of the pair answered by `call` as a truth value.  The element is known by
    binding, not by name: position in the unpacking target of the call (or of
    the local which holds the whole answer), or a constant subscript."""
    stmt = cnode.ast
    elem, whole = {}, set()              # name -> i ; names of the pair itself

    def bind(target, value_is_answer):
        if not value_is_answer:
            return
        if isinstance(target, (ast.Tuple, ast.List)):
            for i, t in enumerate(target.elts):
                if isinstance(t, ast.Starred):
                    break
                if isinstance(t, ast.Name):
                    elem[t.id] = i
        elif isinstance(target, ast.Name):
            whole.add(target.id)

    if isinstance(stmt, ast.Assign) and stmt.value is call:
        for t in stmt.targets:
            bind(t, True)
    body = g.loop_body[head.id]
    # (names are only trusted when the loop binds them exactly once)
    stores = {}
    for n in walk(head.ast, nested=True):
        if isinstance(n, ast.Name) and isinstance(n.ctx, (ast.Store, ast.Del)):
            stores[n.id] = stores.get(n.id, 0) + 1
    whole = {w for w in whole if stores.get(w) == 1}
    def bind_value(t, v):
        if isinstance(v, ast.Name) and v.id in whole:
            bind(t, True)
        elif isinstance(v, ast.Subscript) and _int_index(v) is not None \
                and ((isinstance(v.value, ast.Name) and
                      v.value.id in whole) or v.value is call):
            if isinstance(t, ast.Name) and -2 <= _int_index(v) < 2:
                elem[t.id] = _int_index(v) % 2
        elif isinstance(t, (ast.Tuple, ast.List)) and \
                isinstance(v, (ast.Tuple, ast.List)) and \
                len(t.elts) == len(v.elts):
            for t2, v2 in zip(t.elts, v.elts):
                bind_value(t2, v2)

    for n in walk(head.ast):
        if isinstance(n, ast.Assign) and n is not stmt:
            for t in n.targets:
                bind_value(t, n.value)
    elem = {k: i for k, i in elem.items() if stores.get(k) == 1}

    def element(e):
        if isinstance(e, ast.Name):
            return elem.get(e.id)
        i = _int_index(e)
        if i is not None and -2 <= i < 2 and (e.value is call or (
                isinstance(e.value, ast.Name) and e.value.id in whole)):
            return i % 2
        if isinstance(e, ast.Compare) and len(e.ops) == 1 and \
                isinstance(e.ops[0], (ast.Is, ast.Eq)) \
                and isinstance(e.comparators[0], ast.Constant) and \
                e.comparators[0].value is True:
            # (same polarity as the plain truth test; other comparisons stay
            # unrecognised: R09.4 reads the T edge as `accepted`)
            return element(e.left)
        if isinstance(e, ast.Call) and dotted(e.func) == 'bool' and \
                len(e.args) == 1:
            return element(e.args[0])
        return None

    out = []
    for n in g.nodes:
        if n.kind != 'test' or n.id not in body:
            continue
        i = element(n.ast)
        if i is not None:
            out.append((n, i))
    return out


def find_launcher(prog, rep, rid):
    f, g, call, cnode, head = launcher_loop(prog)
    rep.saw(f)
    d = Deps(f.node)
    src, wrappers = iter_source(f, head.ast.iter)
    breakers = [w for w in wrappers if w in ORDER_BREAKERS]
    if src not in ('self._launch_order', 'self._launchers') or \
            [w for w in wrappers if w not in ORDER_BREAKERS and
             w not in ORDER_KEEPERS and w not in ('.keys', '.items', '.copy',
                                                  '[:]', 'enumerate')]:
        raise AnalysisError('UNRECOGNISED-IDIOM %s: launcher loop iterates '
                            '`%s`' % (f.where, short(head.ast.iter, 60)))
    rep.check(not breakers, rid, f,
              'find_launcher iterates the launchers in the configured order '
              '(%s)' % short(head.ast.iter, 40),
              construct=head.ast.iter,
              message='find_launcher iterates `%s`: the launchers are not '
              'asked in the order of the resource configuration'
              % short(head.ast.iter, 60), loc=f.loc(head.ast),
              history='order [MPIRUN, FORK]: a single-rank task which both '
              'accept is started by FORK instead of MPIRUN (or vice versa)')
    loopvars = set(stores_in_target(head.ast.target))
    recv = call.func.value
    rdep = d.expr_depends(recv)
    rep.check(bool(loopvars & rdep), rid, f,
              'the launcher asked is the one named by the loop variable',
              construct=call,
              message='`%s` is not the launcher selected by the loop over the '
              'order' % short(recv, 40), loc=f.loc(call),
              history='every task is offered to the same launcher')
    # the test on the answer (which element of the answer it reads is R09.9)
    tests = [t for t, _ in answer_tests(f, g, call, cnode, head)]
    if not tests:
        raise AnalysisError('UNRECOGNISED-IDIOM %s: no truth test on the '
                            'answer of can_launch found' % f.where)
    for t in tests:
        succ = {e.label: e.dst for e in g.succ[t.id] if e.label in 'TF'}
        rt = g.reachable(succ['T'])
        rf = g.reachable(succ['F'])
        stops = head.id not in rt and g.exit.id in rt
        goes_on = head.id in rf
        rep.check(stops and goes_on, rid, f,
                  'find_launcher stops at the first launcher that accepts and '
                  'goes on after a refusal',
                  construct=t.ast,
                  message='after `%s` is %s find_launcher %s: it does not '
                  'return the first launcher of the order that accepts the '
                  'task' % (short(t.ast, 30),
                            'true' if not stops else 'false',
                            'continues with the next launcher' if not stops
                            else 'leaves the loop'),
                  loc=f.loc(t.ast),
                  history='order [A, B], both accept the task: B (or none) '
                  'is returned instead of A')
        rets = [g.nodes[i] for i in rt if g.nodes[i].kind == 'stmt' and
                isinstance(g.nodes[i].ast, ast.Return)]
        want = loopvars | ({recv.id} if isinstance(recv, ast.Name) else set())
        # (a `break` variant also reaches the not-found return: the CFG does
        # not know that the flag is set - so one deriving return suffices)
        okr = any(r.ast.value is not None and
                  d.expr_depends(r.ast.value) & want for r in rets)
        rep.check(okr, rid, f,
                  'what find_launcher returns on acceptance is the accepting '
                  'launcher', construct=rets[0].ast if rets else t.ast,
                  message='the value returned after a launcher accepted the '
                  'task does not derive from that launcher (`%s`)'
                  % (short(rets[0].ast, 50) if rets else 'no return'),
                  loc=f.loc(rets[0].ast) if rets else f.loc(),
                  history='a launcher accepts, the caller receives another '
                  'one (or none)')
    # no launcher leaves find_launcher unasked: whatever a return hands out
    # (other than None / (None, None)) was bound under the true outcome of a
    # test on the answer of can_launch
    tids = {t.id for t in tests}
    for r, site, v in launcher_returns(g):
        gs = guards(g, site.id)
        okg = any(tid in tids and lab == 'T' for tid, lab in gs)
        rep.check(okg, rid, f,
                  'what `%s` hands out was accepted by can_launch'
                  % short(r.ast, 40),
                  construct=r.ast if site is r else site.ast,
                  message='find_launcher can return `%s`%s without a true '
                  'answer of can_launch for that launcher: the statement is '
                  'not control dependent on the accepting outcome of the test '
                  'on the answer - a launcher which cannot start the task (or '
                  'was never asked) is handed to the executor instead of a '
                  'refusal'
                  % (short(v, 50), '' if site is r else
                     ' (bound by `%s`)' % short(site.ast, 50)),
                  loc=f.loc(site.ast),
                  history='a pilot whose only launcher is FORK (debug.radical, '
                  'local.dragon) and a task with 4 ranks placed on node1, '
                  'node2: FORK.can_launch would answer (False, \'more than '
                  'one rank\'), but it is returned all the same and its '
                  'command starts ONE local process')
    return src, head


def _none_like(e):
    return e is None or (isinstance(e, ast.Constant) and e.value is None) or \
        (isinstance(e, (ast.Tuple, ast.List)) and
         all(_none_like(x) for x in e.elts))


def launcher_returns(g):
    """[(return cfg node, cfg node which binds what it returns, value)] for
    the returns of a selection function which may hand out something else
    than None / (None, None).  A returned local is followed to the definitions
    which reach the return (`found = None` ... `found = launcher, name`)."""
    live = g.reachable(g.entry.id)
    out = []

    def sites(name, at, depth, seen):
        rd = reaching_defs(g, name, at)
        if not rd:
            return None                      # parameter / unknown
        res = []
        for dn, dv in rd:
            if dv is not None and _none_like(dv):
                continue
            if isinstance(dv, ast.Name) and depth > 0 and \
                    (dv.id, dn.id) not in seen:
                seen.add((dv.id, dn.id))
                sub = sites(dv.id, dn.id, depth - 1, seen)
                if sub is not None:
                    res += sub
                    continue
            res.append((dn, dv if dv is not None else dn.ast))
        return res

    for n in g.nodes:
        if n.id not in live or n.kind != 'stmt' or \
                not isinstance(n.ast, ast.Return):
            continue
        v = n.ast.value
        if _none_like(v):
            continue
        if isinstance(v, ast.Name):
            ss = sites(v.id, n.id, 4, set())
            if ss is None:
                out.append((n, n, v))
            else:
                out += [(n, dn, dv) for dn, dv in ss]
        else:
            out.append((n, n, v))
    return out


# ------------------------------------------------------------------------------
# R09.9  the element of the answer which decides is the verdict
#
def answer_tuples(prog, K, f, depth=2):
    """the 2-tuples which can_launch `f` may answer with ([ast.Tuple]), None
    if some answer has a shape which is not a literal pair"""
    out = []
    for n in walk(f.node):
        if not isinstance(n, ast.Return):
            continue
        v = n.value
        if isinstance(v, ast.Tuple) and len(v.elts) == 2:
            out.append(v)
        elif isinstance(v, ast.Name):
            vals = defs_of(f, v.id)
            if not vals or not all(isinstance(x, ast.Tuple) and
                                   len(x.elts) == 2 for x in vals):
                return None
            out += vals
        elif isinstance(v, ast.Call) and depth > 0:
            h = prog.resolve_call(f, v, K)
            if h is None or h.cls is None:
                return None
            sub = answer_tuples(prog, K, h, depth - 1)
            if sub is None:
                return None
            out += sub
        else:
            return None
    return out


def _elt_kind(e, f=None, _seen=()):
    """'bool' / 'str' / None for an element of an answer"""
    if isinstance(e, ast.Name) and f is not None and e.id not in _seen:
        ks = {_elt_kind(v, f, _seen + (e.id,)) for v in defs_of(f, e.id)}
        if len(ks) == 1 and _n_stores(f, e.id) == len(defs_of(f, e.id)):
            return ks.pop()
        return None
    if isinstance(e, ast.IfExp):
        ks = {_elt_kind(e.body, f, _seen), _elt_kind(e.orelse, f, _seen)}
        return ks.pop() if len(ks) == 1 else None
    if isinstance(e, ast.Constant):
        if isinstance(e.value, bool):
            return 'bool'
        if isinstance(e.value, str):
            return 'str'
        return None
    if isinstance(e, ast.JoinedStr):
        return 'str'
    if isinstance(e, ast.BinOp) and isinstance(e.op, (ast.Mod, ast.Add)) and \
            _elt_kind(e.left) == 'str':
        return 'str'
    if isinstance(e, ast.Call) and isinstance(e.func, ast.Attribute) and \
            e.func.attr in ('format', 'join') and \
            _elt_kind(e.func.value) == 'str':
        return 'str'
    if isinstance(e, ast.Call) and dotted(e.func) == 'str':
        return 'str'
    if isinstance(e, ast.Compare) or (
            isinstance(e, ast.UnaryOp) and isinstance(e.op, ast.Not)) or (
            isinstance(e, ast.Call) and dotted(e.func) in ('bool', 'any',
                                                           'all')):
        return 'bool'
    return None                     # (`a and b` has the type of its operands)


def verdict_position(tuples, f=None):
    """position of the verdict in the answers of one can_launch: 0 / 1, 'mixed'
    when the answers disagree, None when no answer shows a bool or a str"""
    votes = set()
    for t in tuples:
        k = [_elt_kind(x, f) for x in t.elts]
        if k[0] == 'bool' and k[1] != 'bool':
            votes.add(0)
        elif k[1] == 'bool' and k[0] != 'bool':
            votes.add(1)
        elif k[0] == 'str' and k[1] is None:
            votes.add(1)
        elif k[1] == 'str' and k[0] is None:
            votes.add(0)
    if not votes:
        return None
    return votes.pop() if len(votes) == 1 else 'mixed'


def r09_9(prog, rep, classes, rid='R09.9', minimum=10):
    # (13 today: 12 can_launch methods and find_launcher; a can_launch whose
    # answers are not literal pairs of a bool and a reason has no vote)
    rep.rule(rid, 'the element of the can_launch answer which find_launcher '
             'reads as the verdict is the element in which every launcher of '
             'the factory table puts its verdict (the bool of the (bool, '
             'reason) pair): agreement by position between the returned pairs '
             'and the unpacking in find_launcher', minimum=minimum)
    pos = {}
    for K in classes:
        f = prog.find_method(K, 'can_launch')
        if f is None or is_stub(f):
            continue
        rep.saw(f)
        ts = answer_tuples(prog, K, f)
        p = verdict_position(ts, f) if ts else None
        if p is not None:
            pos[K] = (f, p, ts)
    counts = {}
    for K, (f, p, ts) in pos.items():
        if p != 'mixed':
            counts[p] = counts.get(p, 0) + 1
    if not counts:
        raise AnalysisError('UNRECOGNISED-IDIOM R09.9: no can_launch of the '
                            'factory classes answers with a literal pair of a '
                            'bool and a reason')
    vpos = max(sorted(counts), key=lambda p: counts[p])
    for K, (f, p, ts) in sorted(pos.items(), key=lambda kv: kv[0].name):
        rep.check(p == vpos, rid, f,
                  '%s.can_launch puts the verdict into element %d of its '
                  'answer' % (K.name, vpos),
                  construct='%s:verdict-position' % K.name,
                  message='%s.can_launch answers `%s`: the verdict is %s, the '
                  'other launchers (%d of %d) and find_launcher expect it in '
                  'element %d - the reason string is read as the verdict (a '
                  'non-empty reason counts as acceptance, the empty reason of '
                  'an acceptance as refusal)'
                  % (K.name, short(ts[-1], 40),
                     'in element %d' % p if p != 'mixed' else
                     'not always in the same element', counts[vpos],
                     len(pos), vpos),
                  loc=f.loc(ts[-1]),
                  history='a task %s refuses is started by %s all the same; '
                  'a task it could start goes to the next launcher of the '
                  'order or fails with `no launch method`' % (K.name, K.name))
    f, g, call, cnode, head = launcher_loop(prog)
    rep.saw(f)
    tests = answer_tests(f, g, call, cnode, head)
    if not tests:
        raise AnalysisError('UNRECOGNISED-IDIOM %s: no truth test on the '
                            'answer of can_launch found' % f.where)
    for t, i in tests:
        rep.check(i == vpos, rid, f,
                  'find_launcher decides on element %d of the answer of '
                  'can_launch, the verdict' % vpos,
                  construct='find_launcher:verdict-position',
                  message='find_launcher tests `%s`, which is bound to element '
                  '%d of the pair answered by `%s`, but the launchers put the '
                  'verdict into element %d (%d of %d can_launch methods): the '
                  'reason string is used as the verdict - a refusal (False, '
                  '\'more than one rank\') is truthy and selects the launcher, '
                  'an acceptance (True, \'\') is falsy and skips it'
                  % (short(t.ast, 30), i, short(call, 40), vpos, counts[vpos],
                     len(pos)),
                  loc=f.loc(t.ast),
                  history='launch order [FORK, MPIRUN], task with 4 ranks on 2 '
                  'nodes: FORK answers (False, \'more than one rank\'), the '
                  'reason is taken as acceptance and the task is started as '
                  'ONE local process; a single-rank task on the agent node, '
                  'which FORK accepts with (True, \'\'), is passed on')


def prepare(prog, rep, rid):
    f = prog.method(RM[0], RM[1], '_prepare_launch_methods')
    rep.saw(f)
    g = cfg_of(f)
    smap = I.stmt_node_map(g)
    # P1 the order is the configured one
    assigns = [n for n in walk(f.node) if isinstance(n, ast.Assign) and
               any(unparse(t) == 'self._launch_order' for t in n.targets)]
    if not assigns:
        raise AnalysisError('UNRECOGNISED-IDIOM %s: self._launch_order is '
                            'not assigned' % f.where)
    first = assigns[0]
    reads_order = any(const_key(n) == 'order' for n in walk(first.value))
    broken = [c for c in calls_in(first.value)
              if isinstance(c.func, ast.Name) and c.func.id in ORDER_BREAKERS]
    if not reads_order:
        raise AnalysisError('UNRECOGNISED-IDIOM %s: `%s` does not read the '
                            "configured 'order'" % (f.where, short(first, 60)))
    rep.check(not broken, rid, f,
              "self._launch_order is the configured 'order' of the launch "
              'methods', construct=first,
              message='the configured launch method order is re-ordered '
              '(`%s`)' % short(first.value, 60), loc=f.loc(first),
              history='order [MPIRUN, FORK] becomes [FORK, MPIRUN]')
    # the creation loop
    creates = [c for c in calls_in(f.node) if isinstance(c.func, ast.Attribute)
               and c.func.attr == 'create']
    if len(creates) != 1:
        raise AnalysisError('UNRECOGNISED-IDIOM %s: %d create() calls'
                            % (f.where, len(creates)))
    cr = creates[0]
    cn = smap[id(cr)]
    if not cn.loops or g.nodes[cn.loops[-1]].kind != 'for':
        raise AnalysisError('UNRECOGNISED-IDIOM %s: create() is not called '
                            'in a for loop' % f.where)
    head = g.nodes[cn.loops[-1]]
    lv = stores_in_target(head.ast.target)
    if len(lv) != 1:
        raise AnalysisError('UNRECOGNISED-IDIOM %s: loop target' % f.where)
    lv = lv[0]
    # P4 stored under the name it was created for
    st = cn.ast
    okk = isinstance(st, ast.Assign) and st.value is cr and \
        len(st.targets) == 1 and isinstance(st.targets[0], ast.Subscript) and \
        unparse(st.targets[0].value) == 'self._launchers' and \
        unparse(st.targets[0].slice) == lv and \
        kwarg(cr, 'name', 0) is not None and \
        unparse(kwarg(cr, 'name', 0)) == lv
    if not (isinstance(st, ast.Assign) and st.value is cr):
        raise AnalysisError('UNRECOGNISED-IDIOM %s: result of create() is not '
                            'stored by an assignment' % f.where)
    rep.check(okk, rid, f, 'the launcher created for a name is stored under '
              'that name', construct=st,
              message='`%s`: the launcher is created for one name and stored '
              'under another; find_launcher returns the wrong type of '
              'launcher for that name' % short(st, 70), loc=f.loc(st),
              history='order [SSH, MPIRUN]: the object stored as SSH is not '
              'an SSH launcher')
    # P2 / P3 removal of failed launchers
    removes = [n for n in g.stmt_nodes() if n.kind == 'stmt' and any(
        call_name(c) == 'self._launch_order.remove' and c.args and
        unparse(c.args[0]) == lv for c in calls_in(n.ast))]
    src, wrappers = iter_source(f, head.ast.iter)
    copied = bool(wrappers) or src != 'self._launch_order'
    if removes:
        rep.check(copied, rid, f, 'the creation loop iterates a copy of the '
                  'order while it removes from it',
                  construct=head.ast.iter,
                  message='the loop iterates self._launch_order itself and '
                  'removes from it: the name after a failed one is skipped, '
                  'never created, but stays in the order', loc=f.loc(head.ast),
                  history='order [A, B, C], A fails to initialise: B is '
                  'skipped and find_launcher raises KeyError on B')
    else:
        rep.ok(rid, f, 'the creation loop does not remove from the order',
               f.loc(head.ast))
    # does find_launcher need the removal?
    fl = prog.method(RM[0], RM[1], 'find_launcher')
    needs = False
    for n in walk(fl.node):
        if isinstance(n, ast.Subscript) and isinstance(n.ctx, ast.Load) and \
                unparse(n.value) == 'self._launchers':
            needs = True
    tolerant = any(isinstance(n, ast.Compare) and
                   any(isinstance(o, (ast.In, ast.NotIn)) for o in n.ops) and
                   any(unparse(c) == 'self._launchers' for c in n.comparators)
                   for n in walk(fl.node))
    fsrc = None
    for n in walk(fl.node):
        if isinstance(n, ast.For):
            fsrc = iter_source(fl, n.iter)[0]
    if not needs or tolerant or fsrc == 'self._launchers':
        rep.ok(rid, f, 'find_launcher does not index self._launchers by '
               'names of the order without a membership test', f.loc())
        return
    handlers = [n for n in g.nodes if n.kind == 'handler' and
                any(n.ast in t.handlers for t in cn.tries)]
    rebuilt = any(isinstance(n, ast.Assign) and n is not first and
                  any(unparse(t) == 'self._launch_order' for t in n.targets)
                  and 'self._launchers' in unparse(n.value)
                  for n in walk(f.node))
    if not cn.tries and not rebuilt:
        # creation failure is not caught: the method raises, nothing dangles
        rep.ok(rid, f, 'a failing launcher aborts _prepare_launch_methods',
               f.loc())
        return
    okr = rebuilt
    if not okr and handlers:
        rids = [n.id for n in removes]
        okr = bool(rids) and all(
            must_pass(g, h.id, head.id, rids) and
            must_pass(g, h.id, g.exit.id, rids) for h in handlers)
    rep.check(okr, rid, f,
              'a launcher which fails to initialise is removed from the order '
              'on every path through the handler',
              construct='launch_order:remove-failed',
              message='a launch method whose creation raised stays in '
              'self._launch_order but has no entry in self._launchers: '
              'find_launcher raises KeyError when it reaches that name',
              loc=f.loc(handlers[0].ast) if handlers else f.loc(),
              history='order [MPIRUN, FORK], mpirun not installed: every task '
              'fails with KeyError(\'MPIRUN\') although FORK accepts it')


# ------------------------------------------------------------------------------
# R09.5  node collections name every node once
#
# options whose value is one entry per *node* (a count of nodes, or a list
# which must name each node once).  Option semantics are flavour knowledge;
# the table is only used to decide that a plain per-slot list is the wrong
# thing to feed them - a collection the code itself de-duplicates is checked
# whatever option it feeds.
NODE_OPTS = re.compile(r'(--nodes|--nodelist|--nodefile|(?<![\w-])-N|'
                       r'(?<![\w-])-w)[ =]*$')

DISTINCT, ADJACENT, PER_SLOT = 'distinct', 'adjacent-only', 'per-slot'


def reads_place(e):
    return any(const_key(n) in PLACE_KEYS for n in walk(e, nested=True))


def single_def(f, name):
    vals = [n.value for n in walk(f.node, nested=True)
            if isinstance(n, ast.Assign) and
            any(isinstance(t, ast.Name) and t.id == name for t in n.targets)]
    return vals[0] if len(vals) == 1 else None


def is_sorted_seq(f, e, _seen=()):
    """e is a sequence in sorted order: sorted(..), or a local bound once to
    sorted(..) / on which .sort() is called"""
    if isinstance(e, ast.Call) and dotted(e.func) == 'sorted':
        return True
    if isinstance(e, ast.Name) and e.id not in _seen:
        for c in calls_in(f.node, nested=True):
            if isinstance(c.func, ast.Attribute) and c.func.attr == 'sort' \
                    and isinstance(c.func.value, ast.Name) and \
                    c.func.value.id == e.id:
                return True
        v = single_def(f, e.id)
        return v is not None and is_sorted_seq(f, v, _seen + (e.id,))
    return False


def groupby_call(e):
    return isinstance(e, ast.Call) and \
        dotted(e.func).split('.')[-1] == 'groupby' and e.args


def classify_nodes(f, e, _seen=()):
    """how the node collection built by expression e treats a node which
    occurs in several slots: DISTINCT (named once whatever the slot order),
    ADJACENT (named once per run of adjacent slots), PER_SLOT (once per slot),
    None (not recognised as a collection of nodes)"""
    if isinstance(e, (ast.SetComp, ast.DictComp, ast.Set)):
        return DISTINCT
    if isinstance(e, ast.Call):
        d = dotted(e.func)
        last = d.split('.')[-1]
        if d in ('set', 'frozenset') or last in ('fromkeys', 'unique',
                                                 'Counter'):
            return DISTINCT
        if groupby_call(e):
            return DISTINCT if is_sorted_seq(f, e.args[0]) else ADJACENT
        if d in ('sorted', 'list', 'tuple', 'reversed') and e.args:
            return classify_nodes(f, e.args[0], _seen)
        if isinstance(e.func, ast.Attribute) and e.func.attr in ('keys',
                                                                 'copy'):
            return classify_nodes(f, e.func.value, _seen)
        return None
    if isinstance(e, (ast.ListComp, ast.GeneratorExp)):
        it = e.generators[0].iter
        if groupby_call(it):
            return DISTINCT if is_sorted_seq(f, it.args[0]) else ADJACENT
        inner = classify_nodes(f, it, _seen)
        if inner in (DISTINCT, ADJACENT) and len(e.generators) == 1:
            return inner
        if any(g.ifs for g in e.generators):
            return None
        return PER_SLOT
    if isinstance(e, ast.Name) and e.id not in _seen:
        return classify_name(f, e.id, _seen + (e.id,))
    return None


def classify_name(f, name, _seen=(), defs_too=True):
    """classification of a local by the way it is built (defs_too=False: by
    the statements which fill it in place only, not by what it is assigned)"""
    g = cfg_of(f)
    smap = I.stmt_node_map(g)
    kinds = []
    defs = [n.value for n in walk(f.node, nested=True)
            if isinstance(n, ast.Assign) and
            any(isinstance(t, ast.Name) and t.id == name for t in n.targets)]
    empty_set = any(isinstance(v, ast.Call) and dotted(v.func) in
                    ('set', 'frozenset') and not v.args for v in defs)
    is_map = any((isinstance(v, ast.Dict) and not v.keys) or
                 (isinstance(v, ast.Call) and dotted(v.func).split('.')[-1] in
                  ('dict', 'defaultdict', 'OrderedDict', 'Counter'))
                 for v in defs)
    for v in defs if defs_too else ():
        if reads_place(v) or (isinstance(v, ast.Name)) or \
                reads_place_or_local(f, v):
            k = classify_nodes(f, v, _seen)
            if k:
                kinds.append(k)
    for n in walk(f.node, nested=True):
        # d[<node>] = .. / d[<node>] += ..
        t = None
        if isinstance(n, ast.Assign):
            t = [x for x in n.targets if isinstance(x, ast.Subscript)]
        elif isinstance(n, ast.AugAssign) and \
                isinstance(n.target, ast.Subscript):
            t = [n.target]
        for x in t or ():
            if isinstance(x.value, ast.Name) and x.value.id == name and \
                    reads_place_or_local(f, x.slice) and is_map:
                kinds.append(DISTINCT)
        if isinstance(n, ast.Call) and isinstance(n.func, ast.Attribute) and \
                isinstance(n.func.value, ast.Name) and \
                n.func.value.id == name and n.args and \
                reads_place_or_local(f, n.args[0]):
            if n.func.attr == 'add' and empty_set:
                kinds.append(DISTINCT)
            elif n.func.attr == 'append':
                cn = smap.get(id(n))
                guarded = False
                # appended per group of a groupby / per element of a
                # collection which is itself distinct (desugared
                # comprehension)
                via = None
                argnames = {x.id for x in walk(n.args[0])
                            if isinstance(x, ast.Name)}
                for lp in reversed(enclosing_loops(f, n)):
                    if set(stores_in_target(lp.target)) & argnames:
                        if groupby_call(lp.iter):
                            via = DISTINCT if is_sorted_seq(
                                f, lp.iter.args[0]) else ADJACENT
                        elif name not in _seen:
                            via = classify_nodes(f, lp.iter, _seen + (name,))
                            via = via if via in (DISTINCT, ADJACENT) else None
                        break
                if via:
                    kinds.append(via)
                    continue
                if cn is not None:
                    for tid, lab in guards(g, cn.id):
                        a = g.nodes[tid].ast
                        if isinstance(a, ast.Compare) and len(a.ops) == 1 and \
                                ((isinstance(a.ops[0], ast.NotIn) and
                                  lab == 'T') or
                                 (isinstance(a.ops[0], ast.In) and
                                  lab == 'F')) and \
                                unparse(a.left) == unparse(n.args[0]):
                            guarded = True
                kinds.append(DISTINCT if guarded else PER_SLOT)
    if not kinds:
        return None
    for k in (ADJACENT, PER_SLOT, DISTINCT):
        if k in kinds:
            return k


# {function: predicate(name)}: the local derives from a node name / index of
# the slots according to the dependence graph (set by r09_5 per function)
_PLACE_DERIVED = {}


def place_derived(f, name):
    pd = _PLACE_DERIVED.get(f.where)
    return bool(pd and pd(name))


def reads_place_or_local(f, e):
    """e is (computed from) a node name / index of a slot"""
    if reads_place(e):
        return True
    return any(isinstance(n, ast.Name) and place_derived(f, n.id)
               for n in walk(e, nested=True))


def enclosing_loops(f, node):
    """for statements / comprehension generators around `node`, innermost
    last"""
    out = []

    def rec(n, stack):
        if n is node:
            out.extend(stack)
            return True
        for c in ast.iter_child_nodes(n):
            st = stack
            if isinstance(n, ast.For) and c is not n.iter:
                st = stack + [n]
            if rec(c, st):
                return True
        return False
    rec(f.node, [])
    return out


def count_or_list_of(f, e, _seen=()):
    """the collection Y of `len(Y)` / `sep.join(Y)` in e (through locals)"""
    out = []
    if isinstance(e, ast.Call):
        if isinstance(e.func, ast.Name) and e.func.id == 'len' and e.args:
            out.append(e.args[0])
        elif isinstance(e.func, ast.Attribute) and e.func.attr == 'join' \
                and e.args:
            out.append(e.args[0])
    elif isinstance(e, ast.Name) and e.id not in _seen:
        for n in walk(f.node, nested=True):
            if isinstance(n, ast.Assign) and any(
                    isinstance(t, ast.Name) and t.id == e.id
                    for t in n.targets):
                out += count_or_list_of(f, n.value, _seen + (e.id,))
    return out


def fmt_placeholders(fmt):
    out = []
    pos = 0
    for m in re.finditer(r'%(?:\([^)]*\))?[-#0 +]*\d*(?:\.\d+)?[sdrfi]', fmt):
        out.append(fmt[pos:m.start()])
        pos = m.end()
    return out


def r09_5(prog, rep, classes, rid='R09.5', minimum=13, floor=5):
    rep.rule(rid, 'a collection of nodes which a launcher derives from the '
             'slots and which must name each node once (it is built by a '
             'de-duplicating construct, or feeds a node count / node list '
             'option) is distinct by construction: set, dict keys, '
             'dict.fromkeys, `not in` guarded append, groupby over a sorted '
             'sequence - whatever the order of the slots', minimum=minimum)
    total = 0

    class Col:
        """collects the constructs of one class: one obligation per class
        (so that the count does not depend on how many collections a launcher
        happens to build), one finding per offending construct"""
        def __init__(self):
            self.n, self.bad = 0, 0

        def check(self, cond, rid, where, what, **kw):
            self.n += 1
            if not cond:
                self.bad += 1
                rep.bad(rid, where, kw['construct'], kw['message'],
                        kw.get('loc'), history=kw.get('history'))

    for K in classes:
        f0 = prog.find_method(K, 'get_launch_cmds')
        col = Col()
        if f0 is None or always_raises(f0):
            rep.ok(rid, K, '%s: builds no command' % K.name)
            continue
        G = graph(prog, K, ['get_launch_cmds'])
        used = G.closure([('RET', f0.where), ('FILE', '')])
        for w in sorted(G.funcs):
            f = G.funcs[w]
            if not reads_place(f.node):
                continue
            rep.saw(f)
            seen = set()
            _PLACE_DERIVED[f.where] = place_pred(G, w)
            # (a) collections the code itself reduces to nodes
            names = set()
            for n in walk(f.node, nested=True):
                if isinstance(n, ast.Assign):
                    names |= {t.id for t in n.targets
                              if isinstance(t, ast.Name)}
            for name in sorted(names):
                k = classify_name(f, name)
                if k in (None, PER_SLOT):
                    continue
                seen.add(name)
                live = (w, name) in used
                col.check(k == DISTINCT or not live, rid, f,
                          '%s: node collection `%s` is distinct by '
                          'construction' % (K.name, name),
                          construct='%s:nodes:%s' % (K.name, name),
                          message='%s.%s builds `%s` from the node names of '
                          'the slots with itertools.groupby over an unsorted '
                          'sequence: only adjacent duplicates are merged, a '
                          'node whose slots are not listed next to each other '
                          'is named (and counted) several times in the '
                          'command' % (K.name, f.name, name),
                          loc=f.loc(),
                          history='4 ranks placed round robin on nodes a,b,a,b'
                          ': the command asks for 4 nodes and names a,b,a,b '
                          'although the placement spans 2 nodes')
            # groupby used without binding the result to a name
            for n in walk(f.node, nested=True):
                if not isinstance(n, (ast.For, ast.comprehension)):
                    continue
                if not groupby_call(n.iter) or not \
                        reads_place_or_local_seq(f, n.iter.args[0]):
                    continue
                tg = set(stores_in_target(n.target))
                if tg & seen:
                    continue
                owner = enclosing_assign_names(f, n)
                if owner & seen:
                    continue
                okg = is_sorted_seq(f, n.iter.args[0])
                live = any((w, x) in used for x in tg | owner) or \
                    not (tg | owner)
                col.check(okg or not live, rid, f,
                          '%s: groupby over the slots\' nodes runs on a '
                          'sorted sequence' % K.name,
                          construct='%s:groupby' % K.name,
                          message='%s.%s groups the node names of the slots '
                          'with itertools.groupby over an unsorted sequence: '
                          'a node whose slots are not adjacent forms several '
                          'groups and is named several times'
                          % (K.name, f.name), loc=f.loc(n.iter),
                          history='ranks placed on a,b,a: the command lists '
                          'a:1,b:1,a:1')
            # (b) node count / node list options
            for n in walk(f.node, nested=True):
                if not (isinstance(n, ast.BinOp) and isinstance(n.op, ast.Mod)
                        and isinstance(n.left, ast.Constant) and
                        isinstance(n.left.value, str)):
                    continue
                pre = fmt_placeholders(n.left.value)
                vals = n.right.elts if isinstance(n.right, ast.Tuple) \
                    else [n.right]
                if len(pre) != len(vals):
                    continue
                for txt, v in zip(pre, vals):
                    m = NODE_OPTS.search(txt)
                    if not m:
                        continue
                    for y in count_or_list_of(f, v):
                        k = classify_nodes(f, y)
                        if k is None:
                            continue
                        col.check(k == DISTINCT, rid, f,
                                  '%s: `%s` is fed by a collection which '
                                  'names each node once' % (K.name,
                                                            m.group(1)),
                                  construct='%s:%s' % (K.name, m.group(1)),
                                  message='%s.%s feeds `%s` from `%s`, which '
                                  'has one entry %s: a node which holds '
                                  'several ranks is counted / listed several '
                                  'times' % (K.name, f.name, m.group(1),
                                             short(y, 40),
                                             'per slot' if k == PER_SLOT else
                                             'per run of adjacent slots'),
                                  loc=f.loc(n),
                                  history='2 ranks on node a, 2 on node b '
                                  '(listed a,b,a,b): `%s` is computed for 4 '
                                  'nodes' % m.group(1))
        total += col.n
        if not col.bad:
            rep.ok(rid, f0, '%s: %d node collection(s) / node options derived '
                   'from the slots, all distinct by construction'
                   % (K.name, col.n), f0.loc())
    rep.stat('R09.5 constructs', total)
    if total < floor:
        raise AnalysisError('R09.5 recognised only %d node collections / node '
                            'options in all launchers (expected >= %d): the '
                            'recogniser no longer sees how the launchers '
                            'build their node lists' % (total, floor))


def reads_place_or_local_seq(f, e, _seen=()):
    if reads_place_or_local(f, e):
        return True
    if isinstance(e, ast.Call) and e.args:
        return reads_place_or_local_seq(f, e.args[0], _seen)
    if isinstance(e, ast.Name) and e.id not in _seen:
        v = single_def(f, e.id)
        return v is not None and reads_place_or_local_seq(f, v,
                                                           _seen + (e.id,))
    return False


def enclosing_assign_names(f, node):
    """names bound by the assignment whose value contains `node`"""
    for n in walk(f.node, nested=True):
        if isinstance(n, ast.Assign) and any(m is node for m in
                                             walk(n.value, nested=True)):
            out = set()
            for t in n.targets:
                out |= set(stores_in_target(t))
            return out
    return set()


# ------------------------------------------------------------------------------
# R09.6  launchers which name no node accept only the local node, exactly
#
INEXACT_CALLS = {'startswith', 'endswith', 'find', 'rfind', 'index', 'count',
                 'match', 'search', 'fnmatch', 'partition'}


def str_attr(prog, K, attr):
    """'str' / 'coll' / None: what self.<attr> holds, from its assignments"""
    kinds = set()
    for k in prog.mro(K):
        for m in k.methods.values():
            for n in walk(m.node, nested=True):
                tgt, val, ann = None, None, None
                if isinstance(n, ast.Assign):
                    tgt, val = n.targets, n.value
                elif isinstance(n, ast.AnnAssign):
                    tgt, val, ann = [n.target], n.value, n.annotation
                for t in tgt or ():
                    if not (isinstance(t, ast.Attribute) and
                            isinstance(t.value, ast.Name) and
                            t.value.id == 'self' and t.attr == attr):
                        continue
                    if ann is not None and unparse(ann) == 'str':
                        kinds.add('str')
                    elif isinstance(val, (ast.List, ast.Tuple, ast.Set,
                                          ast.ListComp, ast.SetComp)) or \
                            (isinstance(val, ast.Call) and dotted(val.func)
                             in ('set', 'list', 'tuple', 'frozenset')):
                        kinds.add('coll')
                    elif isinstance(val, (ast.JoinedStr, ast.BoolOp, ast.BinOp,
                                          ast.Constant)) and any(
                            isinstance(c, ast.Constant) and
                            isinstance(c.value, str)
                            for c in walk(val)):
                        kinds.add('str')
    if len(kinds) == 1:
        return kinds.pop()
    return None


def locality_edges(prog, K, f):
    """(exact: [(test id, label taken when the names are equal)],
        inexact: [test ast]) among the tests of f on the slot's node name"""
    g = cfg_of(f)
    d = PDeps(f.node)

    def placey(e):
        return any(x.startswith('@place') for x in d.expr_depends(e))

    exact, inexact = [], []
    for t in g.nodes:
        if t.kind != 'test':
            continue
        a = t.ast
        if isinstance(a, ast.Compare) and len(a.ops) == 1:
            l, r, op = a.left, a.comparators[0], a.ops[0]
            pl, pr = placey(l), placey(r)
            if not (pl or pr):
                continue
            if isinstance(op, (ast.Eq, ast.NotEq)):
                if pl and pr:
                    continue
                exact.append((t.id, 'T' if isinstance(op, ast.Eq) else 'F'))
            elif isinstance(op, (ast.In, ast.NotIn)):
                kind = None
                if pl and not pr:
                    if isinstance(r, (ast.List, ast.Tuple, ast.Set)):
                        kind = 'coll'
                    elif isinstance(r, ast.Constant) and \
                            isinstance(r.value, str):
                        kind = 'str'
                    elif isinstance(r, ast.Attribute) and \
                            isinstance(r.value, ast.Name) and \
                            r.value.id == 'self':
                        kind = str_attr(prog, K, r.attr)
                    elif isinstance(r, ast.Name):
                        v = single_def(f, r.id)
                        if isinstance(v, (ast.List, ast.Tuple, ast.Set)) or (
                                isinstance(v, ast.Call) and dotted(v.func) in
                                ('set', 'list', 'tuple', 'frozenset')):
                            kind = 'coll'
                    if kind is None:
                        raise AnalysisError(
                            'UNRECOGNISED-IDIOM %s: cannot tell whether `%s` '
                            'is a test against a collection of names or a '
                            'substring test' % (f.where, short(a, 60)))
                else:
                    kind = 'str'          # <something> in <node name>
                if kind == 'coll':
                    exact.append((t.id, 'T' if isinstance(op, ast.In)
                                  else 'F'))
                else:
                    inexact.append(a)
            else:
                inexact.append(a)
        elif isinstance(a, ast.Call) and isinstance(a.func, ast.Attribute) \
                and a.func.attr in INEXACT_CALLS and (
                    placey(a.func.value) or any(placey(x) for x in a.args)):
            inexact.append(a)
    return g, exact, inexact


def r09_6(prog, rep, classes, rid='R09.6', minimum=1):
    rep.rule(rid, 'a launcher whose command names no node (the exec script '
             'starts where the agent runs) accepts a task only after an exact '
             'comparison (==, !=, in / not in a collection of names) of the '
             'slot\'s node name with the local node name(s)', minimum=minimum)
    for K in classes:
        f = prog.find_method(K, 'get_launch_cmds')
        if f is None or always_raises(f) or K.name in DELEGATING or \
                not passes_through(f, exec_param(f)):
            continue
        cl = prog.find_method(K, 'can_launch')
        if cl is None or is_stub(cl):
            continue
        rep.saw(cl)
        g, exact, inexact = locality_edges(prog, K, cl)
        rets = [n for n in g.stmt_nodes() if n.kind == 'stmt' and
                isinstance(n.ast, ast.Return) and not refusing_return(n.ast)]
        r = g.reachable(g.entry.id, skip_edges=exact)
        leak = [n for n in rets if n.id in r]
        rep.check(not leak, rid, cl,
                  '%s.can_launch: every accepting return is reached only '
                  'through an exact match of the slot\'s node name with a '
                  'local name (%d exact tests)' % (K.name, len(exact)),
                  construct='%s:locality' % K.name,
                  message='%s.get_launch_cmds names no node, and '
                  '%s.can_launch accepts a task on a path which takes no '
                  'exact comparison of the slot\'s node name with the local '
                  'node name%s: a task placed on another node is accepted '
                  'and started on the agent node'
                  % (K.name, K.name,
                     ' (`%s` is a prefix / substring test, not equality)'
                     % short(inexact[0], 60) if inexact else ''),
                  loc=cl.loc(inexact[0]) if inexact else cl.loc(),
                  history='agent on node `nid0012`, task placed on node '
                  '`nid001`: the name test passes, the task is started by '
                  'FORK on nid0012 while its cores on nid001 stay reserved')


# ------------------------------------------------------------------------------
# R09.7  launcher selection does not depend on earlier tasks
#
# The launch order and the launcher table of the resource manager are
# configuration: they are set up once (_prepare_launch_methods) and only read
# afterwards.  Whatever is reachable from the per-task entry points must not
# change them - neither by a store, nor by a mutator call, nor through an
# object they alias (self._launch_order IS the list of the resource
# configuration), nor by handing them to a function which changes its argument.
#
SEL_ENTRIES = ('find_launcher', 'get_launcher')

# library functions which change their first argument in place
INPLACE_FUNCS = {'shuffle', 'heapify', 'heappush', 'heappop', 'heapreplace',
                 'heappushpop', 'insort', 'insort_left', 'insort_right'}

# wrappers which hand out the very elements of their argument
_ELEM_WRAPPERS = ('list', 'tuple', 'sorted', 'reversed', 'iter')


def _sub_key(sl):
    if isinstance(sl, ast.Constant) and isinstance(sl.value, (str, int)):
        return sl.value
    return '*'


def key_paths(e, env):
    """access paths (tuples of keys below a root) of the objects expression e
    may denote - the object itself, not a copy of it.  x.k, x['k'] and
    x.get('k') are the same step (configuration objects are dict-like with
    attribute access)."""
    if isinstance(e, ast.Name):
        if e.id == 'self':
            return {('self',)}
        return set(env.get(e.id, ()))
    if isinstance(e, ast.Attribute):
        return {p + (e.attr,) for p in key_paths(e.value, env)}
    if isinstance(e, ast.Subscript):
        if isinstance(e.slice, ast.Slice):
            return set()                                   # a copy
        k = _sub_key(e.slice)
        return {p + (k,) for p in key_paths(e.value, env)}
    if isinstance(e, ast.Call) and isinstance(e.func, ast.Attribute) and \
            e.func.attr in ('get', 'setdefault') and e.args:
        k = _sub_key(e.args[0])
        out = {p + (k,) for p in key_paths(e.func.value, env)}
        if len(e.args) > 1:
            out |= key_paths(e.args[1], env)
        return out
    if isinstance(e, ast.BoolOp):
        out = set()
        for v in e.values:
            out |= key_paths(v, env)
        return out
    if isinstance(e, ast.IfExp):
        return key_paths(e.body, env) | key_paths(e.orelse, env)
    if isinstance(e, ast.NamedExpr):
        return key_paths(e.value, env)
    return set()


def _elem_binds(target, it):
    """[(name, container expr)]: names a loop binds to elements of a container"""
    for _ in range(4):
        if isinstance(it, ast.Call) and isinstance(it.func, ast.Name) and \
                it.func.id in _ELEM_WRAPPERS and len(it.args) == 1:
            it = it.args[0]
        elif isinstance(it, ast.Subscript) and isinstance(it.slice, ast.Slice):
            it = it.value
        else:
            break
    second = None
    if isinstance(target, (ast.Tuple, ast.List)) and len(target.elts) == 2 \
            and isinstance(target.elts[1], ast.Name):
        second = target.elts[1].id
    if isinstance(it, ast.Call) and isinstance(it.func, ast.Name) and \
            it.func.id == 'enumerate' and it.args:
        return [(second, it.args[0])] if second else []
    if isinstance(it, ast.Call) and isinstance(it.func, ast.Attribute) and \
            not it.args:
        if it.func.attr == 'items':
            return [(second, it.func.value)] if second else []
        if it.func.attr == 'values' and isinstance(target, ast.Name):
            return [(target.id, it.func.value)]
        return []
    if isinstance(target, ast.Name):
        return [(target.id, it)]
    return []


def path_env(fnode, seed=None):
    """{local: key paths}: locals bound exactly once, to a path / an element of
    a path"""
    cnt, vals, elems = {}, [], []
    for n in walk(fnode, nested=True):
        if isinstance(n, ast.Assign):
            for t in n.targets:
                for x in stores_in_target(t):
                    cnt[x] = cnt.get(x, 0) + 1
                if isinstance(t, ast.Name):
                    vals.append((t.id, n.value))
        elif isinstance(n, ast.AnnAssign) and n.value is not None:
            for x in stores_in_target(n.target):
                cnt[x] = cnt.get(x, 0) + 1
            if isinstance(n.target, ast.Name):
                vals.append((n.target.id, n.value))
        elif isinstance(n, ast.NamedExpr):
            cnt[n.target.id] = cnt.get(n.target.id, 0) + 1
            vals.append((n.target.id, n.value))
        elif isinstance(n, ast.AugAssign):
            # (canonical form of `x = x + e`: x may be a new object afterwards)
            for x in stores_in_target(n.target):
                cnt[x] = cnt.get(x, 0) + 2
        elif isinstance(n, (ast.For, ast.comprehension)):
            for x in stores_in_target(n.target):
                cnt[x] = cnt.get(x, 0) + 1
            elems += _elem_binds(n.target, n.iter)
        elif isinstance(n, ast.withitem) and n.optional_vars is not None:
            for x in stores_in_target(n.optional_vars):
                cnt[x] = cnt.get(x, 0) + 2
    env = dict(seed or {})
    for x in env:
        cnt[x] = cnt.get(x, 0) + 1                  # parameters: bound on entry
    for _ in range(4):
        for name, v in vals:
            if cnt.get(name) == 1 and name not in (seed or {}):
                env[name] = key_paths(v, env)
        for name, c in elems:
            if cnt.get(name) == 1 and name not in (seed or {}):
                env[name] = {p + ('*',) for p in key_paths(c, env)}
    return {k: v for k, v in env.items() if v}


def object_writes(fnode, env):
    """[(kind, key paths of the object written INTO, paths of the slot that is
    rebound, target, stmt)] for every write below fnode.  A mutator call, a
    subscript store / del and an augmented assignment change the object; a
    plain attribute assignment rebinds the slot."""
    out = []
    for kind, target, stmt in launcher_stores(fnode):
        if isinstance(target, str):                      # setattr / delattr
            out.append((kind, set(), {('self', target)}, target, stmt))
        elif kind == 'mutate':
            out.append((kind, key_paths(target, env), set(), target, stmt))
        elif isinstance(target, ast.Subscript):
            out.append((kind, key_paths(target.value, env), set(), target,
                        stmt))
        elif kind == 'aug':
            p = key_paths(target, env)
            out.append((kind, p, p, target, stmt))
        else:
            out.append((kind, set(), key_paths(target, env), target, stmt))
    # (`alias += [..]` on a local alias is not counted: the canonical form of
    # the sources spells the harmless rebinding `alias = alias + [..]` the
    # same way)
    for n in walk(fnode, nested=True):
        if isinstance(n, ast.Call):
            d = dotted(n.func)
            if d and d.split('.')[-1] in INPLACE_FUNCS and n.args and \
                    d.split('.')[0] != 'self':
                out.append(('mutate', key_paths(n.args[0], env), set(),
                            n.args[0], n))
    return out


def show_path(p):
    out = p[0]
    for k in p[1:]:
        out += '.%s' % k if isinstance(k, str) and k.isidentifier() \
            else '[%r]' % (k,)
    return out


def selection_aliases(prog, K, attrs):
    """{path: attr}: objects of the configuration which a selection attribute
    is set to without copying, anywhere in the class"""
    out = {}
    for k in prog.mro(K):
        for m in k.methods.values():
            env = None
            for n in walk(m.node, nested=True):
                if not isinstance(n, (ast.Assign, ast.AnnAssign)) or \
                        n.value is None:
                    continue
                tg = n.targets if isinstance(n, ast.Assign) else [n.target]
                for t in tg:
                    if isinstance(t, ast.Attribute) and \
                            isinstance(t.value, ast.Name) and \
                            t.value.id == 'self' and t.attr in attrs:
                        if env is None:
                            env = path_env(m.node)
                        for p in key_paths(n.value, env):
                            if len(p) > 2 and p[0] == 'self':
                                out[p] = t.attr
    return out


def param_map(f, call, g):
    """[(parameter of g, argument expr)] of a resolved call"""
    params = list(g.params)
    via_obj = isinstance(call.func, ast.Attribute) and (
        (isinstance(call.func.value, ast.Name) and
         call.func.value.id in ('self', 'cls')) or
        isinstance(call.func.value, ast.Call))
    if via_obj and not is_static(g) and params:
        params = params[1:]
    out = []
    for i, a in enumerate(call.args):
        if isinstance(a, ast.Starred) or i >= len(params):
            break
        out.append((params[i], a))
    for k in call.keywords:
        if k.arg in params:
            out.append((k.arg, k.value))
    return out


def flow_sources(f, g, expr, node_id, _seen=None):
    """what the value of `expr`, evaluated at cfg node `node_id`, is computed
    from, following the definitions which reach that node: {'self.x',
    'param:p', 'global:n'}"""
    seen = set() if _seen is None else _seen
    out = set()
    params = set(f.params)
    for n in walk(expr, nested=True):
        if isinstance(n, ast.Attribute) and isinstance(n.value, ast.Name) \
                and n.value.id == 'self':
            out.add('self.' + n.attr)
        if not (isinstance(n, ast.Name) and isinstance(n.ctx, ast.Load)) or \
                n.id in ('self', 'cls'):
            continue
        defs = reaching_defs(g, n.id, node_id)
        if not defs:
            out.add(('param:' if n.id in params else 'global:') + n.id)
            continue
        if n.id in params:
            out.add('param:' + n.id)            # (may still hold the argument)
        for dn, v in defs:
            if (n.id, dn.id) in seen:
                continue
            seen.add((n.id, dn.id))
            if v is None and dn.kind == 'for':
                v = dn.ast.iter
            elif v is None and isinstance(dn.ast, (ast.Assign, ast.AugAssign)):
                v = dn.ast.value
                if isinstance(dn.ast, ast.AugAssign):
                    out |= flow_sources(f, g, dn.ast.target, dn.id, seen) \
                        if not isinstance(dn.ast.target, ast.Name) else set()
            if v is not None:
                out |= flow_sources(f, g, v, dn.id, seen)
    return out


def store_history(GV, f, kind, target, stmt, a, tasksrc):
    """history_dependence, and for plain stores confirmed along the
    definitions which really reach the store (a local which is re-used for
    something else later in the function does not count)"""
    why = history_dependence(GV, f, kind, target, stmt, a, tasksrc)
    if not why or kind != 'assign':
        return why
    g = cfg_of(f)
    cn = I.stmt_node_map(g).get(id(stmt))
    if cn is None:
        return why
    vals = []
    if isinstance(stmt, (ast.Assign, ast.AnnAssign)) and \
            stmt.value is not None:
        vals.append(stmt.value)
    elif isinstance(stmt, ast.Call):
        vals += stmt.args[2:]
    e = target
    while isinstance(e, (ast.Subscript, ast.Attribute)):
        if isinstance(e, ast.Subscript):
            vals.append(e.slice)
        e = e.value
    src_v, src_c = set(), set()
    for v in vals:
        src_v |= flow_sources(f, g, v, cn.id)
    for t in enclosing_tests(f.node, stmt):
        src_c |= flow_sources(f, g, t, cn.id)
    w = f.where

    def param_reaches(srcs, pred):
        for x in srcs:
            if x.startswith('param:'):
                q = (w, x[6:])
                if pred(q) or any(pred(y) for y in GV.closure([q])):
                    return True
        return False

    pre = 'self.' + a
    if pre in src_v or param_reaches(
            src_v, lambda q: q[0] == '' and (q[1] == pre or
                                             q[1].startswith(pre + '[') or
                                             q[1].startswith(pre + '.'))):
        return 'the stored value depends on the previous value'
    if param_reaches(src_v | src_c, lambda q: q in tasksrc):
        return 'what is stored depends on the task'
    return None


def r09_7(prog, rep, rid='R09.7', minimum=2):
    rep.rule(rid, 'launcher selection is history independent: nothing '
             'reachable from ResourceManager.find_launcher / get_launcher '
             'changes the launch order or the launcher table (store, mutator '
             'call, write through an alias such as the configured order list, '
             'or a callee which changes the argument it is handed)',
             minimum=minimum)
    base = prog.cls(*RM)
    done = set()
    for K in [base] + [k for k in prog.subclasses(base, strict=True)]:
        G = graph(prog, K, SEL_ENTRIES, implicit=True, control=True)
        sig = frozenset(G.funcs)
        if not sig or sig in done:
            continue
        done.add(sig)
        GV = graph(prog, K, SEL_ENTRIES, implicit=False, control=False)
        sinks, tasksrc = [], set()
        for q in SEL_ENTRIES:
            f = prog.find_method(K, q)
            if f is not None:
                sinks.append(('RET', f.where))
                tasksrc |= {(f.where, p) for p in f.params
                            if p not in ('self', 'cls')}
        attrs = {l[5:].split('[')[0].split('.')[0]
                 for w, l in G.closure(sinks)
                 if w == '' and l.startswith('self.')}
        if not attrs:
            raise AnalysisError('UNRECOGNISED-IDIOM %s: the launcher selection '
                                'reads no attribute of the resource manager'
                                % K.name)
        state = {('self', a): a for a in attrs}
        alias = selection_aliases(prog, K, attrs)
        rep.stat('R09.7 selection attributes', len(attrs))
        rep.stat('R09.7 aliased configuration objects', len(alias))
        for w in sorted(G.funcs):
            f = G.funcs[w]
            rep.saw(f)
            env = path_env(f.node)
            hits = {}

            def hit(p, kind, target, stmt, why):
                a = state.get(p) or alias.get(p)
                what = 'self.%s' % a if p in state else \
                    '%s (the object self.%s is set to)' % (show_path(p), a)
                hits.setdefault(a, []).append((what, stmt, why))

            for kind, objs, slots_, target, stmt in object_writes(f.node, env):
                for p in sorted(objs, key=repr):
                    if p not in state and p not in alias:
                        continue
                    if kind == 'assign':
                        # an element is (re)placed: harmless if it is set from
                        # configuration only (lazy creation of a launcher)
                        why = store_history(
                            GV, f, kind, target, stmt,
                            state.get(p) or alias.get(p), tasksrc)
                        if not why:
                            continue
                        why = 'an element is replaced, ' + why
                    else:
                        why = 'changed in place'
                    hit(p, kind, target, stmt, why)
                for p in sorted(slots_, key=repr):
                    if p not in state:
                        continue
                    why = store_history(GV, f, kind, target, stmt,
                                        state[p], tasksrc)
                    if why:
                        hit(p, kind, target, stmt, why)
            # the state handed to a callee which changes its argument
            for c in calls_in(f.node, nested=True):
                g = prog.resolve_call(f, c, K)
                if g is None:
                    continue
                for pname, arg in param_map(f, c, g):
                    ps = [p for p in key_paths(arg, env)
                          if p in state or p in alias]
                    if not ps:
                        continue
                    genv = path_env(g.node, seed={pname: {('@arg',)}})
                    for kind, objs, _s, target, stmt in object_writes(g.node,
                                                                      genv):
                        if ('@arg',) in objs:
                            hit(ps[0], 'mutate', arg, c,
                                '%s changes its argument `%s` in place (`%s`)'
                                % (g.qual, pname, short(stmt, 40)))
                            break
            if not hits:
                rep.ok(rid, f, '%s: %s does not change the selection state '
                       '(%s)' % (K.name, f.qual, ', '.join(
                           'self.' + a for a in sorted(attrs))), f.loc())
                continue
            for a, hs in sorted(hits.items()):
                what, stmt, why = hs[0]
                rep.bad(rid, f, 'self.%s' % a,
                        '%s.%s changes %s (`%s`%s: %s), which decides the '
                        'launcher a task gets: the selection is no longer a '
                        'function of the configured order and the task at '
                        'hand - the launcher, and with it the command, of a '
                        'task depends on the tasks handled before it'
                        % (K.name, f.name, what, short(stmt, 60),
                           ', %d writes' % len(hs) if len(hs) > 1 else '',
                           why), f.loc(stmt),
                        history='order [FORK, MPIRUN]: task A (2 ranks) is '
                        'refused by FORK and served by MPIRUN; %s leaves '
                        'self.%s changed; task B (1 rank on the agent node), '
                        'which a fresh resource manager starts with FORK, is '
                        'now started by another launcher / another command '
                        'than without A before it' % (f.name, a))


# ------------------------------------------------------------------------------
# R09.8  the rank count of a command
#
# options whose value is the number of processes to start (flavour knowledge,
# like NODE_OPTS; only used to find the value - what is decided is the shape
# of that value)
RANK_OPTS = re.compile(r'(?<![\w-])(--ntasks|--np|-np|-n)[ =]*$')

_NUM_WRAPPERS = {'int', 'float', 'round', 'abs', 'math.ceil', 'math.floor',
                 'ceil', 'floor', 'math.trunc'}


# on the way of leaves(): the leaf is a default / a bound (`x or 1`, max(1, x)),
# not the value
SOFT = 'soft'


def defs_of(f, name):
    return [n.value for n in walk(f.node, nested=True)
            if isinstance(n, ast.Assign) and
            any(isinstance(t, ast.Name) and t.id == name for t in n.targets)]


def leaves(f, e, _seen=(), wrappers=True):
    """the expressions a numeric value may come from: through locals (every
    definition), conditional expressions, `or` defaults, max()/min() and
    numeric wrappers.  [(leaf expr, [nodes passed on the way])]"""
    out = []

    def rec(e, seen, via):
        if isinstance(e, ast.Name) and e.id not in seen:
            ds = [n for n in walk(f.node, nested=True)
                  if isinstance(n, ast.Assign) and
                  any(isinstance(t, ast.Name) and t.id == e.id
                      for t in n.targets)]
            if ds:
                for n in ds:
                    rec(n.value, seen + (e.id,), via + [n])
                return
        if isinstance(e, ast.IfExp):
            rec(e.body, seen, via + [('ifexp', e, True)])
            rec(e.orelse, seen, via + [('ifexp', e, False)])
            return
        if isinstance(e, ast.BoolOp):
            for v in e.values:
                rec(v, seen, via + [SOFT])
            return
        if isinstance(e, ast.Call) and wrappers:
            d = dotted(e.func)
            if d in _NUM_WRAPPERS and len(e.args) >= 1:
                rec(e.args[0], seen, via)
                return
            if d in ('max', 'min') and e.args:
                for a in e.args:
                    rec(a, seen, via + [SOFT])
                return
        out.append((e, via))
    rec(e, tuple(_seen), [])
    return out


def node_kind(f, e):
    """DISTINCT / ADJACENT / PER_SLOT for a collection of nodes which derives
    from the placement, else None"""
    if isinstance(e, ast.Name):
        if not place_derived(f, e.id):
            return None
        return classify_name(f, e.id, (e.id,))
    if not reads_place_or_local(f, e):
        return None
    return classify_nodes(f, e)


def cfg_node_of(f, node):
    """cfg node of the statement which evaluates `node`"""
    g = cfg_of(f)
    smap = I.stmt_node_map(g)
    cn = smap.get(id(node))
    if cn is None:
        st = enclosing_simple_stmt(f.node, node)
        if st is not None:
            cn = smap.get(id(st))
            if cn is None:
                for m in walk(st, nested=True):
                    cn = smap.get(id(m))
                    if cn is not None:
                        break
    return cn


def _is_empty_init(v):
    return (isinstance(v, (ast.List, ast.Dict, ast.Set, ast.Tuple)) and
            not getattr(v, 'elts', getattr(v, 'keys', None))) or \
        (isinstance(v, ast.Call) and not v.args and not v.keywords and
         (dotted(v.func) or '').split('.')[-1] in (
             'list', 'dict', 'set', 'OrderedDict')) or \
        (isinstance(v, ast.Call) and (dotted(v.func) or '').split('.')[-1] in
         ('defaultdict', 'Counter') and
         not any(reads_place(a) for a in v.args))


def site_kind(f, e, at, _seen=None):
    """node_kind of collection `e` as it is when the statement at cfg node
    `at` runs: a name is classified by the definitions which reach that
    statement (a list which is de-duplicated and re-bound to its own name is
    per-slot before and distinct after)"""
    seen = set() if _seen is None else _seen
    for _ in range(4):
        if isinstance(e, ast.Call) and isinstance(e.func, ast.Name) and \
                e.func.id in ('list', 'tuple', 'sorted', 'reversed') and \
                len(e.args) >= 1:
            e = e.args[0]
        elif isinstance(e, ast.Call) and isinstance(e.func, ast.Attribute) \
                and e.func.attr in ('keys', 'copy') and not e.args:
            e = e.func.value
        else:
            break
    if not isinstance(e, ast.Name) or at is None:
        return node_kind(f, e)
    if not place_derived(f, e.id):
        return None
    g = cfg_of(f)
    defs = reaching_defs(g, e.id, at)
    if not defs:
        return node_kind(f, e)
    kinds = []
    for dn, v in defs:
        if (e.id, dn.id) in seen:
            continue
        seen.add((e.id, dn.id))
        if v is None:
            kinds.append(None)
        elif _is_empty_init(v):
            k = classify_name(f, e.id, (e.id,), defs_too=False)
            if k is not None:           # (never filled: stays empty, neutral)
                kinds.append(k)
        else:
            kinds.append(site_kind(f, v, dn.id, seen))
    if not kinds:
        return None
    for k in (ADJACENT, PER_SLOT):
        if k in kinds:
            return k
    return DISTINCT if all(k == DISTINCT for k in kinds) else None


def is_len(e):
    return isinstance(e, ast.Call) and isinstance(e.func, ast.Name) and \
        e.func.id == 'len' and len(e.args) == 1


def counts_nodes(f, e):
    """e is the number of distinct nodes of the placement: the collection it
    is the length of, or None"""
    for l, _ in leaves(f, e):
        if is_len(l):
            cn = cfg_node_of(f, l)
            if site_kind(f, l.args[0], cn.id if cn else None) == DISTINCT:
                return l.args[0]
    return None


def counts_ranks(f, e):
    """e contains the number of ranks / slots of the task"""
    for l, _ in leaves(f, e):
        for n in walk(l, nested=True):
            if const_key(n) == 'ranks':
                return True
            if is_len(n):
                a = n.args[0]
                cn = cfg_node_of(f, n)
                if slots_expr(f, a) or site_kind(
                        f, a, cn.id if cn else None) in (PER_SLOT, ADJACENT):
                    return True
            if isinstance(n, ast.Call) and dotted(n.func) == 'sum' and n.args \
                    and any(isinstance(c, ast.Call) and
                            isinstance(c.func, ast.Attribute) and
                            c.func.attr == 'values'
                            for c in walk(n.args[0], nested=True)):
                return True
            if isinstance(n, ast.Name) and n is not l and \
                    counts_ranks_name(f, n.id):
                return True
    return False


def counts_ranks_name(f, name, _seen=()):
    if name in _seen:
        return False
    return any(count_expr(f, v) for v in defs_of(f, name))


def quotients(fnode):
    """[(node, dividend, divisor)]: a / b, a // b, divmod(a, b)"""
    for n in walk(fnode, nested=True):
        if isinstance(n, ast.BinOp) and isinstance(n.op, (ast.Div,
                                                           ast.FloorDiv)):
            yield n, n.left, n.right
        elif isinstance(n, ast.Call) and dotted(n.func) == 'divmod' and \
                len(n.args) == 2:
            yield n, n.args[0], n.args[1]


def enclosing_simple_stmt(fnode, node):
    """innermost statement which contains `node` in one of its expressions"""
    best = None
    for s in walk(fnode, nested=True):
        if not isinstance(s, ast.stmt):
            continue
        if isinstance(s, (ast.If, ast.While)):
            roots = [s.test]
        elif isinstance(s, ast.For):
            roots = [s.iter]
        elif isinstance(s, (ast.FunctionDef, ast.AsyncFunctionDef,
                            ast.ClassDef, ast.Try, ast.With)):
            continue
        else:
            roots = [s]
        for r in roots:
            if any(m is node for m in walk(r, nested=True)):
                best = s
    return best


def value_flows(used, w, f, node):
    """the value computed at `node` flows (by value) into the command"""
    s = enclosing_simple_stmt(f.node, node)
    if s is None or isinstance(s, (ast.If, ast.While, ast.For, ast.Assert)):
        return False
    if isinstance(s, ast.Return):
        return ('RET', w) in used
    names = []
    if isinstance(s, ast.Assign):
        for t in s.targets:
            names += stores_in_target(t)
            if isinstance(t, (ast.Subscript, ast.Attribute)):
                l = Deps.loc(t)
                if l:
                    names.append(l)
    elif isinstance(s, (ast.AugAssign, ast.AnnAssign)):
        names += stores_in_target(s.target)
    elif isinstance(s, ast.Expr) and isinstance(s.value, ast.Call):
        c = s.value
        if isinstance(c.func, ast.Attribute) and (
                c.func.attr in ('write', 'writelines') or
                call_name(c) in FILE_WRITERS):
            return True
        if isinstance(c.func, ast.Attribute) and c.func.attr in I.MUTATING:
            l = Deps.loc(c.func.value)
            if l:
                names.append(l)
    return any((w, n) in used for n in names)


def format_sites(fnode):
    """[(text in front of the value, value expr, node)] of the string
    formatting below fnode: '..%d..' % v, f'..{v}..', '..{}..'.format(v)"""
    for n in walk(fnode, nested=True):
        if isinstance(n, ast.BinOp) and isinstance(n.op, ast.Mod) and \
                isinstance(n.left, ast.Constant) and \
                isinstance(n.left.value, str):
            pre = fmt_placeholders(n.left.value)
            vals = n.right.elts if isinstance(n.right, ast.Tuple) \
                else [n.right]
            if len(pre) == len(vals):
                for txt, v in zip(pre, vals):
                    yield txt, v, n
        elif isinstance(n, ast.JoinedStr):
            txt = ''
            for v in n.values:
                if isinstance(v, ast.Constant) and isinstance(v.value, str):
                    txt += v.value
                elif isinstance(v, ast.FormattedValue):
                    yield txt, v.value, n
                    txt = ''
        elif isinstance(n, ast.Call) and isinstance(n.func, ast.Attribute) \
                and n.func.attr == 'format' and \
                isinstance(n.func.value, ast.Constant) and \
                isinstance(n.func.value.value, str) and not n.keywords:
            parts = re.split(r'\{(?::[^}]*)?\}', n.func.value.value)
            if len(parts) == len(n.args) + 1 and \
                    not re.search(r'\{[^}]', ''.join(parts)):
                for txt, v in zip(parts, n.args):
                    yield txt, v, n


def stable_text(f, e, _seen=()):
    """text of a test with once-assigned locals replaced by what they hold, or
    None if something the test reads is written in the function"""
    e2 = e
    if isinstance(e, ast.Name) and e.id not in _seen:
        ds = defs_of(f, e.id)
        nstores = sum(1 for n in walk(f.node, nested=True)
                      if isinstance(n, ast.Name) and n.id == e.id and
                      isinstance(n.ctx, (ast.Store, ast.Del)))
        if len(ds) == 1 and nstores == 1:
            return stable_text(f, ds[0], _seen + (e.id,))
        if nstores:
            return None
    for n in walk(e2, nested=True):
        if isinstance(n, ast.Name) and isinstance(n.ctx, ast.Load) and \
                n is not e2:
            nstores = sum(1 for m in walk(f.node, nested=True)
                          if isinstance(m, ast.Name) and m.id == n.id and
                          isinstance(m.ctx, (ast.Store, ast.Del)))
            if nstores > 1:
                return None
    for kind, target, stmt in launcher_stores(f.node):
        a = target if isinstance(target, str) else self_attr_of(target, {})
        if a and any(isinstance(n, ast.Attribute) and n.attr == a and
                     isinstance(n.value, ast.Name) and n.value.id == 'self'
                     for n in walk(e2, nested=True)):
            return None
    return unparse(e2)


def atom_conds(f, test, pol):
    """{(text, polarity)} which hold when `test` evaluates to `pol`"""
    if isinstance(test, ast.UnaryOp) and isinstance(test.op, ast.Not):
        return atom_conds(f, test.operand, not pol)
    if isinstance(test, ast.BoolOp):
        if isinstance(test.op, ast.And) == pol:
            out = set()
            for v in test.values:
                out |= atom_conds(f, v, pol)
            return out
        return set()
    if isinstance(test, ast.Name):
        ds = defs_of(f, test.id)
        if len(ds) == 1 and isinstance(ds[0], (ast.UnaryOp, ast.BoolOp)) and \
                stable_text(f, test) is not None:
            return atom_conds(f, ds[0], pol)
    t = stable_text(f, test)
    return {(t, pol)} if t is not None else set()


def conds_at(f, node, via=()):
    """{(test text, polarity)}: configuration tests which hold whenever the
    expression `node` is evaluated (control dependence of its statement plus
    the conditional expressions around it), and on the way `via` of leaves()"""
    out = set()
    g = cfg_of(f)
    smap = I.stmt_node_map(g)
    cn = smap.get(id(node))
    if cn is None:
        s = enclosing_simple_stmt(f.node, node)
        cn = smap.get(id(s)) if s is not None else None
        if cn is None and s is not None:
            for m in walk(s, nested=True):
                cn = smap.get(id(m))
                if cn is not None:
                    break
    if cn is not None:
        for tid, lab in guards(g, cn.id):
            out |= atom_conds(f, g.nodes[tid].ast, lab == 'T')
    # conditional expressions around the node
    s = enclosing_simple_stmt(f.node, node)
    if s is not None:
        def rec(n, acc):
            if n is node:
                out.update(acc)
                return True
            for c in ast.iter_child_nodes(n):
                a = acc
                if isinstance(n, ast.IfExp):
                    if c is n.body:
                        a = acc | atom_conds(f, n.test, True)
                    elif c is n.orelse:
                        a = acc | atom_conds(f, n.test, False)
                if rec(c, a):
                    return True
            return False
        rec(s, set())
    for v in via:
        if v is SOFT:
            continue
        if isinstance(v, tuple):
            out |= atom_conds(f, v[1].test, v[2])
        else:
            out |= conds_at(f, v.value)
    return out


def compatible(c1, c2):
    return not any((t, not p) in c2 for t, p in c1)


def plain_node_lists(f):
    """[(site, collection expr)]: collections whose elements are written into
    the command as they are: sep.join(X), a host file writer, write()"""
    for c in calls_in(f.node, nested=True):
        args = []
        if isinstance(c.func, ast.Attribute) and c.func.attr == 'join' and \
                len(c.args) == 1:
            args = [c.args[0]]
        elif call_name(c) in FILE_WRITERS:
            args = list(c.args) + [k.value for k in c.keywords]
        for a in args:
            yield c, a


def distinct_sources(f, e, _seen=()):
    """[(conds)] one entry for every way the elements of collection `e` come
    from a de-duplicated collection of the placement's nodes and nothing else
    (no per-node count travels with them)"""
    out = []
    for _ in range(6):
        if isinstance(e, ast.Call) and isinstance(e.func, ast.Name) and \
                e.func.id in _ELEM_WRAPPERS and len(e.args) >= 1:
            e = e.args[0]
        elif isinstance(e, ast.Call) and isinstance(e.func, ast.Attribute) \
                and e.func.attr in ('keys', 'copy') and not e.args:
            e = e.func.value
        elif isinstance(e, (ast.ListComp, ast.GeneratorExp, ast.SetComp)) \
                and len(e.generators) == 1:
            tg = set(stores_in_target(e.generators[0].target))
            free = {n.id for n in walk(e.elt, nested=True)
                    if isinstance(n, ast.Name) and
                    isinstance(n.ctx, ast.Load)} - tg
            if any(defs_of(f, x) or place_derived(f, x) for x in free):
                return out          # something else travels with the names
            if len(tg) != 1:
                return out
            e = e.generators[0].iter
        else:
            break
    if isinstance(e, ast.Name):
        if e.id in _seen:
            return out
        ds = [n for n in walk(f.node, nested=True)
              if isinstance(n, ast.Assign) and
              any(isinstance(t, ast.Name) and t.id == e.id
                  for t in n.targets)]
        direct = False
        for n in ds:
            v = n.value
            if isinstance(v, ast.Name) or not reads_place_or_local(f, v):
                sub = distinct_sources(f, v, _seen + (e.id,)) \
                    if isinstance(v, ast.Name) else []
            else:
                sub = distinct_sources(f, v, _seen + (e.id,))
            for c in sub:
                direct = True
                out.append(c | conds_at(f, v))
        if not direct and place_derived(f, e.id) and \
                classify_name(f, e.id, (e.id,)) == DISTINCT:
            # built in place: s.add(node) / d[node] = .. / guarded append
            out.append(set())
        return out
    if reads_place_or_local(f, e) and classify_nodes(f, e) == DISTINCT:
        out.append(set())
    return out


def multiplicity_guard(f):
    """(text of) a test of the function which may refuse placements with
    several ranks on a node / uneven placements: the rule cannot tell what is
    left"""
    for n in walk(f.node, nested=True):
        t = None
        if isinstance(n, ast.Assert):
            t = n.test
        elif isinstance(n, ast.If) and any(isinstance(m, ast.Raise)
                                           for m in walk(n)):
            t = n.test
        if t is None:
            continue
        for m in walk(t, nested=True):
            if isinstance(m, ast.Call) and (
                    dotted(m.func) in ('set', 'frozenset', 'Counter',
                                       'collections.Counter') or
                    (isinstance(m.func, ast.Attribute) and
                     m.func.attr in ('values', 'count'))) and \
                    reads_place_or_local(f, m):
                return short(t, 50)
            if isinstance(m, ast.Name) and place_derived(f, m.id) and \
                    classify_name(f, m.id, (m.id,)) == DISTINCT:
                return short(t, 50)
    return None


def refuses_by_multiplicity(prog, K):
    """can_launch (with its self callees) looks at the nodes of the slots and
    de-duplicates / counts something: it may refuse the placements a
    simplified command cannot express"""
    funcs, _ = reach(prog, K, ['can_launch'])
    for f in funcs.values():
        if not reads_place(f.node):
            continue
        for n in walk(f.node, nested=True):
            if isinstance(n, (ast.SetComp, ast.DictComp)):
                return f
            if isinstance(n, ast.Call):
                d = dotted(n.func) or ''
                if d.split('.')[-1] in ('set', 'frozenset', 'Counter',
                                        'fromkeys', 'groupby', 'count',
                                        'values', 'defaultdict'):
                    return f
    return None


# launchers whose flavour distributes a total rank count over a plain node
# list by itself (documented under `undecided`): the command cannot express an
# uneven placement at all, which rule (d) would report on today's tree.
TOTAL_ONLY = {'Srun': 'srun gets --ntasks <total> and --nodelist / --nodefile '
                      'with every node once: slurm distributes the ranks over '
                      'the nodes itself (block distribution)'}

_NOVAL = object()


def _const_eval(e, env):
    """value of a test when the names of env hold the given constants; _NOVAL
    when it cannot be told"""
    if isinstance(e, ast.Constant):
        return e.value
    if isinstance(e, ast.Name):
        return env.get(e.id, _NOVAL)
    if isinstance(e, ast.UnaryOp) and isinstance(e.op, ast.Not):
        v = _const_eval(e.operand, env)
        return _NOVAL if v is _NOVAL else (not v)
    if isinstance(e, (ast.Tuple, ast.List, ast.Set)):
        vs = [_const_eval(x, env) for x in e.elts]
        return _NOVAL if any(v is _NOVAL for v in vs) else tuple(vs)
    if isinstance(e, ast.BoolOp):
        vs = [_const_eval(x, env) for x in e.values]
        if isinstance(e.op, ast.And):
            if any(v is not _NOVAL and not v for v in vs):
                return False
            return _NOVAL if any(v is _NOVAL for v in vs) else True
        if any(v is not _NOVAL and v for v in vs):
            return True
        return _NOVAL if any(v is _NOVAL for v in vs) else False
    if isinstance(e, ast.Compare) and len(e.ops) == 1:
        l = _const_eval(e.left, env)
        r = _const_eval(e.comparators[0], env)
        if l is _NOVAL or r is _NOVAL:
            return _NOVAL
        op = e.ops[0]
        try:
            if type(op) in _OPS:
                return _OPS[type(op)](l, r)
            if isinstance(op, ast.In):
                return l in r
            if isinstance(op, ast.NotIn):
                return l not in r
            if isinstance(op, ast.Is):
                return l is r or (l == r and type(l) is type(r))
            if isinstance(op, ast.IsNot):
                return not (l is r or (l == r and type(l) is type(r)))
        except TypeError:
            return _NOVAL
    return _NOVAL


def const_actuals(caller, call, callee):
    """{parameter of callee: constant} for the parameters which get a constant
    at this call (literally, through a once-bound local, or by default)"""
    env = {}
    a = callee.node.args
    pos = a.posonlyargs + a.args
    for p, dflt in zip(pos[len(pos) - len(a.defaults):], a.defaults):
        if isinstance(dflt, ast.Constant):
            env[p.arg] = dflt.value
    for p, dflt in zip(a.kwonlyargs, a.kw_defaults):
        if isinstance(dflt, ast.Constant):
            env[p.arg] = dflt.value
    for p, v in param_map(caller, call, callee):
        if isinstance(v, ast.Name):
            o = _once(caller, v.id)
            v = o if o is not None else v
        if isinstance(v, ast.Constant):
            env[p] = v.value
        else:
            env.pop(p, None)
    if any(isinstance(x, ast.Starred) for x in call.args) or \
            any(k.arg is None for k in call.keywords):
        return {}
    return env


def distinct_writes(used, f):
    """[(site, conds)]: a collection which names every node of the placement
    once - and nothing with it - goes into the command / a file of it"""
    out = []
    for site, coll in plain_node_lists(f):
        if not value_flows(used, f.where, f, site):
            continue
        cs = conds_at(f, site)
        for c2 in distinct_sources(f, coll):
            out.append((site, cs | c2))
    return out


def lift_conds(G, f0, f, conds, depth=3):
    """the condition sets, in terms of get_launch_cmds `f0`, under which the
    conditions `conds` of function f hold: tests on parameters of f are decided
    with the constants of each call"""
    if f.where == f0.where:
        return [(set(conds), None)]
    if depth == 0:
        return []
    out = []
    params = set(f.params)
    for caller, call, callee in G.calls:
        if callee.where != f.where:
            continue
        env = const_actuals(caller, call, f)
        rest, feasible = set(), True
        for text, pol in conds:
            try:
                e = ast.parse(text, mode='eval').body
            except SyntaxError:
                continue
            names = {n.id for n in ast.walk(e) if isinstance(n, ast.Name)}
            if not names & params:
                if names <= {'self'}:
                    rest.add((text, pol))          # configuration: same object
                continue
            v = _const_eval(e, env)
            if v is _NOVAL:
                raise AnalysisError(
                    'UNRECOGNISED-IDIOM %s: `%s` of %s decides what the host '
                    'file holds and the call `%s` does not pass a constant'
                    % (caller.where, text, f.qual, short(call, 50)))
            if bool(v) != pol:
                feasible = False
                break
        if not feasible:
            continue
        for up, _ in lift_conds(G, f0, caller, conds_at(caller, call),
                                depth - 1):
            out.append((up | rest, call))
    return out


_COUNT_ONLY = {'len', 'sum', 'str', 'int', 'float', 'set', 'frozenset',
               'sorted', 'list', 'tuple', 'repr'}


def multiplicity_carriers(prog, K, G, f0, writer):
    """[(node, conds)]: values of the command of f0 which may tell how many
    ranks go to which node - liberal: any call on something of the slots other
    than len() / sum() / a re-packing, a per-slot collection written as it is,
    a per-node count; not the writer of the node list itself"""
    w0 = f0.where
    out = []

    def from_slots(e):
        for n in walk(e, nested=True):
            if const_key(n) in ('slots',) + PLACE_KEYS:
                return True
            if isinstance(n, ast.Name) and isinstance(n.ctx, ast.Load) and \
                    n.id not in ('self', 'cls') and (
                        place_derived(f0, n.id) or
                        G.from_placement(w0, n.id)):
                return True
        return False

    for txt, v, site in format_sites(f0.node):
        for l, via in leaves(f0, v):
            ok = False
            if isinstance(l, ast.Call):
                d = dotted(l.func) or ''
                h = prog.resolve_call(f0, l, K)
                if h is not None and h.where == writer.where:
                    ok = False
                elif d in _COUNT_ONLY:
                    ok = False
                elif isinstance(l.func, ast.Attribute) and \
                        l.func.attr == 'join' and len(l.args) == 1:
                    cn = cfg_node_of(f0, l)
                    k = site_kind(f0, l.args[0], cn.id if cn else None)
                    ok = k in (PER_SLOT, ADJACENT) or (
                        k is None and from_slots(l.args[0]) and
                        not distinct_sources(f0, l.args[0]))
                else:
                    ok = from_slots(l)
            elif isinstance(l, ast.Subscript):
                ok = from_slots(l) and not has_key_below(l, 'ranks')
            if ok:
                out.append((l, conds_at(f0, l, via) | conds_at(f0, site)))
    for site, coll in plain_node_lists(f0):
        cn = cfg_node_of(f0, site)
        if site_kind(f0, coll, cn.id if cn else None) in (PER_SLOT, ADJACENT):
            out.append((site, conds_at(f0, site)))
    return out


def total_only(prog, rep, rid, K, G, used, f0):
    """rule (d) of R09.8; returns the number of findings"""
    nbad = 0
    contexts = []
    for w in sorted(G.funcs):
        f = G.funcs[w]
        for site, conds in distinct_writes(used, f):
            for up, call in lift_conds(G, f0, f, conds):
                contexts.append((f, site, up, call))
    if not contexts:
        return 0
    totals = []
    for txt, v, site in format_sites(f0.node):
        m = RANK_OPTS.search(txt)
        if m and counts_ranks(f0, v) and counts_nodes(f0, v) is None:
            totals.append((m.group(1), site, conds_at(f0, site)))
    if not totals:
        return 0
    if K.name in TOTAL_ONLY:
        rep.info(rid, f0, '%s: total rank count with a node list which names '
                 'every node once - not reported: %s'
                 % (K.name, TOTAL_ONLY[K.name]), f0.loc())
        return 0
    reported = set()
    for f, site, up, call in contexts:
        tot = [t for t in totals if compatible(up, t[2])]
        if not tot:
            continue
        carriers = [c for c in multiplicity_carriers(prog, K, G, f0, f)
                    if compatible(up, c[1]) and compatible(c[1], up)]
        if carriers:
            continue
        guard = multiplicity_guard(f0)
        rf = refuses_by_multiplicity(prog, K)
        if guard is not None or rf is not None:
            raise AnalysisError(
                'UNRECOGNISED-IDIOM %s: host list without rank counts next to '
                'a total rank count, and `%s` tests the multiplicity of the '
                'nodes' % (f0.where, guard or rf.qual))
        at = call if call is not None else site
        key = (f.where, unparse(at))
        if key in reported:
            continue
        reported.add(key)
        nbad += 1
        when = ' and '.join(sorted('%s%s' % ('' if p else 'not ', t)
                                   for t, p in up))
        rep.bad(rid, f0, '%s:%s:total-only' % (K.name, tot[0][0]),
                '%s.%s gives `%s` the total number of ranks and%s the host '
                '%s written by `%s`%s names every node of the placement once, '
                'without its number of ranks; no other value of the command '
                'on this branch says how many ranks go to which node: the '
                'launcher spreads the ranks evenly / round robin whatever the '
                'scheduler decided'
                % (K.name, f0.name, tot[0][0],
                   ' (when %s)' % when if when else '',
                   'file' if call is not None else 'list',
                   short(site, 50),
                   ' (called as `%s`)' % short(call, 50)
                   if call is not None else ''),
                f0.loc(at),
                history='4 ranks, 3 placed on node1 and 1 on node2: the host '
                'file holds `node1\\nnode2`, the command asks for 4 processes '
                '- they start 2 + 2')
    return nbad


def r09_8(prog, rep, classes, rid='R09.8', minimum=13, floor=8):
    rep.rule(rid, 'the number of processes a command asks for is the number '
             'of slots / ranks of the task: no value of the command is a '
             'quotient of the rank count by the number of distinct nodes '
             '(an average is wrong for every uneven placement), a rank count '
             'option is not fed with the number of distinct nodes, and a '
             'constant rank count (N per host entry) is not combined with a '
             'de-duplicated host list', minimum=minimum)
    total = 0
    for K in classes:
        f0 = prog.find_method(K, 'get_launch_cmds')
        if f0 is None or always_raises(f0):
            rep.ok(rid, K, '%s: builds no command' % K.name)
            continue
        G = graph(prog, K, ['get_launch_cmds'], implicit=False, control=False)
        used = G.closure([('RET', f0.where), ('FILE', '')])
        nbad, nq, nopt = 0, 0, 0
        for w in sorted(G.funcs):
            f = G.funcs[w]
            rep.saw(f)
            _PLACE_DERIVED[f.where] = place_pred(G, w)
            guard = None
            rf = refuses_by_multiplicity(prog, K)
            if rf is not None:
                guard = '%s, which counts the nodes of the slots' % rf.qual
            # (a) averages
            for node, num, den in quotients(f.node):
                nodes = counts_nodes(f, den)
                if nodes is None or not counts_ranks(f, num):
                    continue
                nq += 1
                if not value_flows(used, w, f, node):
                    continue
                guard = guard or multiplicity_guard(f)
                if guard is not None:
                    raise AnalysisError(
                        'UNRECOGNISED-IDIOM %s: `%s` averages the ranks over '
                        'the nodes, and `%s` tests the multiplicity of the '
                        'nodes: cannot tell which placements are left'
                        % (f.where, short(node, 50), guard))
                nbad += 1
                rep.bad(rid, f, '%s:average' % K.name,
                        '%s.%s puts `%s` into the command: the number of '
                        'ranks divided by the number of distinct nodes '
                        '(`%s`) is an average - for a placement with '
                        'different numbers of ranks per node the command '
                        'starts a wrong number of processes on a node / in '
                        'total, and the launcher does not refuse such a task'
                        % (K.name, f.name, short(node, 60), short(nodes, 40)),
                        f.loc(node),
                        history='task with 3 ranks placed 2 on node a, 1 on '
                        'node b: 3 // 2 = 1 process per node = 2 processes; '
                        '3 ranks on a and 1 on b: 2 + 2 instead of 3 + 1')
            # (b) what feeds the rank count options
            consts = []
            for txt, v, site in format_sites(f.node):
                m = RANK_OPTS.search(txt)
                if not m:
                    continue
                nopt += 1
                for l, via in leaves(f, v):
                    cn = cfg_node_of(f, l) if is_len(l) else None
                    if is_len(l) and site_kind(
                            f, l.args[0], cn.id if cn else None) == DISTINCT:
                        nbad += 1
                        rep.bad(rid, f, '%s:%s:nodes' % (K.name, m.group(1)),
                                '%s.%s feeds `%s` with `%s`: the number of '
                                'distinct nodes of the placement, not the '
                                'number of ranks - a node which holds several '
                                'ranks is counted once'
                                % (K.name, f.name, m.group(1), short(l, 50)),
                                f.loc(site),
                                history='2 ranks on node a, 1 on node b: the '
                                'command asks for 2 processes')
                    elif isinstance(l, ast.Constant) and SOFT not in via and \
                            isinstance(l.value, int) and \
                            not isinstance(l.value, bool):
                        consts.append((m.group(1), l, conds_at(f, l, via) |
                                       conds_at(f, site)))
            # (c) constant count (N per host entry) and de-duplicated hosts
            if consts:
                for site, coll in plain_node_lists(f):
                    if not value_flows(used, w, f, site):
                        continue
                    srcs = distinct_sources(f, coll)
                    if not srcs:
                        continue
                    cs = conds_at(f, site)
                    for opt, l, c1 in consts:
                        if not any(compatible(c1, c2 | cs) and
                                   compatible(c1 | c2, cs) for c2 in srcs):
                            continue
                        guard = guard or multiplicity_guard(f)
                        if guard is not None:
                            raise AnalysisError(
                                'UNRECOGNISED-IDIOM %s: constant rank count '
                                'with a de-duplicated host list, and `%s` '
                                'tests the multiplicity of the nodes'
                                % (f.where, guard))
                        nbad += 1
                        rep.bad(rid, f, '%s:%s:constant' % (K.name, opt),
                                '%s.%s gives `%s` the constant %r while the '
                                'host list written by `%s` names every node '
                                'of the placement once%s: how many ranks the '
                                'scheduler put on a node does not reach the '
                                'command'
                                % (K.name, f.name, opt, l.value,
                                   short(site, 50),
                                   ' (when %s)' % ' and '.join(sorted(
                                       '%s%s' % ('' if p else 'not ', t)
                                       for t, p in c1)) if c1 else ''),
                                f.loc(site),
                                history='2 ranks on node a, 1 on node b: the '
                                'command names a,b and starts %r process(es) '
                                'per entry - 2 processes for 3 ranks'
                                % l.value)
                        break
        # (d) total rank count and a host collection which names every node
        #     once, nothing else telling how many ranks go where
        nbad += total_only(prog, rep, rid, K, G, used, f0)
        total += nopt
        if not nbad:
            rep.ok(rid, f0, '%s: %d rank count option(s), %d quotient(s) of '
                   'rank and node counts: none averages, none counts nodes, '
                   'no constant count with de-duplicated hosts'
                   % (K.name, nopt, nq), f0.loc())
    rep.stat('R09.8 rank count options', total)
    if total < floor:
        raise AnalysisError('R09.8 recognised only %d rank count options in '
                            'all launchers (expected >= %d): the recogniser '
                            'no longer sees how the commands are formatted'
                            % (total, floor))


# ------------------------------------------------------------------------------
# R09.17  the list whose length is the rank count is per-rank on EVERY path
#
def _card_strip(e):
    """the collection which has as many elements as `e`: through list() /
    tuple() / sorted() / reversed() / .copy() and comprehensions with one
    unfiltered generator (the element expression does not change the count)"""
    for _ in range(6):
        if isinstance(e, ast.Call) and isinstance(e.func, ast.Name) and \
                e.func.id in ('list', 'tuple', 'sorted', 'reversed') and \
                len(e.args) >= 1:
            e = e.args[0]
        elif isinstance(e, ast.Call) and isinstance(e.func, ast.Attribute) \
                and e.func.attr == 'copy' and not e.args:
            e = e.func.value
        elif isinstance(e, (ast.ListComp, ast.GeneratorExp)) and \
                len(e.generators) == 1 and not e.generators[0].ifs:
            e = e.generators[0].iter
        else:
            break
    return e


def count_kinds(f, e, at, _seen=None):
    """[(kind, cfg node of the definition or None)]: what the number of
    elements of collection `e` counts when the statement at cfg node `at`
    runs, separately for every definition of a name which reaches it"""
    seen = set() if _seen is None else _seen
    e = _card_strip(e)
    if not isinstance(e, ast.Name) or at is None:
        return [(site_kind(f, e, at), None)]
    if not place_derived(f, e.id):
        return [(None, None)]
    defs = reaching_defs(cfg_of(f), e.id, at)
    if not defs:
        return [(node_kind(f, e), None)]
    out = []
    for dn, v in defs:
        if (e.id, dn.id) in seen:
            continue
        seen.add((e.id, dn.id))
        if v is None:
            out.append((None, dn))
        elif _is_empty_init(v):
            k = classify_name(f, e.id, (e.id,), defs_too=False)
            if k is not None:
                out.append((k, dn))
        else:
            ks = [k for k, _ in count_kinds(f, v, dn.id, seen)]
            if not ks:
                continue
            if any(k is None for k in ks):
                out.append((None, dn))
            elif all(k == DISTINCT for k in ks):
                out.append((DISTINCT, dn))
            elif all(k in (PER_SLOT, ADJACENT) for k in ks):
                out.append((PER_SLOT, dn))
            else:
                out.append((None, dn))
    return out


def r09_17(prog, rep, classes, rid='R09.17', minimum=13):
    rep.rule(rid, 'a list whose length feeds a rank count option has one '
             'entry per rank under every definition which reaches the len(): '
             'no path between the per-rank list built from the slots and the '
             'count re-binds the name to a collection which names every node '
             'once', minimum=minimum)
    total = 0
    for K in classes:
        f0 = prog.find_method(K, 'get_launch_cmds')
        if f0 is None or always_raises(f0):
            rep.ok(rid, K, '%s: builds no command' % K.name)
            continue
        G = graph(prog, K, ['get_launch_cmds'], implicit=False, control=False)
        nbad, nlen = 0, 0
        for w in sorted(G.funcs):
            f = G.funcs[w]
            rep.saw(f)
            _PLACE_DERIVED[f.where] = place_pred(G, w)
            for txt, v, site in format_sites(f.node):
                m = RANK_OPTS.search(txt)
                if not m:
                    continue
                for l, via in leaves(f, v):
                    if not is_len(l):
                        continue
                    cn = cfg_node_of(f, l)
                    if cn is None:
                        continue
                    ks = count_kinds(f, l.args[0], cn.id)
                    per = [d for k, d in ks if k in (PER_SLOT, ADJACENT)]
                    dis = [d for k, d in ks if k == DISTINCT]
                    if per:
                        nlen += 1
                    if not (per and dis):
                        continue
                    nbad += 1
                    d = dis[0]
                    rep.bad(rid, f, '%s:%s:rebound' % (K.name, m.group(1)),
                            '%s.%s feeds `%s` with `%s`, and two definitions '
                            'of that list reach the count: one with an entry '
                            'per rank, and `%s` (line %s) with one entry per '
                            'distinct node - on the path through the latter '
                            'the command asks for as many processes as the '
                            'placement has nodes'
                            % (K.name, f.name, m.group(1), short(l, 50),
                               short(d.ast, 60) if d is not None else '?',
                               getattr(d.ast, 'lineno', '?')
                               if d is not None else '?'),
                            f.loc(l),
                            history='48 ranks on 3 nodes with the branch '
                            'which compacts the list taken: the command asks '
                            'for 3 processes')
        total += nlen
        if not nbad:
            rep.ok(rid, f0, '%s: %d per-rank list length(s) in rank count '
                   'options, per-rank under every reaching definition'
                   % (K.name, nlen), f0.loc())
    rep.stat('R09.17 per-rank list lengths in rank count options', total)


# ------------------------------------------------------------------------------
# R09.10  files written for a command are truncated
#
_OPENERS = {'open', 'ru.ru_open', 'ru_open', 'io.open', 'codecs.open'}


def open_calls(f):
    """[(call, file expr, mode expr or None)] of the file opens below f"""
    for c in calls_in(f.node, nested=True):
        d = dotted(c.func)
        if d in _OPENERS:
            yield c, kwarg(c, 'file', 0), kwarg(c, 'mode', 1)
        elif isinstance(c.func, ast.Attribute) and c.func.attr == 'open' and \
                (d or '').split('.')[0] not in ('os', 'webbrowser', 'shelve',
                                                'dbm', 'tarfile', 'zipfile'):
            yield c, c.func.value, kwarg(c, 'mode', 0)


def mode_values(f, e):
    """the constant strings a mode expression may hold (through locals and
    conditional expressions), None if one of them is not a constant"""
    if e is None:
        return ['r']
    out = []
    for l, _ in leaves(f, e, wrappers=False):
        if isinstance(l, ast.Constant) and isinstance(l.value, str):
            out.append(l.value)
        else:
            return None
    return out


def r09_10(prog, rep, classes, rid='R09.10', minimum=13):
    rep.rule(rid, 'a file which a launcher writes while it generates a command '
             '(host / rank / resource set / node file) is opened in a '
             'truncating mode: what an earlier generation left under the same '
             'name is not part of the file (history independence through the '
             'file system)', minimum=minimum)
    done = set()
    for K in classes:
        G = graph(prog, K, QUERY, implicit=True, control=True)
        rep.ok(rid, K, '%s: %d file open(s) in the %d functions its query '
               'methods reach' % (K.name, sum(len(list(open_calls(h)))
                                              for h in G.funcs.values()),
                                  len(G.funcs)))
        for w in sorted(G.funcs):
            if w in done:
                continue
            done.add(w)
            f = G.funcs[w]
            opens = list(open_calls(f))
            if not opens:
                continue
            rep.saw(f)
            g = cfg_of(f)
            smap = I.stmt_node_map(g)
            info = []
            for c, name, mode in opens:
                ms = mode_values(f, mode)
                if ms is None:
                    raise AnalysisError(
                        'UNRECOGNISED-IDIOM %s: cannot tell the mode of `%s`'
                        % (f.where, short(c, 50)))
                info.append((c, name, ms, smap.get(id(c)),
                             stable_text(f, name) if name is not None
                             else None))
            for c, name, ms, cn, txt in info:
                if all(not set(m) & set('wax+') for m in ms):
                    continue                               # only read
                keeps = [m for m in ms if 'w' not in m]
                if keeps and cn is not None and txt is not None:
                    # the same file was created anew on every path to here
                    via = [cn2.id for c2, _, ms2, cn2, txt2 in info
                           if c2 is not c and cn2 is not None and txt2 == txt
                           and all('w' in m for m in ms2)]
                    if via and must_pass(g, g.entry.id, cn.id, via):
                        keeps = []
                rep.check(not keeps, rid, f,
                          '%s opens %s with mode %s: the file is created '
                          'anew' % (f.qual, short(name, 30) if name is not None
                                    else '?', '/'.join(repr(m) for m in ms)),
                          construct=c,
                          message='%s opens `%s` with mode %r: the file is not '
                          'truncated, so a command generated again for the same '
                          'file name (the name derives from the task uid) '
                          'refers to a file which still holds what the earlier '
                          'generation wrote%s - the command for a task depends '
                          'on the commands generated before it, and it names '
                          'nodes / ranks of the earlier placement'
                          % (f.qual, short(name, 40) if name is not None
                             else '?', keeps[0] if keeps else '',
                             ' (mode \'x\': the second generation fails)'
                             if keeps and 'x' in keeps[0] else ''),
                          loc=f.loc(c),
                          history='task t placed on node1, launch fails, t is '
                          're-placed on node2 and %s runs again: the file '
                          'holds the lines for node1 followed by the lines for '
                          'node2 (duplicate rank ids, a node outside the '
                          'placement)' % f.qual)


# ------------------------------------------------------------------------------
# R09.11  an id cursor advances by the number of ids handed out
#
def _parents(root):
    par = {}
    for n in ast.walk(root):
        for c in ast.iter_child_nodes(n):
            par[id(c)] = n
    return par


def _n_stores(f, name):
    return sum(1 for n in walk(f.node, nested=True)
               if isinstance(n, ast.Name) and n.id == name and
               isinstance(n.ctx, (ast.Store, ast.Del)))


def _once(f, name):
    """value of the only binding of local `name` (a plain assignment)"""
    ds = defs_of(f, name)
    if len(ds) == 1 and _n_stores(f, name) == 1:
        return ds[0]
    return None


def _range_width(it):
    """n of range(n) / range(0, n), else None"""
    if isinstance(it, ast.Call) and dotted(it.func) == 'range' and \
            not it.keywords:
        if len(it.args) == 1:
            return it.args[0]
        if len(it.args) == 2 and isinstance(it.args[0], ast.Constant) and \
                it.args[0].value == 0:
            return it.args[1]
    return None


def canon_count(f, e, _seen=()):
    """canonical text of a count: once-bound locals replaced by their value,
    len() of a comprehension without filter by the length of what it iterates
    (range(n) -> n), len() of a local holding a path by len(path)"""
    if isinstance(e, ast.Constant):
        return repr(e.value)
    if isinstance(e, ast.Name) and e.id not in _seen:
        v = _once(f, e.id)
        if v is not None:
            return canon_count(f, v, _seen + (e.id,))
        return e.id
    if is_len(e):
        a = e.args[0]
        for _ in range(4):
            if isinstance(a, ast.Name) and a.id not in _seen:
                v = _once(f, a.id)
                if v is None:
                    break
                _seen = _seen + (a.id,)
                a = v
            elif isinstance(a, ast.Call) and isinstance(a.func, ast.Name) and \
                    a.func.id in ('list', 'tuple') and len(a.args) == 1:
                a = a.args[0]
            else:
                break
        if isinstance(a, (ast.ListComp, ast.GeneratorExp)) and \
                len(a.generators) == 1 and not a.generators[0].ifs:
            it = a.generators[0].iter
            n = _range_width(it)
            if n is not None:
                return canon_count(f, n, _seen)
            return canon_count(f, ast.Call(func=ast.Name(id='len',
                                                         ctx=ast.Load()),
                                           args=[it], keywords=[]), _seen)
        return 'len(%s)' % unparse(a)
    return unparse(e)


_COLLECTORS = ('append', 'extend', 'add', 'insert', 'write', 'writelines',
               'update', 'setdefault', 'appendleft')


def id_cursors(f):
    """cursors of f which hand out consecutive integer ids in a loop:
    [(name, step stmt, step expr, loop ast, width expr or None, use nodes)].
    A cursor is a local which is initialised with an integer constant in front
    of a loop, advanced by exactly one `c += step` in that loop, and whose
    value - as it is, or as `c + r` for r in range(n) - goes, in the iteration
    which also advances it, into something collected over the iterations.
    width None: one id per iteration."""
    g = cfg_of(f)
    smap = I.stmt_node_map(g)
    par = _parents(f.node)
    out = []
    steps = {}
    for n in walk(f.node):
        c, step = None, None
        if isinstance(n, ast.AugAssign) and isinstance(n.op, ast.Add) and \
                isinstance(n.target, ast.Name):
            c, step = n.target.id, n.value
        elif isinstance(n, ast.Assign) and len(n.targets) == 1 and \
                isinstance(n.targets[0], ast.Name) and \
                isinstance(n.value, ast.BinOp) and \
                isinstance(n.value.op, ast.Add):
            t = n.targets[0].id
            l, r = n.value.left, n.value.right
            if isinstance(l, ast.Name) and l.id == t:
                c, step = t, r
            elif isinstance(r, ast.Name) and r.id == t:
                c, step = t, l
        if c is not None:
            steps.setdefault(c, []).append((n, step))
    for c, sts in sorted(steps.items()):
        if len(sts) != 1:
            continue
        stmt, step = sts[0]
        sn = smap.get(id(stmt))
        if sn is None or not sn.loops:
            continue
        L = g.nodes[sn.loops[-1]]
        if L.kind not in ('for', 'while'):
            continue
        body = g.loop_body[L.id]
        inits = [n for n in walk(f.node, nested=True)
                 if isinstance(n, ast.Assign) and n is not stmt and
                 any(isinstance(t, ast.Name) and t.id == c for t in n.targets)]
        if not inits or _n_stores(f, c) != len(inits) + 1:
            continue
        okinit = True
        for a in inits:
            an = smap.get(id(a))
            if an is None or an.id in body or not (
                    isinstance(a.value, ast.Constant) and
                    isinstance(a.value.value, int) and
                    not isinstance(a.value.value, bool)):
                okinit = False
        if not okinit:
            continue
        # uses of the cursor in the loop
        widths, uses, plain = [], [], False
        skip = False
        for u in walk(L.ast, nested=True):
            if not (isinstance(u, ast.Name) and u.id == c and
                    isinstance(u.ctx, ast.Load)):
                continue
            if any(m is u for m in walk(stmt, nested=True)):
                continue
            p = par.get(id(u))
            # tests read the cursor, they do not hand it out
            q, in_test = u, False
            while q is not None and not isinstance(q, ast.stmt):
                pq = par.get(id(q))
                if isinstance(pq, (ast.If, ast.While)) and q is pq.test or \
                        isinstance(pq, ast.Assert) or \
                        isinstance(pq, ast.comprehension) and q in pq.ifs or \
                        isinstance(pq, ast.IfExp) and q is pq.test:
                    in_test = True
                q = pq
            if in_test:
                continue
            if isinstance(p, ast.BinOp):
                o = p.right if p.left is u else p.left
                w = None
                if isinstance(p.op, ast.Add) and isinstance(o, ast.Name):
                    # o runs over range(n) in a loop / comprehension inside L
                    for m in walk(L.ast, nested=True):
                        if isinstance(m, (ast.For, ast.comprehension)) and \
                                m is not L.ast and \
                                isinstance(m.target, ast.Name) and \
                                m.target.id == o.id and \
                                _n_stores(f, o.id) == 1:
                            w = _range_width(m.iter)
                if w is not None:
                    widths.append(w)
                    uses.append(u)
                    continue
                if isinstance(p.op, ast.Mod) and p.right is u or \
                        isinstance(p.op, ast.Mod) and \
                        isinstance(p.right, ast.Tuple):
                    pass                           # '%d' % c : plain use
                else:
                    skip = True                    # offset arithmetic
                    break
            plain = True
            uses.append(u)
        if skip or not uses:
            continue
        # handed out = collected over the iterations, in the iteration which
        # also advances the cursor
        tainted, collected, same_iter = set(), False, False
        back = [e for e in g.pred[L.id] if e.back]     # (next iteration of L)
        todo = list(uses)
        seen_st = set()
        while todo:
            u = todo.pop()
            s = enclosing_simple_stmt(f.node, u)
            if s is None or id(s) in seen_st:
                continue
            seen_st.add(id(s))
            cn = smap.get(id(s))
            if cn is None:
                for m in walk(s, nested=True):
                    cn = smap.get(id(m))
                    if cn is not None:
                        break
            if cn is None or cn.id not in body:
                continue
            if sn.id in g.reachable(cn.id, skip_edges=back) or \
                    cn.id in g.reachable(sn.id, skip_edges=back):
                same_iter = True
            names = []
            if isinstance(s, ast.Assign):
                for t in s.targets:
                    if isinstance(t, ast.Name):
                        names.append(t.id)
                        if any(isinstance(m, ast.Name) and m.id == t.id
                               for m in walk(s.value, nested=True)):
                            collected = True       # x = x + ..
                    else:
                        collected = True           # x[k] = .. / x.a = ..
            elif isinstance(s, ast.AugAssign):
                collected = True
            elif isinstance(s, ast.Expr) and isinstance(s.value, ast.Call) \
                    and isinstance(s.value.func, ast.Attribute) and \
                    s.value.func.attr in _COLLECTORS:
                collected = True
            elif isinstance(s, ast.Expr) and isinstance(
                    s.value, (ast.Yield, ast.YieldFrom)):
                collected = True
            for nm in names:
                if nm == c or nm in tainted:
                    continue
                tainted.add(nm)
                for m in walk(L.ast, nested=True):
                    if isinstance(m, ast.Name) and m.id == nm and \
                            isinstance(m.ctx, ast.Load):
                        todo.append(m)
        if not (collected and same_iter):
            continue
        if widths:
            ws = {canon_count(f, w) for w in widths}
            if len(ws) != 1:
                raise AnalysisError(
                    'UNRECOGNISED-IDIOM %s: the cursor `%s` is the base of '
                    'id ranges of different widths (%s)'
                    % (f.where, c, ', '.join(sorted(ws))))
            out.append((c, stmt, step, L.ast, widths[0], uses))
        elif plain:
            out.append((c, stmt, step, L.ast, None, uses))
    return out


def r09_11(prog, rep, classes, rid='R09.11', minimum=13):
    rep.rule(rid, 'a cursor which hands out consecutive ids in a loop of a '
             'launcher (rank ids of a rank file / resource set file) advances, '
             'per iteration, by the number of ids the iteration used: `c += n` '
             'where the iteration names c .. c + n - 1 (one id: `c += 1`)',
             minimum=minimum)
    done = set()
    for K in classes:
        f0 = prog.find_method(K, 'get_launch_cmds')
        if f0 is None:
            continue
        G = graph(prog, K, ['get_launch_cmds'], implicit=False, control=False)
        # (a launcher which numbers its ranks with enumerate() has no cursor:
        # one neutral obligation per launcher keeps the count stable)
        rep.ok(rid, f0, '%s: id cursors of the %d function(s) which build the '
               'command are checked' % (K.name, len(G.funcs)), f0.loc())
        for w in sorted(G.funcs):
            if w in done:
                continue
            done.add(w)
            f = G.funcs[w]
            for c, stmt, step, loop, width, uses in id_cursors(f):
                rep.saw(f)
                s_txt = canon_count(f, step)
                w_txt = canon_count(f, width) if width is not None else '1'
                s_const = isinstance(step, ast.Constant) or \
                    re.fullmatch(r'-?\d+', s_txt) is not None
                w_const = re.fullmatch(r'-?\d+', w_txt) is not None
                if width is None and not s_const:
                    # one value per iteration, advanced by a computed amount:
                    # an offset into something, not an id counter
                    continue
                ok = s_txt == w_txt
                if not ok and not s_const and not w_const and not (
                        s_txt.startswith('len(') and w_txt.startswith('len(')):
                    raise AnalysisError(
                        'UNRECOGNISED-IDIOM %s: cannot tell whether the step '
                        '`%s` of the id cursor `%s` is the number of ids used '
                        'per iteration (`%s`)' % (f.where, s_txt, c, w_txt))
                rep.check(ok, rid, f,
                          '%s: id cursor `%s` advances by %s, the number of '
                          'ids used per iteration' % (f.qual, c, s_txt),
                          construct='%s:cursor:%s' % (f.name, c),
                          message='%s hands out %s id(s) per iteration of the '
                          'loop over `%s` (%s) but advances the cursor `%s` '
                          'by `%s`: the ids of successive iterations %s - the '
                          'file names some rank twice / not at all, so the '
                          'command starts a number of processes different '
                          'from the number of ranks, or a rank on the cores '
                          'of another'
                          % (f.qual, w_txt,
                             short(loop.iter if isinstance(loop, ast.For)
                                   else loop.test, 30),
                             '`%s + r for r in range(%s)`' % (c, short(width,
                                                                       30))
                             if width is not None else 'the value of `%s`' % c,
                             c, short(step, 30),
                             'overlap or leave gaps'),
                          loc=f.loc(stmt),
                          history='two resource sets / slots with 2 ranks '
                          'each and a step of 1: ids 0,1 and then 1,2 - rank '
                          '1 is defined twice (on two core sets), rank 3 '
                          'never; 4 ranks get 3 ids'
                          if width is not None else
                          '3 slots: the ids are 0, %s, ... instead of 0, 1, 2'
                          % s_txt)
                # the number of ids an iteration uses is a count of the
                # element the iteration is at, not of a fixed element of the
                # list the loop walks
                cnt = width if width is not None else step
                why = fixed_element_count(
                    f, loop, cnt, lambda x, w=w: G.from_placement(w, x))
                if why is None:
                    continue
                rep.check(not why, rid, f,
                          '%s: the number of ids per iteration (`%s`) is a '
                          'count of the element the loop is at'
                          % (f.qual, short(cnt, 30)),
                          construct='%s:cursor:%s:per-element' % (f.name, c),
                          message='%s hands out `%s` ids in every iteration of '
                          'the loop over `%s`, but `%s` derives from `%s` and '
                          'not from the loop element `%s`: %s.  Every '
                          'iteration gets the rank count of one fixed slot - '
                          'for a placement with different numbers of ranks '
                          'per node the file defines more (or fewer) ranks '
                          'than were placed, and ranks without a core set; '
                          'no unconditional check in the loop refuses such a '
                          'placement'
                          % (f.qual, short(cnt, 30), short(loop.iter, 30),
                             short(cnt, 30), why,
                             ', '.join(stores_in_target(loop.target)),
                             'it is the same for every iteration'),
                          loc=f.loc(stmt),
                          history='3 ranks, 2 placed on node 1 and 1 on node 2: '
                          '`rank: 0,1 : { host: 1; cpu: {0,1},{2,3} }` and '
                          '`rank: 2,3 : { host: 2; cpu: {4,5} }` - four ranks '
                          'are defined for three placed, rank 3 has no cores')


def fixed_element_count(f, loop, cnt, from_slots=None):
    """why the per-iteration count `cnt` of a cursor loop is the same for every
    iteration although it is taken from the list the loop walks: the text of
    the source (`slots`), '' when the count derives from the loop element (or
    an unconditional check in the loop compares it with something that does),
    None when it derives from neither (a constant, configuration)"""
    if not isinstance(loop, ast.For):
        return None
    d = Deps(f.node, implicit=False)
    lv = set(stores_in_target(loop.target))
    dep = d.expr_depends(cnt)
    if dep & lv:
        return ''
    src = set()
    it = loop.iter
    for n in walk(it, nested=True):
        if isinstance(n, ast.Name) and isinstance(n.ctx, ast.Load) and \
                n.id not in ('enumerate', 'list', 'sorted', 'reversed', 'zip',
                             'tuple', 'iter', 'range', 'len', 'self'):
            src.add(n.id)
        elif isinstance(n, ast.Attribute):
            dn = dotted(n)
            if dn.startswith('self.'):
                src.add('.'.join(dn.split('.')[:2]))
    hit = sorted(x for x in dep & src if from_slots is None or from_slots(x))
    if not hit:
        return None
    # refused rather than mis-counted: an assert / raise in the loop, not
    # nested in a condition, which holds the count against the element
    g = cfg_of(f)
    smap = I.stmt_node_map(g)
    names = {n.id for n in walk(cnt, nested=True) if isinstance(n, ast.Name)}
    head = None
    for n in g.nodes:
        if n.kind == 'for' and n.ast is loop:
            head = n
    body = g.loop_body[head.id] if head is not None else set()
    for s in walk(loop):
        test = None
        if isinstance(s, ast.Assert):
            test = s.test
        elif isinstance(s, ast.If) and any(isinstance(b, ast.Raise)
                                           for b in s.body + s.orelse):
            test = s.test
        if test is None or not (d.reads(test) & names) or \
                not (d.expr_depends(test) & lv):
            continue
        cn = smap.get(id(s)) if isinstance(s, ast.Assert) else None
        if cn is None:
            for m in walk(test, nested=True):
                cn = smap.get(id(m))
                if cn is not None:
                    break
        if cn is None or head is None:
            continue
        own = {id(m) for m in walk(test, nested=True)}
        inner = [tid for tid, _ in guards(g, cn.id)
                 if tid in body and id(g.nodes[tid].ast) not in own]
        if not inner:
            return ''
    return ', '.join(hit)


# ------------------------------------------------------------------------------
# R09.12  argument binding: what a launcher passes to a helper which writes a
#         file for the command reaches the parameter of the matching role
#
# radical.utils is not part of /repo: its functions are trusted by contract
# (DESIGN 2.8).  The parameter order and the defaults below are an ASSUMPTION
# about the installed radical.utils,
#     create_hostfile(sandbox, name, hostlist, sep=' ', impaired=False)
# (writes `<host><sep><count>` per distinct host, or one host per line and
# rank with impaired=True) - listed in rep.assumptions.
#   (parameter, kind, required, role)
#   kind: 'str' (a non-string constant is rendered into the file / name),
#         'str?' (None allowed), 'seq', 'flag' (only its truth is used)
#   role: 'place' = must derive from the node names / indices of the slots
TRUSTED_SIGNATURES = {
    'create_hostfile': (('sandbox',  'str?', True,  None),
                        ('name',     'str',  True,  None),
                        ('hostlist', 'seq',  True,  'place'),
                        ('sep',      'str',  False, None),
                        ('impaired', 'flag', False, None)),
}

_KIND_OK = {'str':  ('str',),
            'str?': ('str', 'NoneType'),
            'seq':  ('seq', 'str'),
            'flag': None}


def bind_call(call, pos, required, vararg=False, kwarg_=False, kwonly=()):
    """{parameter: actual expression} of a call bound by position and by name;
    a string which says why the call cannot be bound; None when the call
    passes *args / **kwargs"""
    if any(isinstance(a, ast.Starred) for a in call.args) or \
            any(k.arg is None for k in call.keywords):
        return None
    if len(call.args) > len(pos) and not vararg:
        return '%d positional arguments for %d positional parameters' % (
            len(call.args), len(pos))
    out = {}
    for p, a in zip(pos, call.args):
        out[p] = a
    for k in call.keywords:
        if k.arg not in pos and k.arg not in kwonly:
            if kwarg_:
                continue
            return 'there is no parameter `%s`' % k.arg
        if k.arg in out:
            return 'parameter `%s` is given twice' % k.arg
        out[k.arg] = k.value
    for p in required:
        if p not in out:
            return 'parameter `%s` is not given' % p
    return out


def callee_signature(g, call):
    """(positional parameter names, required names, has *args, has **kw) of
    the resolved callee g as `call` sees it (bound receiver dropped)"""
    a = g.node.args
    pos = [x.arg for x in a.posonlyargs + a.args]
    nreq = len(pos) - len(a.defaults)
    req = pos[:nreq]
    via_obj = isinstance(call.func, ast.Attribute) and (
        (isinstance(call.func.value, ast.Name) and
         call.func.value.id in ('self', 'cls')) or
        isinstance(call.func.value, ast.Call))
    if pos and pos[0] in ('self', 'cls') and not is_static(g):
        if via_obj:
            pos, req = pos[1:], [r for r in req if r != pos[0]]
        elif isinstance(call.func, ast.Attribute):
            return None                    # Class.method(obj, ..): not bound
    kwonly = [x.arg for x in a.kwonlyargs]
    req = req + [x.arg for x, dflt in zip(a.kwonlyargs, a.kw_defaults)
                 if dflt is None]
    return pos, kwonly, req, a.vararg is not None, a.kwarg is not None


def const_kind(f, e, _seen=()):
    """'str' / 'bool' / 'int' / 'float' / 'NoneType' / 'seq' / 'dict' for an
    actual whose type is plain from the source, else None"""
    if isinstance(e, ast.Constant):
        return type(e.value).__name__
    if isinstance(e, ast.JoinedStr):
        return 'str'
    if isinstance(e, ast.BinOp) and isinstance(e.op, ast.Mod) and \
            const_kind(f, e.left, _seen) == 'str':
        return 'str'
    if isinstance(e, (ast.List, ast.Tuple, ast.Set, ast.ListComp,
                      ast.SetComp, ast.GeneratorExp)):
        return 'seq'
    if isinstance(e, (ast.Dict, ast.DictComp)):
        return 'dict'
    if isinstance(e, ast.Name) and e.id not in _seen:
        ds = defs_of(f, e.id)
        if ds and _n_stores(f, e.id) == len(ds):
            ks = {const_kind(f, v, _seen + (e.id,)) for v in ds}
            if len(ks) == 1:
                return ks.pop()
    return None


def slot_params(G, g):
    """parameters of g below which g reads a node name / node index: the
    parameters which stand for the slot list (or one slot)"""
    d = G.deps[g.where]
    ps = set(g.params) - {'self', 'cls'}
    out, tasklike = set(), set()
    for n in walk(g.node, nested=True):
        k = const_key(n)
        if k in PLACE_KEYS:
            r = chain_root(key_base(n))
            if r is None:
                continue
            out |= ({r} | set(d.closure(r))) & ps
        elif k == 'slots':
            # (a parameter below which the helper reads ['slots'] stands for
            # the task: whatever object the caller passes carries the slots)
            r = chain_root(key_base(n))
            if r is not None:
                tasklike |= ({r} | set(d.closure(r))) & ps
    return out - tasklike


def r09_12(prog, rep, classes, rid='R09.12', minimum=13):
    rep.rule(rid, 'argument binding: every call a launcher makes, while it '
             'builds a command, to a helper which writes a file for the '
             'command (ru.create_hostfile by its trusted signature; the '
             'launcher\'s own methods by their definition) can be bound, a '
             'text parameter (separator, name) does not receive a non-string '
             'constant, and the parameter which stands for the host / slot '
             'list receives a value which derives from the slots',
             minimum=minimum)
    done = set()
    for K in classes:
        f0 = prog.find_method(K, 'get_launch_cmds')
        if f0 is None:
            continue
        G = graph(prog, K, ['get_launch_cmds'], implicit=False, control=False)
        rep.ok(rid, f0, '%s: the helper calls of the %d function(s) which '
               'build the command are bound to their signatures'
               % (K.name, len(G.funcs)), f0.loc())

        def from_slots(w, actual, kinds):
            d = G.deps[w]
            cl = G.closure([G.q(w, x) for x in d.reads(actual)])
            if 'place' in kinds and G.marks(cl, ('place',)):
                return True
            return 'slots' in kinds and any(
                isinstance(l, str) and l in ('@slots', '@iter!', '@place!',
                                             '@len!') for _, l in cl)

        # (a) library helpers of the trusted table
        for w in sorted(G.funcs):
            f = G.funcs[w]
            for c in calls_in(f.node, nested=True):
                nm = (call_name(c) or '').split('.')[-1]
                sig = TRUSTED_SIGNATURES.get(nm)
                if sig is None or not call_name(c):
                    continue
                key = (w, c.lineno, c.col_offset)
                if key in done:
                    continue
                done.add(key)
                rep.saw(f)
                names = [p for p, _, _, _ in sig]
                b = bind_call(c, names, [p for p, _, r, _ in sig if r])
                if b is None:
                    raise AnalysisError('UNRECOGNISED-IDIOM %s: `%s` passes '
                                        '* / ** arguments' % (f.where,
                                                              short(c, 50)))
                if isinstance(b, str):
                    rep.bad(rid, f, '%s:%s:binding' % (f.name, nm),
                            '%s calls `%s`, which cannot be bound to %s(%s): '
                            '%s - the host file of the command is never '
                            'written' % (f.qual, short(c, 60), nm,
                                         ', '.join(names), b),
                            f.loc(c),
                            history='any task which takes this branch: '
                            'TypeError instead of a command')
                    continue
                for p, kind, _, role in sig:
                    if p not in b:
                        continue
                    a = b[p]
                    ak = const_kind(f, a)
                    okk = _KIND_OK[kind] is None or ak is None or \
                        ak in _KIND_OK[kind]
                    bypos = any(a is x for x in c.args)
                    rep.check(okk, rid, f,
                              '%s: `%s` of %s receives %s' % (
                                  f.qual, p, nm, short(a, 30)),
                              construct='%s:%s:%s' % (f.name, nm, p),
                              message='%s passes `%s` %s to %s(%s): it lands '
                              'in the parameter `%s`, which is text that %s '
                              'renders into the file it writes, and is a %s '
                              'constant%s - every line of the host file reads '
                              '`<node>%s<count>`: the command names hosts '
                              'which do not exist and none of the placement'
                              % (f.qual, short(a, 30),
                                 'as argument %d' % (
                                     [x is a for x in c.args].index(True) + 1)
                                 if bypos else 'by keyword', nm,
                                 ', '.join(names), p, nm, ak,
                                 ' (the parameters after it keep their '
                                 'defaults: was a keyword dropped?)'
                                 if bypos else '',
                                 unparse(a)), loc=f.loc(c),
                              history='mpirun task with more than 42 ranks '
                              '(host file branch), 20 + 20 + 4 ranks on node1, '
                              'node2, node3: the file names `node1True20`, '
                              '`node2True20`, `node3True4`')
                    if role == 'place':
                        okp = from_slots(w, a, ('place',))
                        rep.check(okp, rid, f,
                                  '%s: `%s` of %s derives from the node names '
                                  'of the slots' % (f.qual, p, nm),
                                  construct='%s:%s:%s:role' % (f.name, nm, p),
                                  message='%s passes `%s` as `%s` of %s(%s), '
                                  'but that value does not derive from the '
                                  'node names / indices of task[\'slots\']: '
                                  'the host file does not name the nodes of '
                                  'the placement (arguments in the wrong '
                                  'order?)' % (f.qual, short(a, 30), p, nm,
                                               ', '.join(names)),
                                  loc=f.loc(c),
                                  history='any task of the host file branch: '
                                  'the file lists something else than the '
                                  'nodes the scheduler reserved')
        # (b) the launcher's own helpers: the parameter a helper reads the
        # node names below gets the slots
        for f, c, g in G.calls:
            key = (f.where, c.lineno, c.col_offset, g.where)
            if key in done:
                continue
            done.add(key)
            sp = slot_params(G, g)
            if not sp:
                continue
            sg = callee_signature(g, c)
            if sg is None:
                continue
            pos, kwonly, req, va, kw = sg
            b = bind_call(c, pos, req, va, kw, kwonly)
            if b is None:
                continue
            if isinstance(b, str):
                rep.bad(rid, f, '%s:%s:binding' % (f.name, g.name),
                        '%s calls `%s`, which cannot be bound to %s(%s): %s'
                        % (f.qual, short(c, 60), g.qual,
                           ', '.join(pos + kwonly), b), f.loc(c),
                        history='any task which takes this branch: TypeError '
                        'instead of a command')
                continue
            for p in sorted(sp):
                if p not in b:
                    continue
                rep.saw(f)
                okp = from_slots(f.where, b[p], ('place', 'slots'))
                rep.check(okp, rid, f,
                          '%s: `%s` of %s receives the slots (%s)'
                          % (f.qual, p, g.qual, short(b[p], 30)),
                          construct='%s:%s:%s:role' % (f.name, g.name, p),
                          message='%s passes `%s` as `%s` of %s, the '
                          'parameter below which %s reads the node names / '
                          'indices, but that value does not derive from '
                          'task[\'slots\'] (arguments in the wrong order?): '
                          'the file / option it builds does not name the '
                          'nodes of the placement'
                          % (f.qual, short(b[p], 30), p, g.qual, g.name),
                          loc=f.loc(c),
                          history='any task of this branch: the helper '
                          'iterates something else than the slots (or '
                          'raises)')


# ------------------------------------------------------------------------------
# R09.13  a constant compared with a case-folded string lies in the image of
#         the folding
#
_CASE = {'lower': str.lower, 'upper': str.upper, 'casefold': str.casefold}
_KEEP_CASE = ('strip', 'lstrip', 'rstrip')
_STR_PROBES = ('startswith', 'endswith', 'find', 'rfind', 'index', 'rindex',
               'count', 'split', 'rsplit', 'partition', 'rpartition')


def case_image(f, e, _seen=()):
    """'lower' / 'upper' / 'casefold' when every value of e is the result of
    that case mapping (directly, stripped, or through locals each binding of
    which is), else None"""
    if isinstance(e, ast.Call) and isinstance(e.func, ast.Attribute):
        if e.func.attr in _CASE and not e.args and not e.keywords:
            return e.func.attr
        if e.func.attr in _KEEP_CASE:
            return case_image(f, e.func.value, _seen)
    if isinstance(e, ast.Name) and e.id not in _seen:
        ds = defs_of(f, e.id)
        if ds and _n_stores(f, e.id) == len(ds):
            ks = {case_image(f, v, _seen + (e.id,)) for v in ds}
            if len(ks) == 1:
                return ks.pop()
    return None


def case_probes(prog, f):
    """[(node, case mapping, constant expr, [str values], always)] for the
    comparisons / searches of f which hold a constant against a case-folded
    string.  always: outcome of the comparison when the constant cannot match
    ('false' for ==, in, startswith ..; 'true' for !=, not in)"""
    out = []

    def strs(e):
        v = prog.fold(f.module, e, f.cls)
        if isinstance(v, str):
            return [v]
        if isinstance(v, (list, tuple, set, frozenset, dict)) and v and \
                all(isinstance(x, str) for x in v):
            return list(v)
        return None

    for n in walk(f.node, nested=True):
        if isinstance(n, ast.Compare) and len(n.ops) == 1:
            op, l, r = n.ops[0], n.left, n.comparators[0]
            neg = isinstance(op, (ast.NotIn, ast.NotEq))
            if isinstance(op, (ast.In, ast.NotIn)):
                m = case_image(f, r)
                if m and strs(l) and not isinstance(
                        prog.fold(f.module, l, f.cls), (list, tuple)):
                    out.append((n, m, l, strs(l), neg))
                    continue
                m = case_image(f, l)
                if m and strs(r):
                    out.append((n, m, r, strs(r), neg))
            elif isinstance(op, (ast.Eq, ast.NotEq)):
                for a, b in ((l, r), (r, l)):
                    m = case_image(f, a)
                    if m and isinstance(prog.fold(f.module, b, f.cls), str):
                        out.append((n, m, b, strs(b), neg))
                        break
        elif isinstance(n, ast.Call) and isinstance(n.func, ast.Attribute) \
                and n.func.attr in _STR_PROBES and n.args:
            m = case_image(f, n.func.value)
            if m and strs(n.args[0]):
                out.append((n, m, n.args[0], strs(n.args[0]), False))
    return out


def r09_13(prog, rep, classes, rid='R09.13', minimum=12):
    rep.rule(rid, 'a constant which a launcher compares with (searches in) a '
             'case-folded string - `C in x.lower()`, `x.lower() == C`, '
             '`x.upper() in (C1, C2)`, `x.lower().startswith(C)` - lies in the '
             'image of that folding: otherwise the test has one outcome for '
             'every input and the flavour / variant it detects (which decides '
             'the options of the command) is never detected',
             minimum=minimum)
    f_create, rows = factory(prog)
    done = set()
    for K in classes:
        for name, f in sorted(I.class_methods(prog, K).items()):
            if f.where in done or f.cls is None or \
                    f.cls.module.rel.split('/')[0] != 'agent':
                continue
            done.add(f.where)
            for n, m, ce, vals, neg in case_probes(prog, f):
                rep.saw(f)
                badv = [v for v in vals if _CASE[m](v) != v]
                rep.check(not badv, rid, f,
                          '%s: `%s` can match a string folded by .%s()'
                          % (f.qual, short(ce, 30), m),
                          construct='%s:case:%s' % (f.name, unparse(ce)),
                          message='%s tests `%s`: the constant `%s` = %s is '
                          'held against a string which went through .%s() and '
                          'contains characters that mapping removes - the '
                          'test is %s for every input, so what it guards is '
                          '%s.  The detection it implements (MPI flavour, '
                          'launcher variant, option switch) has one outcome '
                          'whatever the installation: the command is built '
                          'with the options of another flavour / variant'
                          % (f.qual, short(n, 60), short(ce, 40),
                             ', '.join(repr(v) for v in badv), m,
                             'true' if neg else 'false',
                             'always done' if neg else 'never done'),
                          loc=f.loc(n),
                          history='mpiexec installed as /opt/cray/pals/1.2/'
                          'bin/mpiexec: `\'PALS\' in exe.lower()` is false, '
                          'the flavour is taken from the generic `version` '
                          'line (OMPI) and MPIExec builds `-np 3 --hostfile '
                          'f` without `--ppn 2 --cpu-bind list:4-5:6-7:0-1`: '
                          'the ranks are not pinned to the cores of the '
                          'placement'
                          if any('pals' in v.lower() for v in badv) else
                          'an installation / launcher name / setting whose '
                          'text contains %s in any spelling: the folded text '
                          'holds %s, the comparison with %s fails and the '
                          'launcher is configured as if it were another '
                          'flavour / variant (wrong host / rank options for '
                          'every task)' % (
                              ', '.join(repr(v) for v in badv),
                              ', '.join(repr(_CASE[m](v)) for v in badv),
                              ', '.join(repr(v) for v in badv)))
            # (information) a lower-case constant searched in the launcher
            # name as it is: the names of the factory table are upper case
            for n in walk(f.node, nested=True):
                if isinstance(n, ast.Compare) and len(n.ops) == 1 and \
                        isinstance(n.ops[0], (ast.In, ast.NotIn)) and \
                        dotted(n.comparators[0]) == 'self.name':
                    v = prog.fold(f.module, n.left, f.cls)
                    names = [nm for nm, C in rows
                             if f.cls in prog.mro(C)]
                    if isinstance(v, str) and names and \
                            not any(v in nm for nm in names):
                        rep.info(rid, f, '%s tests `%s`, but none of the names '
                                 'LaunchMethod.create accepts for this class '
                                 '(%s) contains %r: the test has one outcome '
                                 '(the names are upper case, the constant is '
                                 'not; init_from_scratch folds the name with '
                                 '.lower() first)'
                                 % (f.qual, short(n, 40), ', '.join(names), v),
                                 f.loc(n))


# ------------------------------------------------------------------------------
# R09.14  an aggregate over the slots is rendered into the command when it is
#         complete: after the loop which fills it, not in it
#
_FILLERS = ('append', 'add', 'update', 'extend', 'setdefault', 'insert',
            'appendleft')
_APPENDERS = ('append', 'extend', 'insert', 'appendleft', 'write',
              'writelines')
_ELEMENTWISE = ('get', 'count', 'index', 'pop', 'setdefault')


def whole_read(expr, X):
    """expr reads several elements of the container named X at once (iterates
    it or a view of it, joins / sorts / copies it); element access x[k],
    x.get(k), membership tests and len(x) (a running count) are not"""
    par = _parents(expr)
    for n in ast.walk(expr):
        if not (isinstance(n, ast.Name) and n.id == X and
                isinstance(n.ctx, ast.Load)):
            continue
        p = par.get(id(n))
        if isinstance(p, ast.Subscript) and p.value is n and \
                not isinstance(p.slice, ast.Slice):
            continue
        if isinstance(p, ast.Attribute):
            pp = par.get(id(p))
            if isinstance(pp, ast.Call) and pp.func is p and \
                    p.attr in _ELEMENTWISE + _FILLERS:
                continue
        if isinstance(p, ast.Call) and dotted(p.func) == 'len':
            continue
        if isinstance(p, ast.Compare) and any(n is c for c in p.comparators) \
                and all(isinstance(o, (ast.In, ast.NotIn)) for o in p.ops):
            continue
        return True
    return False


def partial_aggregates(f):
    """[(loop, accumulating statement, accumulator, aggregate)]: a loop which
    fills a container defined outside of it (x[k] = / x[k] += / x.append ..)
    and which, in its body, also APPENDS (`s += ..`, `s = s + ..`,
    `l.append(..)`, `fh.write(..)`) to an accumulator that lives across the
    iterations something computed from the whole of that container"""
    out = []
    for L in walk(f.node, nested=True):
        if not isinstance(L, ast.For):
            continue
        nodes = [n for s in L.body for n in ast.walk(s)]
        bound = set()
        for n in nodes:
            if isinstance(n, ast.Assign):
                for t in n.targets:
                    bound |= set(stores_in_target(t))
            elif isinstance(n, (ast.For, ast.comprehension)):
                bound |= set(stores_in_target(n.target))
            elif isinstance(n, ast.withitem) and n.optional_vars is not None:
                bound |= set(stores_in_target(n.optional_vars))
            elif isinstance(n, ast.NamedExpr):
                bound |= set(stores_in_target(n.target))
        # x = x + e keeps x alive across the iterations
        selfadd = set()
        for n in nodes:
            if isinstance(n, ast.Assign) and len(n.targets) == 1 and \
                    isinstance(n.targets[0], ast.Name) and \
                    isinstance(n.value, ast.BinOp) and \
                    isinstance(n.value.op, ast.Add) and any(
                        isinstance(x, ast.Name) and x.id == n.targets[0].id
                        for x in (n.value.left, n.value.right)):
                selfadd.add(n.targets[0].id)
        nplain = {}
        for n in nodes:
            if isinstance(n, ast.Assign):
                for t in n.targets:
                    for x in stores_in_target(t):
                        nplain[x] = nplain.get(x, 0) + 1
        rebound = {x for x in bound
                   if not (x in selfadd and nplain.get(x) == 1)}
        filled = {}
        for n in nodes:
            if isinstance(n, (ast.Assign, ast.AugAssign)):
                tg = n.targets if isinstance(n, ast.Assign) else [n.target]
                for t in tg:
                    if isinstance(t, ast.Subscript) and \
                            isinstance(t.value, ast.Name):
                        filled.setdefault(t.value.id, n)
            elif isinstance(n, ast.Call) and \
                    isinstance(n.func, ast.Attribute) and \
                    n.func.attr in _FILLERS and \
                    isinstance(n.func.value, ast.Name):
                filled.setdefault(n.func.value.id, n)
        filled = {x: s for x, s in filled.items() if x not in rebound}
        if not filled:
            continue
        tainted = {}

        def src_of(exprs):
            for e in exprs:
                for X in sorted(filled):
                    if whole_read(e, X):
                        return X
                for m in ast.walk(e):
                    if isinstance(m, ast.Name) and m.id in tainted and \
                            isinstance(m.ctx, ast.Load):
                        return tainted[m.id]
            return None

        changed = True
        while changed:
            changed = False
            for n in nodes:
                names, X = [], None
                if isinstance(n, ast.Assign):
                    for t in n.targets:
                        names += stores_in_target(t)
                    X = src_of([n.value])
                elif isinstance(n, (ast.For, ast.comprehension)):
                    names = stores_in_target(n.target)
                    X = src_of([n.iter])
                elif isinstance(n, ast.Call) and \
                        isinstance(n.func, ast.Attribute) and \
                        n.func.attr in _FILLERS and \
                        isinstance(n.func.value, ast.Name) and \
                        n.func.value.id in rebound:
                    names = [n.func.value.id]
                    X = src_of(list(n.args) + [k.value for k in n.keywords])
                elif isinstance(n, ast.AugAssign) and \
                        isinstance(n.target, ast.Name) and \
                        n.target.id in rebound:
                    names = [n.target.id]
                    X = src_of([n.value])
                for nm in names:
                    if X and nm in rebound and nm not in tainted:
                        tainted[nm] = X
                        changed = True
        for n in nodes:
            T, vals = None, []
            if isinstance(n, ast.AugAssign) and isinstance(n.op, ast.Add) and \
                    not isinstance(n.target, ast.Subscript):
                T, vals = Deps.loc(n.target), [n.value]
            elif isinstance(n, ast.Assign) and len(n.targets) == 1 and \
                    isinstance(n.targets[0], ast.Name) and \
                    n.targets[0].id in selfadd:
                T, vals = n.targets[0].id, [n.value]
            elif isinstance(n, ast.Expr) and isinstance(n.value, ast.Call) and \
                    isinstance(n.value.func, ast.Attribute) and \
                    n.value.func.attr in _APPENDERS:
                T = Deps.loc(n.value.func.value)
                vals = list(n.value.args)
            if T is None or T in rebound or T in tainted:
                continue
            X = src_of(vals)
            if X and X != T:
                out.append((L, n, T, X))
    return out


def r09_14(prog, rep, classes, rid='R09.14', minimum=13):
    rep.rule(rid, 'an aggregate which a launcher builds over the slots (ranks '
             'per node, list of hosts) goes into the command once, when the '
             'loop which fills it is done: the loop does not append a '
             'rendering of the whole, still partial, aggregate to the command '
             'in every iteration', minimum=minimum)
    done = set()
    for K in classes:
        f0 = prog.find_method(K, 'get_launch_cmds')
        if f0 is None:
            continue
        G = graph(prog, K, ['get_launch_cmds'], implicit=False, control=False)
        used = G.closure([('RET', f0.where), ('FILE', '')])
        rep.ok(rid, f0, '%s: the loops of the %d function(s) which build the '
               'command render no partial aggregate' % (K.name, len(G.funcs)),
               f0.loc())
        for w in sorted(G.funcs):
            if w in done:
                continue
            done.add(w)
            f = G.funcs[w]
            for L, stmt, T, X in partial_aggregates(f):
                if not value_flows(used, w, f, stmt.value) and \
                        (w, T) not in used:
                    continue
                rep.saw(f)
                rep.bad(rid, f, '%s:partial:%s' % (f.name, X),
                        '%s appends `%s` to `%s` inside the loop over `%s` '
                        'which is still filling `%s`: the rendering of the '
                        'whole aggregate goes into the command once per '
                        'iteration, each time with the entries / counts seen '
                        'so far - the command names nodes several times and '
                        'with partial counts (it belongs behind the loop)'
                        % (f.qual, short(stmt, 60), T, short(L.iter, 30), X),
                        f.loc(stmt),
                        history='task with 3 ranks, 2 placed on node1 and 1 '
                        'on node2: `--host node1:1 --host node1:2 --host '
                        'node1:2,node2:1` - node1 is named with 5 slots for '
                        '2 placed ranks (single-rank tasks are unchanged)')


# ------------------------------------------------------------------------------
# R09.15  a value which is derived when its option is not configured is
#         derived when the option is absent
#
_ABSENT_UNKNOWN = object()


def is_get(e):
    return isinstance(e, ast.Call) and isinstance(e.func, ast.Attribute) and \
        e.func.attr == 'get' and 1 <= len(e.args) <= 2


def absent_value(prog, f, e):
    """value of e when the option(s) it reads with .get() are absent, or
    _ABSENT_UNKNOWN"""
    if is_get(e):
        if len(e.args) == 1:
            return None
        dflt = e.args[1]
        v = prog.fold(f.module, dflt, f.cls)
        if v is UNKNOWN:
            if flow_falsy(dflt):
                return ()
            return _ABSENT_UNKNOWN
        return v
    if isinstance(e, ast.Constant):
        return e.value
    if isinstance(e, ast.BoolOp) and isinstance(e.op, ast.Or):
        v = _ABSENT_UNKNOWN
        for x in e.values:
            v = absent_value(prog, f, x)
            if v is _ABSENT_UNKNOWN:
                return v
            try:
                if v:
                    return v
            except Exception:
                return _ABSENT_UNKNOWN
        return v
    if isinstance(e, ast.Call) and dotted(e.func) in ('int', 'float', 'str',
                                                      'bool') \
            and len(e.args) == 1 and not e.keywords:
        v = absent_value(prog, f, e.args[0])
        if v is _ABSENT_UNKNOWN or v is None:
            return _ABSENT_UNKNOWN
        try:
            return {'int': int, 'float': float, 'str': str,
                    'bool': bool}[dotted(e.func)](v)
        except Exception:
            return _ABSENT_UNKNOWN
    return _ABSENT_UNKNOWN


def flow_falsy(e):
    return (isinstance(e, (ast.List, ast.Tuple, ast.Dict, ast.Set)) and
            not getattr(e, 'elts', getattr(e, 'keys', None))) or (
        isinstance(e, ast.Call) and isinstance(e.func, ast.Name) and
        e.func.id in ('list', 'dict', 'set', 'tuple') and not e.args and
        not e.keywords)


def reads_option(e):
    return any(is_get(n) for n in walk(e, nested=True))


def test_outcome(prog, f, t, name, v):
    """'T' / 'F': the edge the test atom t takes when local `name` has the
    value v; None if t is not a test on that local alone"""
    if isinstance(t, ast.Name) and t.id == name:
        return 'T' if v else 'F'
    if isinstance(t, ast.Compare) and len(t.ops) == 1 and \
            isinstance(t.left, ast.Name) and t.left.id == name:
        c = prog.fold(f.module, t.comparators[0], f.cls)
        if c is UNKNOWN:
            return None
        # (only tests for `not set`: a comparison with a value which stands
        # for a setting - `x == 'auto'` - is not a fallback for the unset case)
        if c is not None and not (isinstance(c, (int, float, str, bool)) and
                                  not c):
            return None
        op = t.ops[0]
        try:
            if isinstance(op, ast.Is):
                r = v is c if c is None or isinstance(c, bool) else None
            elif isinstance(op, ast.IsNot):
                r = v is not c if c is None or isinstance(c, bool) else None
            elif type(op) in _OPS:
                r = _OPS[type(op)](v, c)
            else:
                r = None
        except Exception:
            r = None
        if r is None:
            return None
        return 'T' if r else 'F'
    return None


def dead_fallbacks(prog, f):
    """[(name, option read, fallback node, test ast, absent value, dead)]: a
    local read from configuration with .get() and re-defined under a test on
    that local alone (`x = cfg.get(k); if not x: x = <derived>`); dead: the
    re-definition cannot run when the option is absent, because the default
    of the .get() already decides the test the other way"""
    g = cfg_of(f)
    out = []
    live = g.reachable(g.entry.id)
    for t in g.nodes:
        if t.kind != 'test' or t.id not in live:
            continue
        names = [n.id for n in walk(t.ast) if isinstance(n, ast.Name)]
        if len(set(names)) != 1:
            continue
        x = names[0]
        rd = reaching_defs(g, x, t.id)
        if not rd or any(v is None for _, v in rd) or \
                not any(reads_option(v) for _, v in rd):
            continue
        # the re-definitions which one outcome of the test guards
        for lab in ('T', 'F'):
            fbs = []
            for d in g.nodes:
                if d.kind == 'stmt' and isinstance(d.ast, ast.Assign) and \
                        d.id in live and any(
                            isinstance(tt, ast.Name) and tt.id == x
                            for tt in d.ast.targets) and \
                        (t.id, lab) in guards(g, d.id) and \
                        not reads_option(d.ast.value):
                    fbs.append(d)
            if not fbs:
                continue
            outs = []
            for _, v in rd:
                av = absent_value(prog, f, v)
                outs.append((v, av, None if av is _ABSENT_UNKNOWN else
                             test_outcome(prog, f, t.ast, x, av)))
            if any(o is None for _, _, o in outs):
                continue
            dead = all(o != lab for _, _, o in outs)
            for d in fbs:
                out.append((x, outs[0][0], d, t.ast, outs[0][1], dead))
    # `x = cfg.get(k, C) or <derived>`
    for n in walk(f.node, nested=True):
        if isinstance(n, ast.Assign) and len(n.targets) == 1 and \
                isinstance(n.targets[0], ast.Name) and \
                isinstance(n.value, ast.BoolOp) and \
                isinstance(n.value.op, ast.Or) and \
                is_get(n.value.values[0]) and \
                any(not isinstance(v, ast.Constant)
                    for v in n.value.values[1:]):
            av = absent_value(prog, f, n.value.values[0])
            if av is _ABSENT_UNKNOWN:
                continue
            try:
                dead = bool(av)
            except Exception:
                continue
            out.append((n.targets[0].id, n.value.values[0], n, n.value, av,
                        dead))
    return out


def r09_15(prog, rep, classes, rid='R09.15', minimum=13):
    rep.rule(rid, 'a value of the command which a launcher reads from its '
             'configuration with .get() and derives (from the allocation, the '
             'task) when it is not set - `x = cfg.get(k); if not x: x = '
             '<derived>` - is derived when the option is ABSENT: the default '
             'of the .get() does not decide the test the other way',
             minimum=minimum)
    done = set()
    for K in classes:
        f0 = prog.find_method(K, 'get_launch_cmds')
        if f0 is None:
            continue
        G = graph(prog, K, ['get_launch_cmds'], implicit=False, control=False)
        used = G.closure([('RET', f0.where), ('FILE', '')])
        rep.ok(rid, f0, '%s: configured-or-derived values of the %d '
               'function(s) which build the command are checked'
               % (K.name, len(G.funcs)), f0.loc())
        for w in sorted(G.funcs):
            if w in done:
                continue
            done.add(w)
            f = G.funcs[w]
            for x, opt, d, t, av, dead in dead_fallbacks(prog, f):
                if (w, x) not in used:
                    continue
                rep.saw(f)
                dn = d.ast if hasattr(d, 'ast') else d
                rep.check(not dead, rid, f,
                          '%s: `%s` is derived when `%s` is absent'
                          % (f.qual, x, short(opt, 40)),
                          construct='%s:fallback:%s' % (f.name, x),
                          message='%s reads `%s = %s`: when the option is not '
                          'configured the value is the default %r, for which '
                          '`%s` goes the other way - `%s` never runs for an '
                          'unconfigured launcher and the constant %r goes '
                          'into the command in place of the value derived '
                          'from the allocation / the task'
                          % (f.qual, x, short(opt, 60), av, short(t, 40),
                             short(dn, 60), av),
                          loc=f.loc(dn),
                          history='ibrun without options.tasks_per_node (no '
                          'shipped resource configuration sets it), 8 cores '
                          'per node, 2 ranks placed on node2: '
                          '`IBRUN_TASKS_PER_NODE=1 ibrun -n 2 -o 6` - one '
                          'host entry per node, the two ranks are spread over '
                          'two nodes and the offset points past the '
                          'allocation')


# ------------------------------------------------------------------------------
# R09.16  the placement reaches the command on EVERY path (of a mode)
#
# R09.2 decides may-depend; this rule walks the paths of get_launch_cmds with
# a small abstract state (decided conditions, truth of a few locals, which
# locals carry a node name / index on this path) and compares the paths which
# end with the node identity in the command (or in a file written for it) with
# those which end without: within one configuration of the launcher (the
# conditions which read only attributes of the launcher and constants) the
# former must not exist next to the latter unless the task has no placement.
#
import copy as _copy
from ..flow import Exploration

_BUILTIN_SEQ = {'list', 'set', 'sorted', 'tuple', 'frozenset', 'reversed',
                'len', 'iter', 'enumerate'}
_EXITS = (ast.Return, ast.Raise, ast.Break, ast.Continue)
_SLOTS = ('@slots',)


class _LenPrune(ast.NodeTransformer):
    """len(x) does not name what x names"""
    def visit_Call(self, n):
        if isinstance(n.func, ast.Name) and n.func.id == 'len':
            return ast.copy_location(ast.Constant(0), n)
        return self.generic_visit(n)


def _pruned(node):
    return ast.fix_missing_locations(_LenPrune().visit(_copy.deepcopy(node)))


def _shell(s):
    """the part of a compound statement its cfg node stands for"""
    if isinstance(s, (ast.For, ast.AsyncFor)):
        return ast.For(target=s.target, iter=s.iter, body=[ast.Pass()],
                       orelse=[], lineno=s.lineno, col_offset=0)
    if isinstance(s, (ast.With, ast.AsyncWith)):
        return ast.With(items=s.items, body=[ast.Pass()], lineno=s.lineno,
                        col_offset=0)
    return s


class PathPlacement:
    """path-wise walk of one get_launch_cmds (see above)"""

    MAX_STATES = 60000

    def __init__(self, prog, K, f):
        self.prog, self.K, self.f = prog, K, f
        self.G = graph(prog, K, ['get_launch_cmds'])
        self.w = f.where
        self.g = cfg_of(f)
        self.locals = set(f.params)
        for n in walk(f.node, nested=True):
            if isinstance(n, ast.Name) and isinstance(n.ctx, (ast.Store,
                                                              ast.Del)):
                self.locals.add(n.id)
        self._ret_memo, self._mark_memo, self._file_memo = {}, {}, {}
        self.key_names, self.key_text, self.key_config = {}, {}, {}
        self._callees = {}
        for ff, c, gg in self.G.calls:
            if ff.where == self.w:
                self._callees[id(c)] = gg
        self._file_funcs = self._file_taint_funcs()
        # lexical context of every statement / test
        self.encl = {}            # id(stmt) -> [test exprs / for iters]
        self.owner = {}           # id(sub expr of an if/while test) -> If
        self._lex(f.node, [])
        self.info = {}            # cfg node id -> statement facts
        for n in self.g.nodes:
            if n.kind in ('stmt', 'for', 'with') and n.ast is not None:
                self.info[n.id] = self._facts(n)
        self._relevance()

    # -- static facts -----------------------------------------------------------
    def _lex(self, node, stack):
        for c in ast.iter_child_nodes(node):
            st = stack
            if isinstance(node, (ast.If, ast.While)):
                if c is node.test:
                    for m in walk(c, nested=True):
                        self.owner[id(m)] = node
                else:
                    st = stack + [node.test]
            elif isinstance(node, (ast.For, ast.AsyncFor)) and \
                    c is not node.iter and c is not node.target:
                st = stack + [node.iter]
            if isinstance(c, ast.stmt):
                self.encl[id(c)] = list(st)
            self._lex(c, st)

    def _file_taint_funcs(self):
        """functions of the graph which write something derived from a node
        name / index into a file"""
        out = set()
        for (ww, l) in self.G.e.get(('FILE', ''), ()):
            if ww and ww not in out and \
                    self.G.marks(self.G.closure([(ww, l)]), ('place',)):
                out.add(ww)
        return out

    def _callee_writes_file(self, g):
        if g.where not in self._file_memo:
            seen, todo = set(), [g.where]
            while todo:
                x = todo.pop()
                if x in seen:
                    continue
                seen.add(x)
                for ff, c, gg in self.G.calls:
                    if ff.where == x:
                        todo.append(gg.where)
            self._file_memo[g.where] = bool(seen & self._file_funcs)
        return self._file_memo[g.where]

    def _facts(self, n):
        s = n.ast
        sh = _shell(s)
        p = _pruned(sh)
        d = PDeps(ast.Module(body=[p], type_ignores=[]), nested=True,
                  implicit=False)
        writes = {}                               # local -> reads
        for t, rd in d.edges.items():
            writes[t] = set(rd)
        strong = set()
        if isinstance(s, ast.Assign):
            for t in s.targets:
                for e in (t.elts if isinstance(t, (ast.Tuple, ast.List))
                          else [t]):
                    if isinstance(e, ast.Name):
                        strong.add(e.id)
        elif isinstance(s, ast.AnnAssign) and isinstance(s.target, ast.Name) \
                and s.value is not None:
            strong.add(s.target.id)
        file_reads, helper_file = set(), False
        calls = []
        if isinstance(sh, ast.stmt):
            src = _shell(s)
            calls = list(calls_in(src, nested=True)) if not isinstance(
                s, (ast.For, ast.AsyncFor, ast.With, ast.AsyncWith)) else \
                [c for part in ([s.iter] if isinstance(s, (ast.For,
                 ast.AsyncFor)) else [i.context_expr for i in s.items])
                 for c in calls_in(part, nested=True)]
        for c in calls:
            nm = call_name(c)
            if (isinstance(c.func, ast.Attribute) and
                    c.func.attr in ('write', 'writelines')) or \
                    nm in FILE_WRITERS:
                pc = _pruned(c)
                for a in list(pc.args) + [k.value for k in pc.keywords]:
                    file_reads |= d.reads(a)
            gg = self._callees.get(id(c))
            if gg is not None and self._callee_writes_file(gg):
                helper_file = True
        ret_reads = None
        if isinstance(s, ast.Return):
            ret_reads = d.reads(p.value) if p.value is not None else set()
        ctl = set()
        for t in self.encl.get(id(s), ()):
            ctl |= d.reads(_pruned(t))
        return dict(writes=writes, strong=strong, file=file_reads,
                    helper_file=helper_file, ret=ret_reads, ctl=ctl)

    def _relevance(self):
        """tests worth remembering: those around a statement which moves the
        node identity (or ends the function), and those around the
        definitions of what such tests read"""
        ft = set()
        changed = True
        while changed:
            changed = False
            for nid, i in self.info.items():
                for t, rd in i['writes'].items():
                    if t not in ft and self._tainted(rd - {t}, ft):
                        ft.add(t)
                        changed = True
        self.ft = ft
        rel, names = [], set()
        seen_stmt = set()
        for n in self.g.nodes:                  # loops and asserts: always
            if n.kind == 'for' or isinstance(n.ast, ast.Assert):
                e = n.ast.iter if n.kind == 'for' else n.ast.test
                for m in walk(e, nested=True):
                    if isinstance(m, ast.Name):
                        names.add(m.id)

        def add_tests(stmt):
            if id(stmt) in seen_stmt:
                return
            seen_stmt.add(id(stmt))
            for t in self.encl.get(id(stmt), ()):
                if not any(t is x for x in rel):
                    rel.append(t)
                    for m in walk(t, nested=True):
                        if isinstance(m, ast.Name):
                            names.add(m.id)

        for nid, i in self.info.items():
            s = self.g.nodes[nid].ast
            moves = any(self._tainted(rd - {t}, ft)
                        for t, rd in i['writes'].items())
            kills = bool(i['strong'] & ft)
            if moves or kills or i['file'] or i['helper_file'] or \
                    i['ret'] is not None:
                add_tests(s)
        changed = True
        while changed:
            before = (len(rel), len(names))
            for nid, i in self.info.items():
                s = self.g.nodes[nid].ast
                tg = set(i['writes']) | i['strong']
                if tg & names:
                    add_tests(s)
                    v = getattr(s, 'value', None)
                    if v is not None and len(list(walk(v, nested=True))) < 40:
                        for m in walk(v, nested=True):
                            if isinstance(m, ast.Name):
                                names.add(m.id)
            changed = (len(rel), len(names)) != before
        self.rel_ids = set()
        for t in rel:
            for m in walk(t, nested=True):
                self.rel_ids.add(id(m))
        self.rel_names = names

    # -- taint ------------------------------------------------------------------
    def _mark(self, l):
        if l not in self._mark_memo:
            self._mark_memo[l] = bool(self.G.marks({(self.w, l)}, ('place',)))
        return self._mark_memo[l]

    def _ret(self, l):
        if l not in self._ret_memo:
            tg = self.G.e.get((self.w, l), ())
            self._ret_memo[l] = bool(tg) and bool(self.G.marks(
                self.G.closure(list(tg)), ('place',)))
        return self._ret_memo[l]

    def _tainted(self, reads, taint):
        for l in reads:
            if l in taint:
                return True
            if l.startswith('@place'):
                if self._mark(l):
                    return True
            elif l.startswith('ret:') and self._ret(l):
                return True
        return False

    # -- abstract truth ---------------------------------------------------------
    def _is_config(self, e):
        for m in walk(e, nested=True):
            if isinstance(m, ast.Name) and m.id != 'self' and \
                    m.id in self.locals:
                return False
        return True

    def _key(self, key, exprs, text, extra_names=()):
        if key not in self.key_names:
            nm = set(extra_names)
            cfgk = True
            for e in exprs:
                for m in walk(e, nested=True):
                    if isinstance(m, ast.Name):
                        nm.add(m.id)
                cfgk = cfgk and self._is_config(e)
            if extra_names:
                cfgk = cfgk and not (set(extra_names) & self.locals)
            self.key_names[key] = frozenset(nm)
            self.key_text[key] = text
            self.key_config[key] = cfgk and key != _SLOTS
        return key

    def _int(self, e):
        if isinstance(e, ast.Constant):
            v = e.value
        elif isinstance(e, (ast.Name, ast.Attribute)) and not (
                isinstance(e, ast.Name) and e.id in self.locals):
            v = self.prog.fold(self.f.module, e, self.K)
        else:
            return None
        if isinstance(v, int) and not isinstance(v, bool):
            return v
        return None

    def _sym(self, e, vals):
        """(text, names) of an operand; a local bound to len(x) / another
        name reads as what it is bound to"""
        if isinstance(e, ast.Name) and e.id in vals and vals[e.id][1]:
            return vals[e.id][1], vals[e.id][2]
        return unparse(e), frozenset(m.id for m in walk(e, nested=True)
                                     if isinstance(m, ast.Name))

    def _slots_len(self, e, vals, atoms):
        if isinstance(e, ast.Call) and isinstance(e.func, ast.Name) and \
                e.func.id == 'len' and len(e.args) == 1:
            return self.truth(e.args[0], vals, atoms) == ('a', _SLOTS, True)
        if isinstance(e, ast.Name) and e.id in vals and vals[e.id][1] and \
                vals[e.id][1].startswith('len('):
            return vals[e.id][0] == ('a', _SLOTS, True)
        return False

    def truth(self, e, vals, atoms):
        """('c', bool) | ('a', key, polarity) | None"""
        r = self._truth(e, vals)
        if r is not None and r[0] == 'a' and r[1] in atoms:
            return ('c', atoms[r[1]] == r[2])
        return r

    def _truth(self, e, vals):
        if isinstance(e, ast.Constant):
            return ('c', bool(e.value))
        if isinstance(e, ast.Name):
            if e.id in vals:
                return vals[e.id][0]
            if e.id in ('True', 'False', 'None'):
                return ('c', e.id == 'True')
            return ('a', self._key(('e', e.id), [e], e.id), True)
        if isinstance(e, ast.UnaryOp) and isinstance(e.op, ast.Not):
            r = self._truth(e.operand, vals)
            if r is None:
                return None
            if r[0] == 'c':
                return ('c', not r[1])
            return ('a', r[1], not r[2])
        if const_key(e) == 'slots':
            return ('a', self._key(_SLOTS, [], "task['slots']"), True)
        if isinstance(e, (ast.List, ast.Tuple, ast.Set)):
            if any(isinstance(x, ast.Starred) for x in e.elts):
                return None
            return ('c', bool(e.elts))
        if isinstance(e, ast.Dict):
            return ('c', bool(e.keys))
        if isinstance(e, (ast.ListComp, ast.SetComp, ast.GeneratorExp,
                          ast.DictComp)):
            if len(e.generators) == 1 and not e.generators[0].ifs:
                if isinstance(e, ast.GeneratorExp):
                    return None               # a generator object is true
                return self._truth(self._seq(e.generators[0].iter), vals)
            return None
        if isinstance(e, ast.Call):
            dn = dotted(e.func)
            if dn in ('list', 'set', 'dict', 'tuple', 'frozenset', 'str') \
                    and not e.args and not e.keywords:
                return ('c', False)
            if dn in ('itertools.groupby', 'groupby', 'enumerate',
                      'collections.Counter', 'Counter') and e.args:
                return self._truth(e.args[0], vals)   # empty iff x is
            if dn in ('list', 'set', 'sorted', 'tuple', 'frozenset', 'len',
                      'dict.fromkeys', 'reversed') and len(e.args) == 1 \
                    and not e.keywords:
                a = e.args[0]
                if isinstance(a, ast.GeneratorExp):
                    if len(a.generators) == 1 and not a.generators[0].ifs:
                        return self._truth(self._seq(a.generators[0].iter),
                                           vals)
                    return None
                return self._truth(a, vals)
            return self._opaque(e)
        if isinstance(e, ast.BinOp) and isinstance(e.op, ast.Mod) and \
                isinstance(e.left, ast.Constant) and \
                isinstance(e.left.value, str):
            if re.sub(r'%[-#0 +]*\d*(?:\.\d+)?[a-zA-Z]', '',
                      e.left.value.replace('%%', 'x')):
                return ('c', True)
            return None
        if isinstance(e, ast.Compare) and len(e.ops) == 1:
            return self._compare(e, vals)
        if isinstance(e, (ast.Attribute, ast.Subscript)):
            return self._opaque(e)
        return None

    def _seq(self, it):
        if isinstance(it, ast.Call) and dotted(it.func) in \
                ('enumerate', 'sorted', 'reversed', 'list') and it.args:
            return it.args[0]
        return it

    def _opaque(self, e):
        t = unparse(e)
        return ('a', self._key(('e', t), [e], t), True)

    def _compare(self, e, vals):
        L, R, op = e.left, e.comparators[0], type(e.ops[0])
        pol = True
        if op in (ast.NotEq, ast.IsNot, ast.NotIn):
            pol = False
            op = {ast.NotEq: ast.Eq, ast.IsNot: ast.Is, ast.NotIn: ast.In}[op]
        lt, ln = self._sym(L, vals)
        rt, rn = self._sym(R, vals)
        li, ri = self._int(L), self._int(R)
        if op in (ast.Eq, ast.Is):
            if isinstance(R, ast.Constant) and R.value is None:
                r = self._truth(L, vals)
                if r is not None and r[0] == 'c' and r[1]:
                    return ('c', not pol)           # a true value is not None
            for x, xi, y in ((L, li, R), (R, ri, L)):
                if xi == 0 and self._slots_len(y, vals, {}):
                    return ('a', self._key(_SLOTS, [], "task['slots']"),
                            not pol)
            if li is not None and ri is not None:
                return ('c', (li == ri) == pol)
            if lt == rt:
                return ('c', pol)
            a, b = sorted([lt, rt])
            sym = '==' if op is ast.Eq else 'is'
            return ('a', self._key(('cmp', a, sym, b), [L, R],
                                   '%s %s %s' % (lt, sym, rt), ln | rn), pol)
        if op is ast.In:
            return ('a', self._key(('cmp', lt, 'in', rt), [L, R],
                                   '%s in %s' % (lt, rt), ln | rn), pol)
        if op not in (ast.Gt, ast.GtE, ast.Lt, ast.LtE):
            return None
        # everything as  X > Y  with a polarity
        if op is ast.Gt:
            X, Y = L, R
        elif op is ast.Lt:
            X, Y = R, L
        elif op is ast.GtE:                        # L >= R == not (R > L)
            X, Y, pol = R, L, not pol
        else:                                      # L <= R == not (L > R)
            X, Y, pol = L, R, not pol
        xi, yi = self._int(X), self._int(Y)
        if xi is not None and yi is not None:
            return ('c', (xi > yi) == pol)
        if xi is not None:                         # c > Y == not (Y > c - 1)
            X, Y, xi, yi, pol = Y, X, None, xi - 1, not pol
        xt, xn = self._sym(X, vals)
        if yi is not None:
            if self._slots_len(X, vals, {}):
                if yi < 0:
                    return ('c', pol)
                if yi == 0:
                    return ('a', self._key(_SLOTS, [], "task['slots']"), pol)
            return ('a', self._key(('cmp', xt, '>', yi), [X],
                                   '%s > %d' % (xt, yi), xn), pol)
        yt, yn = self._sym(Y, vals)
        return ('a', self._key(('cmp', xt, '>', yt), [X, Y],
                               '%s > %s' % (xt, yt), xn | yn), pol)

    # -- transfer ----------------------------------------------------------------
    @staticmethod
    def _pack(atoms, vals, taint, carried, iterated, ret):
        return (frozenset(atoms.items()), frozenset(vals.items()),
                frozenset(taint), carried, frozenset(iterated), ret)

    def _assume(self, e, want, atoms, vals, record):
        """False if `e` cannot have the truth value `want` in this state"""
        r = self.truth(e, vals, atoms)
        if r is None:
            return True
        if r[0] == 'c':
            return r[1] == want
        if record:
            atoms[r[1]] = (r[2] == want)
        return True

    def _assume_tree(self, e, want, atoms, vals):
        """assert-style: record what follows for certain"""
        if isinstance(e, ast.BoolOp):
            if isinstance(e.op, ast.And) == want:
                return all(self._assume_tree(v, want, atoms, vals)
                           for v in e.values)
            return True
        if isinstance(e, ast.UnaryOp) and isinstance(e.op, ast.Not):
            return self._assume_tree(e.operand, not want, atoms, vals)
        return self._assume(e, want, atoms, vals, True)

    def _kill(self, name, atoms, vals):
        for k in [k for k in atoms if name in self.key_names.get(k, ())]:
            del atoms[k]
        for v in [v for v, x in vals.items() if v == name or name in x[2]]:
            del vals[v]

    def _bind(self, name, value, atoms, vals):
        """truth / symbol of a local after `name = value`"""
        self._kill(name, atoms, vals)
        if name not in self.rel_names or value is None:
            return
        r = self._truth(value, vals)
        if r is not None and r[0] == 'a' and name in self.key_names[r[1]]:
            r = None
        sym, names = None, frozenset()
        v = value
        if isinstance(v, ast.Call) and isinstance(v.func, ast.Name) and \
                v.func.id == 'len' and len(v.args) == 1 and \
                isinstance(v.args[0], ast.Name):
            sym, names = unparse(v), frozenset([v.args[0].id])
        elif isinstance(v, ast.Name) and v.id in self.locals:
            sym, names = self._sym(v, vals)
            names = frozenset(names) | {v.id}
        elif isinstance(v, ast.Constant) and v.value is None:
            sym = 'None'
        if name in names:
            sym, names = None, frozenset()
        if r is None and sym is None:
            return
        if r is None:
            r = ('a', self._key(('e', name), [ast.Name(id=name,
                                                        ctx=ast.Load())],
                                name), True)
        vals[name] = (r, sym, names)

    def transfer(self, node, edge, st):
        if edge.label == 'exc':
            return None
        atoms, vals, taint = dict(st[0]), dict(st[1]), set(st[2])
        carried, iterated, ret = st[3], set(st[4]), st[5]
        s = node.ast
        if node.kind == 'test':
            want = edge.label == 'T'
            if not self._assume(s, want, atoms, vals,
                                id(s) in self.rel_ids):
                return None
            own = self.owner.get(id(s))
            if own is not None and not carried:
                # what follows a decision taken on the identity of a node
                # depends on the placement: a comparison of a node name /
                # index always, any other test on such a value when it
                # decides about an exit
                rd = self._test_reads(s)
                if self._tainted(rd, taint) and (
                        isinstance(s, ast.Compare) or any(
                            isinstance(m, _EXITS) for m in walk(own))):
                    carried = True
            return self._pack(atoms, vals, taint, carried, iterated, ret)
        i = self.info.get(node.id)
        if i is None:
            return st
        if node.kind == 'for':
            it = self._seq(s.iter)
            if edge.label == 'iter':
                if not self._assume(it, True, atoms, vals, True):
                    return None
                iterated.add(node.id)
            elif edge.label == 'done':
                if node.id in iterated:
                    iterated.discard(node.id)
                    return self._pack(atoms, vals, taint, carried, iterated,
                                      ret)
                if not self._assume(it, False, atoms, vals, True):
                    return None
                return self._pack(atoms, vals, taint, carried, iterated, ret)
        if isinstance(s, ast.Assert):
            if not self._assume_tree(s.test, True, atoms, vals):
                return None
            return self._pack(atoms, vals, taint, carried, iterated, ret)
        ctl = self._tainted(i['ctl'], taint)
        new = {}
        for t, rd in i['writes'].items():
            new[t] = ctl or self._tainted(rd, taint)
        for t, v in new.items():
            if v:
                taint.add(t)
            elif t in i['strong']:
                taint.discard(t)
        if (i['file'] and self._tainted(i['file'], taint)) or \
                i['helper_file']:
            carried = True
        if i['ret'] is not None:
            ret = self._tainted(i['ret'], taint)
        # truth of locals
        if isinstance(s, ast.Assign) and len(s.targets) == 1 and \
                isinstance(s.targets[0], ast.Name):
            self._bind(s.targets[0].id, s.value, atoms, vals)
        else:
            # x.append(..), x[k] = .., x += .., for x in ..: x is or becomes
            # something else - forget what was known about it
            for t in set(i['writes']) | i['strong']:
                self._kill(t, atoms, vals)
        return self._pack(atoms, vals, taint, carried, iterated, ret)

    def _test_reads(self, s):
        k = id(s)
        memo = self.__dict__.setdefault('_tr', {})
        if k not in memo:
            memo[k] = self.G.deps[self.w].reads(_pruned(s))
        return memo[k]

    # -- result -----------------------------------------------------------------
    def run(self):
        g = self.g
        init = self._pack({}, {}, set(), False, set(), None)
        ex = Exploration(g, g.entry.id, init, self.transfer,
                         max_states=self.MAX_STATES)
        carrying, bare = [], []
        for t in ex.terminals:
            if t.node != g.exit.id:
                continue
            atoms = dict(t.state[0])
            if t.state[5] is None:
                continue                     # falls off the end: no command
            if t.state[5] or t.state[3]:
                carrying.append(atoms)
            elif atoms.get(_SLOTS) is not False:
                bare.append((atoms, t))
        return ex, carrying, bare

    def config_of(self, atoms):
        return {k: v for k, v in atoms.items() if self.key_config.get(k)}

    def lit(self, k, v):
        t = self.key_text.get(k, str(k))
        return t if v else 'not (%s)' % t


def r09_16(prog, rep, classes, rid='R09.16', minimum=8):
    rep.rule(rid, 'within one configuration of a launcher the node names / '
             'indices of the placement reach the command (or a file written '
             'for it) on every path of get_launch_cmds on which they reach it '
             'on some path, unless the task has no placement (path-wise form '
             'of R09.2)', minimum=minimum)
    for K in classes:
        f = prog.find_method(K, 'get_launch_cmds')
        if f is None or always_raises(f) or passes_through(f, exec_param(f)):
            continue
        G = graph(prog, K, ['get_launch_cmds'])
        if not G.marks(G.closure([('RET', f.where), ('FILE', '')]),
                       ('place',)):
            continue                           # R09.2 reports it
        rep.saw(f)
        pp = PathPlacement(prog, K, f)
        try:
            ex, carrying, bare = pp.run()
        except RuntimeError:
            rep.stat('R09.16 not decided (too many paths)', K.name)
            continue
        rep.stat('R09.16 path states', ex.states)
        bad = None
        for atoms, t in bare:
            ca = pp.config_of(atoms)
            for q in carrying:
                cq = pp.config_of(q)
                if all(cq[k] == v for k, v in ca.items() if k in cq):
                    diff = [pp.lit(k, v) for k, v in sorted(
                        atoms.items(), key=lambda kv: str(kv[0]))
                        if not pp.key_config.get(k) and k != _SLOTS and
                        q.get(k) != v]
                    cand = (len(diff), diff, [pp.lit(k, v) for k, v in sorted(
                        ca.items(), key=lambda kv: str(kv[0]))])
                    if bad is None or cand[0] < bad[0] or (
                            cand[0] == bad[0] and len(cand[2]) < len(bad[2])):
                        bad = cand
        if bad is None:
            rep.ok(rid, f, '%s: %d paths end with the node identity in the '
                   'command or its file, %d without - none of these in a '
                   'configuration which has the former'
                   % (K.name, len(carrying), len(bare)), f.loc())
            continue
        _, diff, conf = bad
        rep.bad(rid, f, '%s:placement-on-every-path' % K.name,
                '%s.get_launch_cmds names the nodes of the placement for some '
                'tasks and for others not, in the same configuration of the '
                'launcher%s: there is a path to the return on which neither '
                'the command nor a file written for it receives a node name / '
                'index of task[\'slots\'] although the task is placed%s - the '
                'launcher then starts the ranks on nodes of its own choice'
                % (K.name,
                   ' (%s)' % ', '.join(conf) if conf else '',
                   '; it is taken when ' + ' and '.join(diff) if diff else ''),
                f.loc(),
                history='launcher configured with %s; task placed on its '
                'nodes with %s: the command carries the counts but no node, '
                'the ranks start elsewhere while the reserved nodes idle'
                % (', '.join(conf) or 'any configuration',
                   ' and '.join(diff) or 'any placement'))


# ------------------------------------------------------------------------------
#
def run(prog, rep, tier):
    rep.decided = ('launcher purity: no attribute of the launcher object that '
        'a command reads is written by get_launch_cmds / get_rank_cmd / '
        'get_exec / can_launch / get_launcher_env or their self callees '
        '(history independence); the command or a file written for it is data '
        'dependent on the node names / indices of the placement; launchers '
        'whose command does not count ranks refuse multi-rank tasks; every '
        'factory class implements the five methods, can_launch answers with a '
        'pair, find_launcher asks in the configured order and returns the '
        'first accepting launcher, failed launchers leave the order; node '
        'collections a launcher reduces the slots to (set, dict keys, '
        'groupby) and what feeds --nodes / --nodelist style options are '
        'distinct by construction for any slot order; Fork-like launchers '
        'accept only after an exact node name comparison; nothing reachable '
        'from find_launcher / get_launcher changes the launch order, the '
        'launcher table or the configuration object they alias; no value of a '
        'command is an average of ranks over nodes, no rank count option is '
        'fed with the number of distinct nodes, no constant rank count is '
        'combined with a de-duplicated host list under compatible '
        'configuration tests; a total rank count is not combined with a host '
        'file / list naming every node once unless another value of the '
        'command on that branch derives from the slots (per-node counts, '
        'per-rank lists); the test which decides in find_launcher reads the '
        'element of the can_launch answer in which the launchers put their '
        'verdict; every file opened for writing by code the query methods '
        'reach is truncated (or was, on every path, by an earlier open of the '
        'same name); an id cursor (`c = 0` ... `c += step` in a loop, value '
        'collected as `c` or `c + r for r in range(n)`) advances by the '
        'number of ids used per iteration, and that number derives from the '
        'element the loop is at when it derives from the iterated list at '
        'all (or an unconditional assert / raise in the loop compares it '
        'with the element); every return of find_launcher which can hand '
        'out a launcher is control dependent on the accepting outcome of '
        'the test on the can_launch answer (directly, or the definitions of '
        'the returned local which reach it are); calls of '
        'ru.create_hostfile bind to the trusted signature, its text '
        'parameters (sep, name) receive no bool / number constant and its '
        'hostlist derives from the node names of the slots; the parameter '
        'below which a launcher\'s own helper reads node names receives a '
        'value derived from task[\'slots\']; every constant held against a '
        '.lower() / .upper() / .casefold() result in a method of a factory '
        'class is a fixed point of that mapping; no loop of the functions '
        'which build a command appends (+=, append, write) something '
        'computed from the whole of a container that the same loop fills '
        'and that is defined outside of it; for `x = cfg.get(k[, C])` '
        'followed by a re-definition of x under a test on x alone, the '
        'value for the absent option (None / C) takes the re-defining edge; '
        'path-wise (k=1 loops, conditions compared as canonical atoms, '
        'integer thresholds folded): no path of get_launch_cmds of a placed '
        'task ends without a node name / index in the command or a file '
        'written on the path while another path of the same launcher '
        'configuration ends with one.')
    rep.undecided = ('option semantics of each MPI flavour (whether -host, '
        '-rf, --nodelist, ERF syntax do what the placement says), may-depend '
        'only: a launcher which names the nodes on one of its branches passes '
        '(JSRUN names nodes only in ERF mode, Srun only the node set) - '
        'R09.16 decides the paths of one configuration only, a mode of a '
        'launcher which never names a node is not reported; '
        'core / GPU pinning; whether a de-duplicated node list plus a total '
        'rank count (Srun) is distributed as placed; writes of find_launcher '
        'into attributes of the launcher objects themselves (R09.1 covers '
        'the launchers\' own methods only); `alias += [..]` on a local alias '
        'of the launch order; the format of files written by library helpers '
        '(ru.create_hostfile: counted `host N` lines vs one line per rank with '
        'impaired=True - both carry the multiplicity, which of them mpirun '
        'parses is knowledge about mpirun); Srun: total rank count with a '
        'plain node list (exempt from R09.8 d, see TOTAL_ONLY); a rank id '
        'which is never advanced (no cursor left to check); whether the '
        'counted `host N` form which ru.create_hostfile writes without '
        'impaired=True is hostfile syntax mpirun understands (seed C09-g4: '
        'the keyword dropped - one call site, no sibling to agree with; both '
        'forms carry the multiplicity); which DEFAULT of an option is right '
        'when no derivation in the code says what the unset case should be; '
        'a running count (len of the container being filled) or a single '
        'element of a partial aggregate appended in the loop; a per-'
        'iteration value taken from a fixed slot which is not the width of '
        'an id cursor; a constant tested against the launcher name as it is '
        '(`\'_dplace\' in self.name`: reported as information, see R09.13).')
    rep.assumptions = [
        'no monkey patching / setattr with computed names on launcher '
        'objects; launchers outside the package are not analysed',
        'dependence is flow-insensitive and through resolved self calls; '
        'library calls propagate all arguments to their result',
        'stores through locals are attributed to the launcher only for locals '
        'bound once to a path below self.<attr> (or an element of it)',
        'the slot list is what is read with the constant key \'slots\'; node '
        'identity is what is read with the keys node_name / node_index',
        'radical.utils is trusted by contract and not analysed: '
        'create_hostfile(sandbox, name, hostlist, sep=\' \', impaired=False) '
        '(TRUSTED_SIGNATURES) - parameter order and defaults as in the '
        'installed radical.utils; sep is rendered between host and count',
        'dict.get(k) yields None and dict.get(k, C) yields C for an absent '
        'key; str.lower / upper / casefold as in the standard library',
        'R09.16: a condition which reads only attributes of the launcher '
        'and constants is configuration (fixed per launcher); two conditions '
        'are the same when their operands read the same (a local bound to '
        'len(x) reads as len(x)); exception edges are not followed; a helper '
        'which may write a node name into a file is taken to do so',
    ]
    classes = factory_classes(prog)
    rep.stat('factory classes', len(classes))
    if len(classes) < 13:
        raise AnalysisError('LaunchMethod.create lists only %d classes '
                            '(expected >= 13)' % len(classes))
    # (a rule which cannot analyse its anchors does not hide what the other
    # rules find: main._try decides)
    rep.attempt(r09_1, prog, rep, classes)
    rep.attempt(r09_2, prog, rep, classes)
    rep.attempt(r09_3, prog, rep, classes)
    rep.attempt(r09_4, prog, rep, classes)
    rep.attempt(r09_5, prog, rep, classes)
    rep.attempt(r09_6, prog, rep, classes)
    rep.attempt(r09_7, prog, rep)
    rep.attempt(r09_8, prog, rep, classes)
    rep.attempt(r09_17, prog, rep, classes)
    rep.attempt(r09_9, prog, rep, classes)
    rep.attempt(r09_10, prog, rep, classes)
    rep.attempt(r09_11, prog, rep, classes)
    rep.attempt(r09_12, prog, rep, classes)
    rep.attempt(r09_13, prog, rep, classes)
    rep.attempt(r09_14, prog, rep, classes)
    rep.attempt(r09_15, prog, rep, classes)
    rep.attempt(r09_16, prog, rep, classes)
    if tier == 'thorough':
        base = prog.cls(*LM_BASE)
        extra = [k for k in prog.subclasses(base, strict=True)
                 if k not in classes]
        # (the factory classes are covered by R09.1 itself: sweeping them
        # again would report one defect under two rule ids)
        rep.stat('sweep classes', len(extra))
        r09_1(prog, rep, extra, rid='R09.1s', minimum=0)
        rep.rules['R09.1s'] = 'sweep of R09.1 over the subclasses of ' \
            'LaunchMethod which are not in the factory table (%d)' % len(extra)


# ------------------------------------------------------------------------------
# self-test variants
#
_L = 'agent/launch_method/'
_R = 'agent/resource_manager/base.py'

# proposed fix for F05 (MPIRun accumulates the dplace option in self._dplace)
FIX_F05 = [
    (_L + 'mpirun.py',
     "        if '_dplace' in self.name.lower():\n            self._dplace += ' -c '\n            self._dplace += ','.join(core_list)\n",
     "        dplace = self._dplace\n        if '_dplace' in self.name.lower():\n            dplace += ' -c '\n            dplace += ','.join(core_list)\n"),
    (_L + 'mpirun.py',
     "             self._dplace, self._omplace, hosts_string, exec_path)",
     "             dplace, self._omplace, hosts_string, exec_path)"),
]

MUTATIONS = [
    dict(name='R09.1 mpiexec remembers omplace option per task', rules=('R09.1',), edits=[
        (_L + 'mpiexec.py',
         "        if self._omplace:\n            cmd_options += '%s ' % self._omplace\n",
         "        if self._omplace:\n            self._omplace += ' -v'\n            cmd_options += '%s ' % self._omplace\n")]),
    dict(name='R09.1 srun caches the node list on the launcher', rules=('R09.1',), edits=[
        (_L + 'srun.py',
         "        nodefile = None\n        nodelist = list()\n",
         "        nodefile = None\n        nodelist = list()\n        self._nodes = getattr(self, '_nodes', set())\n"),
        (_L + 'srun.py',
         "            nodelist = set([str(slot['node_name']) for slot in slots])\n",
         "            self._nodes.update([str(slot['node_name']) for slot in slots])\n            nodelist = self._nodes\n")]),
    dict(name='R09.1 prte picks the DVM round robin instead of by partition', rules=('R09.1',), edits=[
        (_L + 'prte.py',
         "        dvm_list  = self._details['dvm_list']\n        dvm_id    = partition\n",
         "        dvm_list  = self._details['dvm_list']\n        self._next = getattr(self, '_next', -1) + 1\n        dvm_id    = self._next % len(dvm_list)\n")]),
    dict(name='R09.1 prte rewrites the DVM table through a local alias', rules=('R09.1',), edits=[
        (_L + 'prte.py',
         "        dvm_list  = self._details['dvm_list']\n        dvm_id    = partition\n",
         "        dvm_list  = self._details['dvm_list']\n        dvm_id    = partition\n        dvm_list[dvm_id]['dvm_uri'] += ' '\n")]),
    dict(name='R09.1 ibrun consumes the node list of the resource manager', rules=('R09.1',), edits=[
        (_L + 'ibrun.py',
         "            if node['index'] not in rank_node_idxs:\n                tasks_offset += tasks_per_node\n                continue\n",
         "            if node['index'] not in rank_node_idxs:\n                tasks_offset += tasks_per_node\n                self._rm_info.node_list.remove(node)\n                continue\n")]),
    dict(name='R09.1 can_launch of fork learns the node name', rules=('R09.1',), edits=[
        (_L + 'fork.py',
         "        node = task['slots'][0]['node_name']\n        if node not in ['localhost', self.node_name]:\n            return False, 'not on localhost'\n",
         "        node = task['slots'][0]['node_name']\n        if not self.node_name:\n            self.node_name = node\n        if node not in ['localhost', self.node_name]:\n            return False, 'not on localhost'\n")]),
    dict(name='R09.1 get_exec helper counts in an attribute it returns', rules=('R09.1',), edits=[
        (_L + 'base.py',
         "        if args:\n            return ' '.join([ru.sh_quote(arg) for arg in args])\n",
         "        if args:\n            self._last_args = getattr(self, '_last_args', []) + list(args)\n            return ' '.join([ru.sh_quote(arg) for arg in self._last_args])\n")]),
    dict(name='R09.1 mpirun switches to mpt mode after the first gpu task', rules=('R09.1',), edits=[
        (_L + 'mpirun.py', "        options = ''\n        if task_gpus and self._mpi_flavor == self.MPI_FLAVOR_SPECTRUM:",
         "        options = ''\n        if task_gpus:\n            self._mpt = True\n        if task_gpus and self._mpi_flavor == self.MPI_FLAVOR_SPECTRUM:")]),
    dict(name='R09.1 jsrun remembers the last resource set file', rules=('R09.1',), edits=[
        (_L + 'jsrun.py', "            cmd_options = '--erf_input %s' % self._create_resource_set_file(\n                slots, uid, task['task_sandbox_path'])\n",
         "            if not getattr(self, '_rs_file', None):\n                self._rs_file = self._create_resource_set_file(\n                    slots, uid, task['task_sandbox_path'])\n            cmd_options = '--erf_input %s' % self._rs_file\n")]),
    dict(name='R09.2 mpirun drops the host list', rules=('R09.2',), edits=[
        (_L + 'mpirun.py', "            host_list.append(slot['node_name'])\n", "            host_list.append('localhost')\n")]),
    dict(name='R09.2 ssh connects to the agent node', rules=('R09.2',), edits=[
        (_L + 'ssh.py', "        host = slots[0]['node_name']\n", "        host = 'localhost'\n")]),
    dict(name='R09.2 srun leaves node choice to slurm', rules=('R09.2',), edits=[
        (_L + 'srun.py', "            nodelist = set([str(slot['node_name']) for slot in slots])\n            n_nodes  = len(nodelist)\n",
         "            n_nodes  = len(slots)\n")]),
    dict(name='R09.2 prte drops --host', rules=('R09.2',), edits=[
        (_L + 'prte.py', "            ranks = collections.defaultdict(int)\n            for slot in slots:\n                ranks[slot['node_name']] += 1\n            flags += ' --host ' + ','.join(['%s:%s' % x for x in ranks.items()])\n",
         "            pass\n")]),
    dict(name='R09.2 jsrun resource set file without host', rules=('R09.2',), edits=[
        (_L + 'jsrun.py', "            rs_str += ' host: %s;'      % str(slot_ranks['node_index'])\n", "            rs_str += ' host: 1;'\n")]),
    dict(name='R09.2 ibrun offset from the first node', rules=('R09.2',), edits=[
        (_L + 'ibrun.py', "        rank_node_idxs = set([slot['node_index'] for slot in slots])\n", "        rank_node_idxs = set([0])\n"),
        (_L + 'ibrun.py', "                               if  slot['node_index'] == node['index']])\n", "                               ])\n")]),
    dict(name='R09.2 mpiexec rank/host files name no node', rules=('R09.2',), edits=[
        (_L + 'mpiexec.py', "            rf_str += 'rank %d=%s ' % (rank_id, slot['node_name'])\n", "            rf_str += 'rank %d=%s ' % (rank_id, 'localhost')\n"),
        (_L + 'mpiexec.py', "        for slot in slots:\n            host_slots[slot['node_name']] += 1\n\n        if mode == 0:", "        for slot in slots:\n            host_slots['localhost'] += 1\n\n        if mode == 0:"),
        (_L + 'mpiexec.py', "        for slot in slots:\n            host_slots[slot['node_name']] += 1\n\n        cmd_options", "        for slot in slots:\n            host_slots['localhost'] += 1\n\n        cmd_options"),
        (_L + 'mpiexec.py', "            hosts        = set([slot['node_name'] for slot in slots])\n", "")]),
    dict(name='R09.2 fork accepts tasks placed on any node', rules=('R09.2',), edits=[
        (_L + 'fork.py', "        node = task['slots'][0]['node_name']\n        if node not in ['localhost', self.node_name]:\n            return False, 'not on localhost'\n\n", "")]),
    dict(name='R09.3 fork accepts multi-rank tasks', rules=('R09.3',), edits=[
        (_L + 'fork.py', "        if len(task['slots']) > 1:\n            return False, 'more than one rank'\n\n", ""),
        (_L + 'fork.py', "        if task['description']['ranks'] > 1:\n            return False, 'needs MPI'\n\n", "")]),
    dict(name='R09.3 fork rank tests off by one', rules=('R09.3',), edits=[
        (_L + 'fork.py', "        if len(task['slots']) > 1:", "        if len(task['slots']) > 2:"),
        (_L + 'fork.py', "        if task['description']['ranks'] > 1:", "        if task['description']['ranks'] > 2:")]),
    dict(name='R09.3 rsh neither refuses nor raises for multi-rank', rules=('R09.3',), edits=[
        (_L + 'rsh.py', "        if len(task['slots']) > 1:\n            return False, 'more than one rank'\n\n", ""),
        (_L + 'rsh.py', "        if len(slots) != 1:\n            raise RuntimeError('rsh cannot run multi-rank tasks')\n\n", "")]),
    dict(name='R09.3 ssh rank test flipped in both places', rules=('R09.3',), edits=[
        (_L + 'ssh.py', "        if len(task['slots']) > 1:", "        if len(task['slots']) < 1:"),
        (_L + 'ssh.py', "        if len(slots) != 1:", "        if len(slots) == 0:")]),
    dict(name='R09.3 ccmrun stops passing the rank count', rules=('R09.3',), edits=[
        (_L + 'ccmrun.py', "        cmd = '%s -n %d %s' % (self._command, task_cores, exec_path)", "        cmd = '%s %s' % (self._command, exec_path)")]),
    dict(name='R09.4 rsh loses get_rank_cmd', rules=('R09.4',), edits=[
        (_L + 'rsh.py', "    def get_rank_cmd(self):\n\n        return 'export RP_RANK=0\\n'\n", "    def _get_rank_cmd(self):\n\n        return 'export RP_RANK=0\\n'\n")]),
    dict(name='R09.4 dragon can_launch returns a bare bool', rules=('R09.4',), edits=[
        (_L + 'dragon.py', "        return True, ''\n", "        return True\n")]),
    dict(name='R09.4 aprun can_launch falls through', rules=('R09.4',), edits=[
        (_L + 'aprun.py', "        if not task['description']['executable']:\n            return False, 'no executable'\n\n        return True, ''\n",
         "        if not task['description']['executable']:\n            return False, 'no executable'\n\n        if task['description']['ranks'] >= 1:\n            return True, ''\n")]),
    dict(name='R09.4 find_launcher asks in alphabetical order', rules=('R09.4',), edits=[
        (_R, "        for name in self._launch_order:\n\n            launcher = self._launchers[name]", "        for name in sorted(self._launch_order):\n\n            launcher = self._launchers[name]")]),
    dict(name='R09.4 find_launcher returns on refusal', rules=('R09.4',), edits=[
        (_R, "            if lm_can_launch:\n                return launcher, name\n            else:\n                errors.append([name, err_message])",
         "            if not lm_can_launch:\n                return launcher, name\n            else:\n                errors.append([name, err_message])")]),
    dict(name='R09.4 find_launcher keeps the last accepting launcher', rules=('R09.4',), edits=[
        (_R, "        errors = list()\n        for name in self._launch_order:", "        errors = list()\n        found  = None, None\n        for name in self._launch_order:"),
        (_R, "            if lm_can_launch:\n                return launcher, name\n            else:", "            if lm_can_launch:\n                found = launcher, name\n            else:"),
        (_R, "            self._log.debug('    %s: %s', name, error)\n\n        return None, None", "            self._log.debug('    %s: %s', name, error)\n\n        return found")]),
    dict(name='R09.4 find_launcher returns the first launcher of the table', rules=('R09.4',), edits=[
        (_R, "            if lm_can_launch:\n                return launcher, name\n            else:", "            if lm_can_launch:\n                return list(self._launchers.values())[0], self._launch_order[0]\n            else:")]),
    dict(name='R09.4 failed launcher stays in the order', rules=('R09.4',), edits=[
        (_R, "                self._log.exception('skip lm %s', lm_name)\n                self._launch_order.remove(lm_name)\n", "                self._log.exception('skip lm %s', lm_name)\n")]),
    dict(name='R09.4 creation loop removes from the list it iterates', rules=('R09.4',), edits=[
        (_R, "        for lm_name in list(self._launch_order):", "        for lm_name in self._launch_order:")]),
    dict(name='R09.4 configured order sorted', rules=('R09.4',), edits=[
        (_R, "        self._launch_order = launch_methods.get('order') or list(launch_methods)", "        self._launch_order = sorted(launch_methods.get('order') or list(launch_methods))")]),
]
MUTATIONS += [
    dict(name='R09.1 F05 repaired, then -c option appended to self._command', rules=('R09.1',), edits=FIX_F05 + [
        (_L + 'mpirun.py', "        options += '-np %d' % np\n", "        options += '-np %d' % np\n        self._command += ' -v'\n")]),
]

SILENT = [
    dict(name='F05 repaired (proposed fix)', edits=FIX_F05),
    dict(name='launcher counts its calls in an attribute nobody reads', edits=[
        (_L + 'srun.py', "        uid            = task['uid']\n        slots          = task['slots']\n        td             = task['description']\n        sbox           = task['task_sandbox_path']\n\n        n_tasks        = len(slots)",
         "        uid            = task['uid']\n        slots          = task['slots']\n        td             = task['description']\n        sbox           = task['task_sandbox_path']\n        self._n_cmds   = getattr(self, '_n_cmds', 0) + 1\n\n        n_tasks        = len(slots)")]),
    dict(name='launcher env memoised on the launcher (configuration only)', edits=[
        (_L + 'aprun.py', "        return ['. $RP_PILOT_SANDBOX/%s' % self._env_sh]\n",
         "        if not getattr(self, '_lenv', None):\n            self._lenv = ['. $RP_PILOT_SANDBOX/%s' % self._env_sh]\n        return self._lenv\n")]),
    dict(name='srun reads node names as attributes of the slots', edits=[
        (_L + 'srun.py', "            nodelist = set([str(slot['node_name']) for slot in slots])\n", "            nodelist = set([str(slot.node_name) for slot in slots])\n")]),
    dict(name='ssh host through renamed locals and .get()', edits=[
        (_L + 'ssh.py', "        host = slots[0]['node_name']\n        cmd  = '%s %s %s' % (self._command, host, exec_path)",
         "        first = slots[0]\n        target = first.get('node_name')\n        cmd  = '%s %s %s' % (self._command, target, exec_path)")]),
    dict(name='ssh can_launch no longer tests the slot count (get_launch_cmds still raises)', edits=[
        (_L + 'ssh.py', "        if len(task['slots']) > 1:\n            return False, 'more than one rank'\n\n", "")]),
    dict(name='fork rank test as <= 1 with else branch', edits=[
        (_L + 'fork.py', "        if len(task['slots']) > 1:\n            return False, 'more than one rank'\n\n        node = task['slots'][0]['node_name']",
         "        slots = task['slots']\n        if len(slots) <= 1:\n            pass\n        else:\n            return False, 'more than one rank'\n\n        node = task['slots'][0]['node_name']")]),
    dict(name='rsh rank test with constant on the left', edits=[
        (_L + 'rsh.py', "        if len(slots) != 1:", "        if 1 != len(slots):")]),
    dict(name='find_launcher with break and a single return', edits=[
        (_R, "        errors = list()\n        for name in self._launch_order:", "        errors = list()\n        found  = None\n        for name in self._launch_order:"),
        (_R, "            if lm_can_launch:\n                return launcher, name\n            else:", "            if lm_can_launch:\n                found = launcher, name\n                break\n            else:"),
        (_R, "        self._log.error('no launch method for task %s:', task['uid'])", "        if found:\n            return found\n\n        self._log.error('no launch method for task %s:', task['uid'])")]),
    dict(name='find_launcher iterates the launcher table (same order)', edits=[
        (_R, "        for name in self._launch_order:\n\n            launcher = self._launchers[name]", "        for name, launcher in self._launchers.items():\n")]),
    dict(name='find_launcher early-continue on refusal', edits=[
        (_R, "            if lm_can_launch:\n                return launcher, name\n            else:\n                errors.append([name, err_message])",
         "            if not lm_can_launch:\n                errors.append([name, err_message])\n                continue\n            return launcher, name")]),
    dict(name='creation loop over a slice copy', edits=[
        (_R, "        for lm_name in list(self._launch_order):", "        for lm_name in self._launch_order[:]:")]),
    dict(name='mpiexec host count through a renamed dict', edits=[
        (_L + 'mpiexec.py', "        host_slots = defaultdict(int)\n        for slot in slots:\n            host_slots[slot['node_name']] += 1\n\n        cmd_options = '-np %d ' % sum(host_slots.values())",
         "        per_host = defaultdict(int)\n        for s in slots:\n            per_host[s['node_name']] += 1\n        host_slots = per_host\n\n        cmd_options = '-np %d ' % sum(host_slots.values())")]),
    dict(name='can_launch answer through a local', edits=[
        (_L + 'ccmrun.py', "        if not task['description']['executable']:\n            return False, 'no executable'\n\n        return True, ''\n",
         "        ret = True, ''\n        if not task['description']['executable']:\n            ret = False, 'no executable'\n\n        return ret\n")]),
]

MUTATIONS += [
    dict(name='R09.5 srun de-duplicates the node list with groupby (seed C09-a)', rules=('R09.5',), edits=[
        (_L + 'srun.py', "import signal\n", "import signal\nimport itertools\n"),
        (_L + 'srun.py', "            nodelist = set([str(slot['node_name']) for slot in slots])\n",
         "            nodelist = [name for name, _ in itertools.groupby(\n                                    [str(slot['node_name']) for slot in slots])]\n")]),
    dict(name='R09.5 srun groupby over a list kept in a local', rules=('R09.5',), edits=[
        (_L + 'srun.py', "import signal\n", "import signal\nimport itertools\n"),
        (_L + 'srun.py', "            nodelist = set([str(slot['node_name']) for slot in slots])\n",
         "            names    = [str(slot['node_name']) for slot in slots]\n            nodelist = [k for k, _ in itertools.groupby(names)]\n")]),
    dict(name='R09.5 srun counts one node per slot', rules=('R09.5',), edits=[
        (_L + 'srun.py', "            nodelist = set([str(slot['node_name']) for slot in slots])\n",
         "            nodelist = [str(slot['node_name']) for slot in slots]\n")]),
    dict(name='R09.5 prte per-host rank counts by groupby on slot order', rules=('R09.5',), edits=[
        (_L + 'prte.py', "import collections\n", "import collections\nimport itertools\n"),
        (_L + 'prte.py', "            ranks = collections.defaultdict(int)\n            for slot in slots:\n                ranks[slot['node_name']] += 1\n            flags += ' --host ' + ','.join(['%s:%s' % x for x in ranks.items()])\n",
         "            names  = [slot['node_name'] for slot in slots]\n            flags += ' --host ' + ','.join(['%s:%d' % (n, len(list(g)))\n                                            for n, g in itertools.groupby(names)])\n")]),
    dict(name='R09.6 fork accepts a prefix of its host name (seed C09-b)', rules=('R09.6',), edits=[
        (_L + 'fork.py', "        if node not in ['localhost', self.node_name]:", "        if node != 'localhost' and not self.node_name.startswith(node):")]),
    dict(name='R09.6 fork accepts a node name its host name ends with', rules=('R09.6',), edits=[
        (_L + 'fork.py', "        if node not in ['localhost', self.node_name]:", "        if node != 'localhost' and not self.node_name.endswith(node):")]),
    dict(name='R09.6 fork tests the node name as a substring of its host name', rules=('R09.6',), edits=[
        (_L + 'fork.py', "        if node not in ['localhost', self.node_name]:", "        if node != 'localhost' and node not in self.node_name:")]),
    dict(name='R09.6 fork locality test only for multi-core tasks', rules=('R09.6',), edits=[
        (_L + 'fork.py', "        if node not in ['localhost', self.node_name]:", "        if task['description']['cores_per_rank'] > 1 and \\\n                node not in ['localhost', self.node_name]:")]),
]

SILENT += [
    dict(name='srun node list as sorted(set(..))', edits=[
        (_L + 'srun.py', "            nodelist = set([str(slot['node_name']) for slot in slots])\n", "            nodelist = sorted(set(str(slot['node_name']) for slot in slots))\n")]),
    dict(name='srun node list by dict.fromkeys (order preserving)', edits=[
        (_L + 'srun.py', "            nodelist = set([str(slot['node_name']) for slot in slots])\n", "            nodelist = list(dict.fromkeys(str(slot['node_name']) for slot in slots))\n")]),
    dict(name='srun node list by a loop guarded with `not in`', edits=[
        (_L + 'srun.py', "            nodelist = set([str(slot['node_name']) for slot in slots])\n", "            for slot in slots:\n                name = str(slot['node_name'])\n                if name not in nodelist:\n                    nodelist.append(name)\n")]),
    dict(name='srun node list by groupby over the sorted names', edits=[
        (_L + 'srun.py', "import signal\n", "import signal\nimport itertools\n"),
        (_L + 'srun.py', "            nodelist = set([str(slot['node_name']) for slot in slots])\n", "            names    = sorted(str(slot['node_name']) for slot in slots)\n            nodelist = [k for k, _ in itertools.groupby(names)]\n")]),
    dict(name='fork locality test as two equalities', edits=[
        (_L + 'fork.py', "        if node not in ['localhost', self.node_name]:", "        if not (node == 'localhost' or node == self.node_name):")]),
    dict(name='fork locality test against a tuple, accepting branch nested', edits=[
        (_L + 'fork.py', "        if node not in ['localhost', self.node_name]:\n            return False, 'not on localhost'\n", "        if node in ('localhost', self.node_name):\n            pass\n        else:\n            return False, 'not on localhost'\n")]),
    dict(name='fork locality test against a set kept in a local', edits=[
        (_L + 'fork.py', "        if node not in ['localhost', self.node_name]:", "        local = {'localhost', self.node_name}\n        if node not in local:")]),
]


# ------------------------------------------------------------------------------
# R09.7 / R09.8 (seeds C09-c, C09-d and variants of the same mistakes)
#
_FL_LOOP   = "        for name in self._launch_order:\n\n            launcher = self._launchers[name]"
_FL_ACCEPT = "            if lm_can_launch:\n                return launcher, name\n            else:"
_FL_HEAD   = "        errors = list()\n        for name in self._launch_order:"
_MR_NP     = "        if self._mpt: np = 1\n        else        : np = len(host_list)\n"
_MR_DPLACE = "            dplace += ','.join(core_list)\n"
_MR_MPTSTR = "            if self._mpt: mpt_hosts_string = '%s'       % ','.join(host_list)\n"

MUTATIONS += [
    dict(name='R09.7 find_launcher moves the serving launcher to the front (seed C09-c)', rules=('R09.7',), edits=[
        (_R, _FL_LOOP, "        for idx, name in enumerate(self._launch_order):\n\n            launcher = self._launchers[name]"),
        (_R, _FL_ACCEPT, "            if lm_can_launch:\n                if idx:\n                    self._launch_order.insert(0, self._launch_order.pop(idx))\n                return launcher, name\n            else:")]),
    dict(name='R09.7 move to front through a local alias of the order', rules=('R09.7',), edits=[
        (_R, _FL_HEAD, "        errors = list()\n        order  = self._launch_order\n        for name in list(order):"),
        (_R, _FL_ACCEPT, "            if lm_can_launch:\n                order.remove(name)\n                order.insert(0, name)\n                return launcher, name\n            else:")]),
    dict(name='R09.7 order rebuilt with the serving launcher first', rules=('R09.7',), edits=[
        (_R, _FL_ACCEPT, "            if lm_can_launch:\n                self._launch_order = [name] + [n for n in self._launch_order\n                                               if n != name]\n                return launcher, name\n            else:")]),
    dict(name='R09.7 round robin: the order is rotated after every task', rules=('R09.7',), edits=[
        (_R, _FL_ACCEPT, "            if lm_can_launch:\n                self._launch_order.append(self._launch_order.pop(0))\n                return launcher, name\n            else:")]),
    dict(name='R09.7 move to front in the configured order list (alias of the order)', rules=('R09.7',), edits=[
        (_R, _FL_ACCEPT, "            if lm_can_launch:\n                cfg_order = self._rm_info.launch_methods['order']\n                cfg_order.insert(0, cfg_order.pop(cfg_order.index(name)))\n                return launcher, name\n            else:")]),
    dict(name='R09.7 a launcher which refused once is never asked again', rules=('R09.7',), edits=[
        (_R, _FL_HEAD, "        errors = list()\n        for name in list(self._launch_order):"),
        (_R, "            else:\n                errors.append([name, err_message])", "            else:\n                errors.append([name, err_message])\n                self._launch_order.remove(name)")]),
    dict(name='R09.7 move to front in a helper which gets the order as argument', rules=('R09.7',), edits=[
        (_R, _FL_LOOP, "        for idx, name in enumerate(self._launch_order):\n\n            launcher = self._launchers[name]"),
        (_R, _FL_ACCEPT, "            if lm_can_launch:\n                self._prefer(self._launch_order, idx)\n                return launcher, name\n            else:"),
        (_R, "    def get_launcher(self, lname):\n", "    def _prefer(self, names, pos):\n\n        names.insert(0, names.pop(pos))\n\n\n    # --------------------------------------------------------------------------\n    #\n    def get_launcher(self, lname):\n")]),
    dict(name='R09.7 get_launcher hands every launcher out once', rules=('R09.7',), edits=[
        (_R, "        return self._launchers[lname]\n", "        return self._launchers.pop(lname)\n")]),
    dict(name='R09.8 mpirun mpt: distinct hosts and -np = ranks // hosts (seed C09-d)', rules=('R09.8',), edits=[
        (_L + 'mpirun.py', _MR_NP, ""),
        (_L + 'mpirun.py', _MR_DPLACE, _MR_DPLACE + "\n        if self._mpt:\n            hosts     = list(dict.fromkeys(host_list))\n            np        = len(host_list) // len(hosts)\n            host_list = hosts\n        else:\n            np = len(host_list)\n")]),
    dict(name='R09.8 mpirun mpt: host list de-duplicated under its own name, np //= hosts (seed C09-e)', rules=('R09.8',), edits=[
        (_L + 'mpirun.py', _MR_NP, ""),
        (_L + 'mpirun.py', _MR_DPLACE, _MR_DPLACE + "\n        np = len(host_list)\n        if self._mpt:\n            host_list = list(dict.fromkeys(host_list))\n            np        = np // len(host_list)\n")]),
    dict(name='R09.8 mpirun mpt: average spelled int(len(slots) / len(set(..)))', rules=('R09.8',), edits=[
        (_L + 'mpirun.py', _MR_NP, "        if self._mpt: np = int(len(slots) / len(set(host_list)))\n        else        : np = len(host_list)\n"),
        (_L + 'mpirun.py', _MR_MPTSTR, "            if self._mpt: mpt_hosts_string = '%s'       % ','.join(sorted(set(host_list)))\n")]),
    dict(name='R09.8 mpiexec pals: --ppn as average instead of maximum', rules=('R09.8',), edits=[
        (_L + 'mpiexec.py', "'--ppn %d '           % max(host_slots.values())", "'--ppn %d '           % (len(slots) // len(host_slots))")]),
    dict(name='R09.8 mpirun: -np counts the distinct hosts', rules=('R09.8',), edits=[
        (_L + 'mpirun.py', _MR_NP, "        if self._mpt: np = 1\n        else        : np = len(set(host_list))\n")]),
    dict(name='R09.8 mpirun mpt: every host named once, still -np 1', rules=('R09.8',), edits=[
        (_L + 'mpirun.py', _MR_MPTSTR, "            if self._mpt: mpt_hosts_string = '%s'       % ','.join(dict.fromkeys(host_list))\n")]),
    dict(name='R09.7 find_launcher sorts the order in place', rules=('R09.7',), edits=[
        (_R, _FL_HEAD, "        errors = list()\n        self._launch_order.sort()\n        for name in self._launch_order:")]),
    dict(name='R09.7 the launcher of the last task is asked first (remembered in an attribute)', rules=('R09.7',), edits=[
        (_R, _FL_HEAD, "        errors = list()\n        self._last = getattr(self, '_last', None)\n        for name in ([self._last] if self._last else []) + self._launch_order:"),
        (_R, _FL_ACCEPT, "            if lm_can_launch:\n                self._last = name\n                return launcher, name\n            else:")]),
    dict(name='R09.8 mpirun mpt: average over the keys of a per-host count dict', rules=('R09.8',), edits=[
        (_L + 'mpirun.py', _MR_NP, "        counts = dict()\n        for h in host_list:\n            counts[h] = counts.get(h, 0) + 1\n        if self._mpt: np = len(host_list) // len(counts)\n        else        : np = len(host_list)\n"),
        (_L + 'mpirun.py', _MR_MPTSTR, "            if self._mpt: mpt_hosts_string = '%s'       % ','.join(counts)\n")]),
    dict(name='R09.8 srun: --ntasks-per-node as rounded up average', rules=('R09.8',), edits=[
        (_L + 'srun.py', "            mapping += '--nodes %d ' % n_nodes \\\n", "            mapping += '--ntasks-per-node %d ' % int(math.ceil(n_tasks / n_nodes)) + '--nodes %d ' % n_nodes \\\n")]),
    dict(name='R09.8 srun: --ntasks counts the nodes', rules=('R09.8',), edits=[
        (_L + 'srun.py', "                    +  '--ntasks %d' % n_tasks", "                    +  '--ntasks %d' % len(nodelist)")]),
]

SILENT += [
    dict(name='find_launcher: order through a local, enumerate, renamed locals', edits=[
        (_R, _FL_HEAD + "\n\n            launcher = self._launchers[name]\n            lm_can_launch, err_message = launcher.can_launch(task)",
         "        errors = list()\n        order  = self._launch_order\n        for pos, name in enumerate(order):\n\n            launcher = self._launchers[name]\n            lm_can_launch, err_message = launcher.can_launch(task)")]),
    dict(name='find_launcher: refusals collected in a local dict', edits=[
        (_R, "        errors = list()\n        for name in self._launch_order:", "        errors = dict()\n        asked  = list()\n        for name in self._launch_order:\n            asked.append(name)"),
        (_R, "                errors.append([name, err_message])", "                errors[name] = err_message"),
        (_R, "        for name, error in errors:", "        for name, error in errors.items():")]),
    dict(name='find_launcher counts its calls in an attribute the selection never reads', edits=[
        (_R, _FL_HEAD, "        self._n_lookups = getattr(self, '_n_lookups', 0) + 1\n" + _FL_HEAD)]),
    dict(name='find_launcher asks through an extracted helper method', edits=[
        (_R, "            lm_can_launch, err_message = launcher.can_launch(task)\n", "            lm_can_launch, err_message = self._ask(launcher, task)\n"),
        (_R, "    def get_launcher(self, lname):\n", "    def _ask(self, lm, task):\n\n        return lm.can_launch(task)\n\n\n    # --------------------------------------------------------------------------\n    #\n    def get_launcher(self, lname):\n")]),
    dict(name='find_launcher counts the questions in an attribute of the launcher asked', edits=[
        (_R, "            launcher = self._launchers[name]\n", "            launcher = self._launchers[name]\n            launcher._asked = getattr(launcher, '_asked', 0) + 1\n")]),
    dict(name='get_launcher through .get()', edits=[
        (_R, "        if lname not in self._launchers:\n            raise ValueError('no such launcher %s' % lname)\n\n        return self._launchers[lname]\n",
         "        found = self._launchers.get(lname)\n        if found is None:\n            raise ValueError('no such launcher %s' % lname)\n\n        return found\n")]),
    dict(name='mpirun: -np computed before the host strings, conditional expression', edits=[
        (_L + 'mpirun.py', _MR_NP, ""),
        (_L + 'mpirun.py', _MR_DPLACE, _MR_DPLACE + "\n        np = 1 if self._mpt else len(host_list)\n")]),
    dict(name='mpirun: number of host entries hoisted into a local', edits=[
        (_L + 'mpirun.py', "        if len(host_list) > 42:\n", "        n_entries = len(host_list)\n        if n_entries > 42:\n"),
        (_L + 'mpirun.py', _MR_NP, "        if self._mpt: np = 1\n        else        : np = n_entries\n")]),
    dict(name='mpirun: number of distinct nodes only logged', edits=[
        (_L + 'mpirun.py', _MR_NP, _MR_NP + "        nodes = set(host_list)\n        self._log.debug('%s: %d ranks on %d nodes', uid, len(host_list),\n                        len(nodes))\n")]),
    dict(name='mpirun: per-rank host list by comprehension', edits=[
        (_L + 'mpirun.py', "        host_list = list()\n", "        host_list = [slot['node_name'] for slot in slots]\n"),
        (_L + 'mpirun.py', "            host_list.append(slot['node_name'])\n", "")]),
    dict(name='mpirun (not mpt): hosts named once with their rank count, -np total', edits=[
        (_L + 'mpirun.py', "            else        : hosts_string     = '-host %s' % ','.join(host_list)\n",
         "            else        : hosts_string     = '-host %s' % ','.join(\n                '%s:%d' % (h, host_list.count(h))\n                for h in dict.fromkeys(host_list))\n")]),
    dict(name='mpiexec: -np as the number of slots', edits=[
        (_L + 'mpiexec.py', "        cmd_options = '-np %d ' % sum(host_slots.values())", "        cmd_options = '-np %d ' % len(slots)")]),
    dict(name='mpiexec pals: ranks per node through a local, maximum kept', edits=[
        (_L + 'mpiexec.py', "            cmd_options += '--ppn %d '           % max(host_slots.values()) + \\\n", "            per_node     = list(host_slots.values())\n            cmd_options += '--ppn %d '           % max(per_node) + \\\n")]),
]


# ------------------------------------------------------------------------------
# round 4: R09.9 (g1), R09.10 (g2), R09.11 (g6), R09.8 rule d (g3)
#
_FL_ASK   = "            lm_can_launch, err_message = launcher.can_launch(task)\n"
_ME       = _L + 'mpiexec.py'
_JS       = _L + 'jsrun.py'
_RF_OPEN  = "        with ru.ru_open(rf_name, 'w') as fout:\n            fout.write(rf_str)\n"
_HF_OPEN  = "        with ru.ru_open(hf_name, 'w') as fout:\n            fout.write(hf_str)\n"
_RS_OPEN  = "        with ru.ru_open(rs_name, 'w') as fout:\n            fout.write(rs_str)\n"
_JS_IDS   = "            rank_ids      = [str(r + base_id) for r in range(ranks_per_rs)]\n            base_id      += ranks_per_rs\n"
_HYDRA    = "            hostfile = self._get_host_file(slots, uid, sbox, mode=2)\n"
_MODE0    = "        if mode == 0:\n            hf_str = '%s\\n' % '\\n'.join(list(host_slots.keys()))\n"

MUTATIONS += [
    dict(name='R09.9 find_launcher unpacks the answer as (reason, verdict) (seed C09-g1)', rules=('R09.9',), edits=[
        (_R, _FL_ASK, "            err_message, lm_can_launch = launcher.can_launch(task)\n")]),
    dict(name='R09.9 answer kept whole, the verdict read from element 1', rules=('R09.9',), edits=[
        (_R, _FL_ASK, "            answer = launcher.can_launch(task)\n            lm_can_launch = answer[1]\n            err_message   = answer[0]\n")]),
    dict(name='R09.9 find_launcher tests the last element of the answer', rules=('R09.9',), edits=[
        (_R, _FL_ASK, "            answer = launcher.can_launch(task)\n            lm_can_launch, err_message = answer[-1], answer[0]\n")]),
    dict(name='R09.9 rsh answers (reason, verdict) on acceptance', rules=('R09.9',), edits=[
        (_L + 'rsh.py', "            return False, 'cannot launch MPI tasks'\n\n        return True, ''\n", "            return False, 'cannot launch MPI tasks'\n\n        return '', True\n")]),
    dict(name='R09.9 fork answers (reason, verdict) everywhere', rules=('R09.9',), edits=[
        (_L + 'fork.py', "            return False, 'more than one rank'\n", "            return 'more than one rank', False\n"),
        (_L + 'fork.py', "            return False, 'not on localhost'\n", "            return 'not on localhost', False\n"),
        (_L + 'fork.py', "            return False, 'cannot launch MPI tasks'\n", "            return 'cannot launch MPI tasks', False\n")]),
    dict(name='R09.10 mpiexec rank file opened for append (seed C09-g2)', rules=('R09.10',), edits=[
        (_ME, _RF_OPEN, _RF_OPEN.replace("'w'", "'a'"))]),
    dict(name='R09.10 mpiexec host file opened for append, mode in a local', rules=('R09.10',), edits=[
        (_ME, _HF_OPEN, "        how = 'a'\n" + _HF_OPEN.replace("'w'", "how"))]),
    dict(name='R09.10 jsrun resource set file opened r+ (overwritten in place, longer old tail stays)', rules=('R09.10',), edits=[
        (_JS, _RS_OPEN, _RS_OPEN.replace("'w'", "'r+'"))]),
    dict(name='R09.10 srun node file opened for append', rules=('R09.10',), edits=[
        (_L + 'srun.py', "with ru.ru_open(nodefile, 'w') as fout:", "with ru.ru_open(nodefile, mode='a') as fout:")]),
    dict(name='R09.10 mpiexec rank file created exclusively (second generation fails)', rules=('R09.10',), edits=[
        (_ME, _RF_OPEN, _RF_OPEN.replace("'w'", "'x'"))]),
    dict(name='R09.11 jsrun rank id base advanced by one per resource set (seed C09-g6)', rules=('R09.11',), edits=[
        (_JS, "            base_id      += ranks_per_rs\n", "            base_id      += 1\n")]),
    dict(name='R09.11 jsrun rank id base advanced by the number of gpu sets', rules=('R09.11',), edits=[
        (_JS, "            base_id      += ranks_per_rs\n", "            base_id      += len(slot_ranks['gpus'])\n")]),
    dict(name='R09.11 jsrun rank id base: expanded assignment, wrong step', rules=('R09.11',), edits=[
        (_JS, "            base_id      += ranks_per_rs\n", "            base_id       = base_id + 1\n")]),
    dict(name='R09.11 mpiexec rank file: rank id advanced by two', rules=('R09.11',), edits=[
        (_ME, "            rank_id += 1\n", "            rank_id += 2\n")]),
    dict(name='R09.8 mpiexec hydra: host file without rank counts (seed C09-g3)', rules=('R09.8',), edits=[
        (_ME, _HYDRA, "            hostfile = self._get_host_file(slots, uid, sbox)\n")]),
    dict(name='R09.8 mpiexec hydra: host file mode 0 spelled out', rules=('R09.8',), edits=[
        (_ME, _HYDRA, "            hostfile = self._get_host_file(slots, uid, sbox, 0)\n")]),
    dict(name='R09.8 mpiexec default flavour: --hostfile without slots=', rules=('R09.8',), edits=[
        (_ME, "            hostfile     = self._get_host_file(slots, uid, sbox, mode=1)\n", "            hostfile     = self._get_host_file(slots, uid, sbox, mode=0)\n")]),
    dict(name='R09.8 _get_host_file writes the counts only in mode 1', rules=('R09.8',), edits=[
        (_ME, "        if mode == 0:\n            hf_str", "        if mode != 1:\n            hf_str")]),
]

SILENT += [
    dict(name='find_launcher keeps the answer whole and reads its elements by index', edits=[
        (_R, _FL_ASK, "            answer = launcher.can_launch(task)\n            lm_can_launch = answer[0]\n            err_message   = answer[1]\n")]),
    dict(name='find_launcher: answer unpacked from a local', edits=[
        (_R, _FL_ASK, "            answer = launcher.can_launch(task)\n            lm_can_launch, err_message = answer\n")]),
    dict(name='find_launcher tests the verdict by subscript', edits=[
        (_R, _FL_ASK, "            answer = launcher.can_launch(task)\n            lm_can_launch = answer[0]\n            err_message   = answer[1]\n"),
        (_R, "            if lm_can_launch:\n                return launcher, name\n", "            if answer[0]:\n                return launcher, name\n")]),
    dict(name='rsh refuses with a formatted reason', edits=[
        (_L + 'rsh.py', "            return False, 'more than one rank'\n", "            return False, 'more than one rank (%d)' % len(task['slots'])\n")]),
    dict(name='srun can_launch: verdict computed, reason chosen', edits=[
        (_L + 'srun.py', "        if not task['description']['executable']:\n            return False, 'no executable'\n\n        return True, ''\n",
         "        has_exe = bool(task['description']['executable'])\n        return has_exe, '' if has_exe else 'no executable'\n")]),
    dict(name='mpiexec rank file: mode by keyword, text mode spelled out', edits=[
        (_ME, _RF_OPEN, _RF_OPEN.replace("'w'", "mode='wt'"))]),
    dict(name='mpiexec rank file: explicit open / close', edits=[
        (_ME, _RF_OPEN, "        fout = ru.ru_open(rf_name, 'w')\n        fout.write(rf_str)\n        fout.close()\n")]),
    dict(name='mpiexec host file: created anew, body appended by a second open', edits=[
        (_ME, _HF_OPEN, "        with ru.ru_open(hf_name, 'w') as fout:\n            fout.write('')\n        with ru.ru_open(hf_name, 'a') as fout:\n            fout.write(hf_str)\n")]),
    dict(name='jsrun resource set file: mode in a local', edits=[
        (_JS, _RS_OPEN, "        rs_mode = 'w'\n" + _RS_OPEN.replace("'w'", "rs_mode"))]),
    dict(name='jsrun rank id base advanced by the number of ids built', edits=[
        (_JS, "            base_id      += ranks_per_rs\n", "            base_id      += len(rank_ids)\n")]),
    dict(name='jsrun rank id base: expanded assignment, count re-read from the slot', edits=[
        (_JS, "            base_id      += ranks_per_rs\n", "            base_id       = base_id + len(slot_ranks['cores'])\n")]),
    dict(name='jsrun rank ids one by one, cursor advanced per id', edits=[
        (_JS, _JS_IDS, "            rank_ids      = []\n            for _r in range(ranks_per_rs):\n                rank_ids.append(str(base_id))\n                base_id  += 1\n")]),
    dict(name='jsrun rank ids from a range over the cursor, advanced afterwards', edits=[
        (_JS, _JS_IDS, "            next_id       = base_id + ranks_per_rs\n            rank_ids      = [str(r) for r in range(base_id, next_id)]\n            base_id       = next_id\n")]),
    dict(name='mpiexec rank file numbered by enumerate', edits=[
        (_ME, "        rf_str  = ''\n        rank_id = 0\n\n        for slot in slots:\n", "        rf_str  = ''\n\n        for rank_id, slot in enumerate(slots):\n"),
        (_ME, "            rank_id += 1\n", "")]),
    dict(name='mpiexec rank file: cursor advanced first, id one less', edits=[
        (_ME, "        for slot in slots:\n            rf_str += 'rank %d=%s ' % (rank_id, slot['node_name'])\n", "        for slot in slots:\n            this_id = rank_id\n            rank_id = rank_id + 1\n            rf_str += 'rank %d=%s ' % (this_id, slot['node_name'])\n"),
        (_ME, "            rank_id += 1\n", "")]),
    dict(name='mpiexec hydra: host file mode passed by position', edits=[
        (_ME, _HYDRA, "            hostfile = self._get_host_file(slots, uid, sbox, 2)\n")]),
    dict(name='mpiexec hydra: host file mode through a local', edits=[
        (_ME, _HYDRA, "            hf_mode  = 2\n            hostfile = self._get_host_file(slots, uid, sbox, mode=hf_mode)\n")]),
    dict(name='mpiexec pals: host file mode 0 spelled out', edits=[
        (_ME, "            hostfile     = self._get_host_file(slots, uid, sbox)\n", "            hostfile     = self._get_host_file(slots, uid, sbox, mode=0)\n")]),
    dict(name='_get_host_file: mode 0 tested by truth, names joined from the dict', edits=[
        (_ME, _MODE0, "        if not mode:\n            hf_str = '%s\\n' % '\\n'.join(host_slots)\n")]),
    dict(name='_get_host_file: counted modes first', edits=[
        (_ME, _MODE0 + "\n        else:\n            hf_str = ''\n            if mode == 1: slots_ref = ' slots='\n            else        : slots_ref = ':'\n\n            for host_name, num_slots in host_slots.items():\n                hf_str += '%s%s%d\\n' % (host_name, slots_ref, num_slots)\n",
         "        if mode in (1, 2):\n            hf_str = ''\n            slots_ref = ' slots=' if mode == 1 else ':'\n            for host_name, num_slots in host_slots.items():\n                hf_str += '%s%s%d\\n' % (host_name, slots_ref, num_slots)\n\n        else:\n            hf_str = '%s\\n' % '\\n'.join(list(host_slots.keys()))\n")]),
]


# ------------------------------------------------------------------------------
# round 5: R09.12 (h1), R09.13 (h2), R09.4 return sites (h3), R09.15 (h4),
# R09.14 (h5), R09.11 per-element count (h6)
#
_MR       = _L + 'mpirun.py'
_MR_HF    = "            hostfile = ru.create_hostfile(sandbox, uid, host_list,\n                                          impaired=True)\n"
_BASE     = _L + 'base.py'
_PALS     = "        if 'pals' in exe.lower():\n"
_FL_NONE  = "            self._log.debug('    %s: %s', name, error)\n\n        return None, None"
_FL_GET   = "            launcher = self._launchers[name]\n"
_IB       = _L + 'ibrun.py'
_IB_GET   = "        tasks_per_node = self._lm_cfg.get('options', {}).get('tasks_per_node')\n"
_IB_FB    = "        if not tasks_per_node:\n            tasks_per_node = self._rm_info['cores_per_node'] // \\\n                             (n_ranks * n_threads_per_rank) or 1\n"
_PR       = _L + 'prte.py'
_PR_LOOP  = "            for slot in slots:\n                ranks[slot['node_name']] += 1\n"
_PR_HOST  = "            flags += ' --host ' + ','.join(['%s:%s' % x for x in ranks.items()])\n"
_JS_HEAD  = "        base_id = 0\n        for slot_ranks in slots:\n\n            ranks_per_rs  = len(slot_ranks['cores'])\n"

MUTATIONS += [
    dict(name='R09.12 mpirun: impaired=True passed by position lands in sep (seed C09-h1)', rules=('R09.12',), edits=[
        (_MR, _MR_HF, "            hostfile = ru.create_hostfile(sandbox, uid, host_list, True)\n")]),
    dict(name='R09.12 mpirun: the flag as 1 in the position of the separator', rules=('R09.12',), edits=[
        (_MR, _MR_HF, "            hostfile = ru.create_hostfile(sandbox, uid, host_list, 1)\n")]),
    dict(name='R09.12 mpirun: separator given as a flag by keyword', rules=('R09.12',), edits=[
        (_MR, _MR_HF, "            one_per_rank = True\n            hostfile = ru.create_hostfile(sandbox, uid, host_list,\n                                          sep=one_per_rank)\n")]),
    dict(name='R09.12 mpirun: file name and host list exchanged', rules=('R09.12',), edits=[
        (_MR, _MR_HF, "            hostfile = ru.create_hostfile(sandbox, host_list, uid,\n                                          impaired=True)\n")]),
    dict(name='R09.12 mpirun: one argument too many', rules=('R09.12',), edits=[
        (_MR, _MR_HF, "            hostfile = ru.create_hostfile(sandbox, uid, host_list, ' ', True,\n                                          True)\n")]),
    dict(name='R09.12 mpiexec: rank file helper gets uid where it expects the slots', rules=('R09.12',), edits=[
        (_ME, "            rankfile     = self._get_rank_file(slots, uid, sbox)\n", "            rankfile     = self._get_rank_file(uid, slots, sbox)\n")]),
    dict(name='R09.12 jsrun: resource set helper gets the sandbox where it expects the slots', rules=('R09.12',), edits=[
        (_JS, "self._create_resource_set_file(\n                slots, uid, task['task_sandbox_path'])", "self._create_resource_set_file(\n                task['task_sandbox_path'], uid, slots)")]),
    dict(name='R09.13 pals detection by the upper-case flavour constant (seed C09-h2)', rules=('R09.13',), edits=[
        (_BASE, _PALS, "        if self.MPI_FLAVOR_PALS in exe.lower():\n")]),
    dict(name='R09.13 pals detection: upper-case literal, folded path kept in a local', rules=('R09.13',), edits=[
        (_BASE, _PALS, "        exe_low = exe.lower()\n        if 'PALS' in exe_low:\n")]),
    dict(name='R09.13 open mpi detection with the capitalised product name', rules=('R09.13',), edits=[
        (_BASE, "            elif '(open mpi)' in line.lower():", "            elif '(Open MPI)' in line.lower():")]),
    dict(name='R09.13 mpirun: mpt variant tested with the upper-case suffix', rules=('R09.13',), edits=[
        (_MR, "        if '_mpt' in self.name.lower():", "        if '_MPT' in self.name.lower():")]),
    dict(name='R09.13 jsrun: erf variant tested by endswith with the upper-case suffix', rules=('R09.13',), edits=[
        (_JS, "        if '_erf' in self.name.lower():", "        if self.name.lower().endswith('_ERF'):")]),
    dict(name='R09.4 find_launcher: single configured launcher returned unasked (seed C09-h3)', rules=('R09.4',), edits=[
        (_R, "    def find_launcher(self, task):\n\n        errors = list()", "    def find_launcher(self, task):\n\n        if len(self._launch_order) == 1:\n            name = self._launch_order[0]\n            return self._launchers[name], name\n\n        errors = list()")]),
    dict(name='R09.4 find_launcher: last launcher of the order as fallback when none accepts', rules=('R09.4',), edits=[
        (_R, _FL_NONE, "            self._log.debug('    %s: %s', name, error)\n\n        return launcher, name")]),
    dict(name='R09.4 find_launcher: fast path in the loop, in front of the question', rules=('R09.4',), edits=[
        (_R, _FL_GET, _FL_GET + "            if len(self._launch_order) == 1:\n                return launcher, name\n")]),
    dict(name='R09.4 find_launcher: default launcher bound in front of the loop', rules=('R09.4',), edits=[
        (_R, _FL_HEAD, "        errors = list()\n        found  = self._launchers[self._launch_order[0]], self._launch_order[0]\n        for name in self._launch_order:"),
        (_R, _FL_ACCEPT, "            if lm_can_launch:\n                found = launcher, name\n                break\n            else:"),
        (_R, _FL_NONE, "            self._log.debug('    %s: %s', name, error)\n\n        return found")]),
    dict(name='R09.15 ibrun: tasks_per_node defaults to 1 (seed C09-h4)', rules=('R09.15',), edits=[
        (_IB, _IB_GET, "        tasks_per_node = self._lm_cfg.get('options', {}).get('tasks_per_node', 1)\n")]),
    dict(name='R09.15 ibrun: tasks_per_node `or 1` in front of the derivation', rules=('R09.15',), edits=[
        (_IB, _IB_GET, "        tasks_per_node = self._lm_cfg.get('options', {}).get('tasks_per_node') or 1\n")]),
    dict(name='R09.15 ibrun: default 1, derivation as `or` operand', rules=('R09.15',), edits=[
        (_IB, _IB_GET + _IB_FB, "        tasks_per_node = self._lm_cfg.get('options', {}).get('tasks_per_node', 1) \\\n                      or self._rm_info['cores_per_node'] // \\\n                         (n_ranks * n_threads_per_rank) or 1\n")]),
    dict(name='R09.15 ibrun: derivation for None, default 0', rules=('R09.15',), edits=[
        (_IB, _IB_GET, "        tasks_per_node = self._lm_cfg.get('options', {}).get('tasks_per_node', 0)\n"),
        (_IB, "        if not tasks_per_node:\n", "        if tasks_per_node is None:\n")]),
    dict(name='R09.14 prte: --host appended inside the counting loop (seed C09-h5)', rules=('R09.14',), edits=[
        (_PR, _PR_LOOP + _PR_HOST, _PR_LOOP + "                flags += ' --host ' + ','.join(['%s:%s' % x\n                                                for x in ranks.items()])\n")]),
    dict(name='R09.14 prte: host string built in a local, appended inside the loop', rules=('R09.14',), edits=[
        (_PR, _PR_LOOP + _PR_HOST, _PR_LOOP + "                hosts  = ','.join('%s:%s' % x for x in ranks.items())\n                flags += ' --host ' + hosts\n")]),
    dict(name='R09.14 prte: per-iteration host strings collected in a list', rules=('R09.14',), edits=[
        (_PR, "            ranks = collections.defaultdict(int)\n" + _PR_LOOP + _PR_HOST,
         "            ranks = collections.defaultdict(int)\n            hosts = list()\n" + _PR_LOOP + "                hosts.append(','.join(['%s:%s' % x for x in ranks.items()]))\n            flags += ' --host ' + ','.join(hosts)\n")]),
    dict(name='R09.14 mpiexec host file: lines appended while the hosts are counted', rules=('R09.14',), edits=[
        (_ME, "        for slot in slots:\n            host_slots[slot['node_name']] += 1\n\n        if mode == 0:\n            hf_str = '%s\\n' % '\\n'.join(list(host_slots.keys()))\n",
         "        hf_str = ''\n        for slot in slots:\n            host_slots[slot['node_name']] += 1\n            if mode == 0:\n                hf_str += '%s\\n' % '\\n'.join(list(host_slots.keys()))\n\n        if mode == 0:\n            pass\n")]),
    dict(name='R09.11 jsrun: ranks per resource set taken once from the first slot (seed C09-h6)', rules=('R09.11',), edits=[
        (_JS, _JS_HEAD, "        base_id       = 0\n        ranks_per_rs  = len(slots[0]['cores'])\n        for slot_ranks in slots:\n\n")]),
    dict(name='R09.11 jsrun: ranks per resource set of the last slot, in the loop', rules=('R09.11',), edits=[
        (_JS, "            ranks_per_rs  = len(slot_ranks['cores'])\n", "            ranks_per_rs  = len(slots[-1]['cores'])\n")]),
    dict(name='R09.11 jsrun: first slot kept in a local, its rank count used for every set', rules=('R09.11',), edits=[
        (_JS, _JS_HEAD, "        base_id = 0\n        first   = slots[0]\n        for slot_ranks in slots:\n\n            ranks_per_rs  = len(first['cores'])\n")]),
]

SILENT += [
    dict(name='mpirun host file: every argument by keyword', edits=[
        (_MR, _MR_HF, "            hostfile = ru.create_hostfile(sandbox=sandbox, name=uid,\n                                          hostlist=host_list, impaired=True)\n")]),
    dict(name='mpirun host file: separator spelled out, flag by position', edits=[
        (_MR, _MR_HF, "            hostfile = ru.create_hostfile(sandbox, uid, host_list, ' ', True)\n")]),
    dict(name='mpirun host file: flag and host list through locals', edits=[
        (_MR, _MR_HF, "            one_per_rank = True\n            hosts        = host_list\n            hostfile = ru.create_hostfile(sandbox, uid, hosts,\n                                          impaired=one_per_rank)\n")]),
    dict(name='mpirun host file: separator in a local', edits=[
        (_MR, _MR_HF, "            blank    = ' '\n            hostfile = ru.create_hostfile(sandbox, uid, host_list, blank,\n                                          impaired=True)\n")]),
    dict(name='mpiexec rank file helper called with keywords', edits=[
        (_ME, "            rankfile     = self._get_rank_file(slots, uid, sbox)\n", "            rankfile     = self._get_rank_file(uid=uid, sandbox=sbox,\n                                               slots=slots)\n")]),
    dict(name='jsrun resource set helper: slots through a renamed local', edits=[
        (_JS, "self._create_resource_set_file(\n                slots, uid, task['task_sandbox_path'])", "self._create_resource_set_file(\n                placed, uid, task['task_sandbox_path'])"),
        (_JS, "        if self._erf:\n\n", "        placed = slots\n        if self._erf:\n\n")]),
    dict(name='pals detection: folded path kept in a local', edits=[
        (_BASE, _PALS, "        exe_low = exe.lower()\n        if 'pals' in exe_low:\n")]),
    dict(name='pals detection: the flavour constant folded as well', edits=[
        (_BASE, _PALS, "        if self.MPI_FLAVOR_PALS.lower() in exe.lower():\n")]),
    dict(name='pals detection: upper-case constant against the upper-cased path', edits=[
        (_BASE, _PALS, "        if self.MPI_FLAVOR_PALS in exe.upper().strip():\n")]),
    dict(name='pals detection: negated test, early-continue style', edits=[
        (_BASE, _PALS + "            flavor = self.MPI_FLAVOR_PALS\n", "        if 'pals' not in exe.lower():\n            pass\n        else:\n            flavor = self.MPI_FLAVOR_PALS\n")]),
    dict(name='mpirun: variant suffixes tested on the lower-cased name kept in a local', edits=[
        (_MR, "        if '_mpt' in self.name.lower():", "        lname = self.name.lower()\n        if '_mpt' in lname:"),
        (_MR, "        if '_rsh' in self.name.lower():", "        if lname.endswith('_rsh'):")]),
    dict(name='find_launcher: accepted pair through a local', edits=[
        (_R, _FL_ACCEPT, "            if lm_can_launch:\n                pick = launcher, name\n                return pick\n            else:")]),
    dict(name='find_launcher: break, result chained through two locals, conditional return', edits=[
        (_R, _FL_HEAD, "        errors = list()\n        found  = None\n        for name in self._launch_order:"),
        (_R, _FL_ACCEPT, "            if lm_can_launch:\n                cand  = (launcher, name)\n                found = cand\n                break\n            else:"),
        (_R, "        self._log.error('no launch method for task %s:', task['uid'])", "        if found is not None:\n            return found\n\n        self._log.error('no launch method for task %s:', task['uid'])")]),
    dict(name='find_launcher: the refusal pair kept in a local', edits=[
        (_R, _FL_HEAD, "        errors  = list()\n        nothing = None, None\n        for name in self._launch_order:"),
        (_R, _FL_NONE, "            self._log.debug('    %s: %s', name, error)\n\n        return nothing")]),
    dict(name='ibrun: tasks_per_node default None spelled out', edits=[
        (_IB, _IB_GET, "        tasks_per_node = self._lm_cfg.get('options', {}).get('tasks_per_node',\n                                                              None)\n")]),
    dict(name='ibrun: tasks_per_node default 0, options through a local', edits=[
        (_IB, _IB_GET, "        lm_options     = self._lm_cfg.get('options', {})\n        tasks_per_node = lm_options.get('tasks_per_node', 0)\n")]),
    dict(name='ibrun: derivation as `or` operand of the option', edits=[
        (_IB, _IB_GET + _IB_FB, "        tasks_per_node = self._lm_cfg.get('options', {}).get('tasks_per_node') \\\n                      or self._rm_info['cores_per_node'] // \\\n                         (n_ranks * n_threads_per_rank) or 1\n")]),
    dict(name='ibrun: derivation when the option is None', edits=[
        (_IB, "        if not tasks_per_node:\n", "        if tasks_per_node is None or tasks_per_node == 0:\n")]),
    dict(name='ibrun: configured value kept apart, derivation in the else branch', edits=[
        (_IB, _IB_GET + _IB_FB, "        configured = self._lm_cfg.get('options', {}).get('tasks_per_node')\n        if configured:\n            tasks_per_node = configured\n        else:\n            tasks_per_node = self._rm_info['cores_per_node'] // \\\n                             (n_ranks * n_threads_per_rank) or 1\n")]),
    dict(name='ibrun: a named setting (not the unset case) selects the derivation', edits=[
        (_IB, _IB_GET, "        tasks_per_node = self._lm_cfg.get('options', {}).get('tasks_per_node', 'auto')\n"),
        (_IB, "        if not tasks_per_node:\n", "        if tasks_per_node == 'auto':\n")]),
    dict(name='prte: host string through a local, behind the loop', edits=[
        (_PR, _PR_HOST, "            hosts  = ','.join(['%s:%s' % x for x in ranks.items()])\n            flags += ' --host ' + hosts\n")]),
    dict(name='prte: host option re-computed per iteration (overwritten), appended behind the loop', edits=[
        (_PR, _PR_LOOP + _PR_HOST, _PR_LOOP + "                host_opt = ' --host ' + ','.join(['%s:%s' % x\n                                                  for x in ranks.items()])\n            flags += host_opt\n")]),
    dict(name='prte: order of first appearance recorded in the counting loop', edits=[
        (_PR, "            ranks = collections.defaultdict(int)\n" + _PR_LOOP + _PR_HOST,
         "            ranks = collections.defaultdict(int)\n            order = list()\n            for slot in slots:\n                node = slot['node_name']\n                if node not in ranks:\n                    order.append(node)\n                ranks[node] += 1\n            flags += ' --host ' + ','.join(['%s:%s' % (n, ranks[n]) for n in order])\n")]),
    dict(name='prte: ranks per host by a Counter', edits=[
        (_PR, "            ranks = collections.defaultdict(int)\n" + _PR_LOOP, "            ranks = collections.Counter(slot['node_name'] for slot in slots)\n")]),
    dict(name='jsrun: cores of the slot in a local, counted there', edits=[
        (_JS, "            ranks_per_rs  = len(slot_ranks['cores'])\n", "            rs_cores      = slot_ranks['cores']\n            ranks_per_rs  = len(rs_cores)\n")]),
    dict(name='jsrun: resource sets walked by index', edits=[
        (_JS, _JS_HEAD, "        base_id = 0\n        for rs_idx, slot_ranks in enumerate(slots):\n\n            ranks_per_rs  = len(slots[rs_idx]['cores'])\n")]),
    dict(name='jsrun: rank count of the first slot, every other slot asserted to agree', edits=[
        (_JS, _JS_HEAD, "        base_id       = 0\n        ranks_per_rs  = len(slots[0]['cores'])\n        for slot_ranks in slots:\n\n            assert len(slot_ranks['cores']) == ranks_per_rs, 'inhomog. RS'\n")]),
]


# ------------------------------------------------------------------------------
# round 6: R09.16 (seed C09-i1 and the same slip at sibling launch methods)
#
_SR       = _L + 'srun.py'
_SR_ELIF  = "        elif nodelist:\n            mapping += ' --nodelist=%s' % ','.join(nodelist)\n"
_SR_BOTH  = "        if nodefile:\n            mapping += ' --nodefile=%s' % nodefile\n\n" + _SR_ELIF
_SR_FILE  = ("            if self._vmajor > MIN_VSLURM_IN_LIST:\n"
             "                if n_nodes > MIN_NNODES_IN_LIST:\n"
             "                    nodefile = '%s/%s.nodes' % (sbox, uid)\n"
             "                    with ru.ru_open(nodefile, 'w') as fout:\n"
             "                        fout.write(','.join(nodelist) + '\\n')\n")
_SR_WRITE = ("                    nodefile = '%s/%s.nodes' % (sbox, uid)\n"
             "                    with ru.ru_open(nodefile, 'w') as fout:\n"
             "                        fout.write(','.join(nodelist) + '\\n')\n")
_MPI_ELSE = "        else:\n            # Construct the hosts_string ('h1,h2,..,hN')\n            if self._mpt: mpt_hosts_string"

MUTATIONS += [
    dict(name='R09.16 srun: node list only for short lists, node file only on new slurm (seed C09-i1)', rules=('R09.16',), edits=[
        (_SR, "        elif nodelist:\n", "        elif nodelist and n_nodes <= MIN_NNODES_IN_LIST:\n")]),
    dict(name='R09.16 srun: the same as a nested negated test', rules=('R09.16',), edits=[
        (_SR, _SR_ELIF, "        elif nodelist:\n            if not n_nodes > MIN_NNODES_IN_LIST:\n                mapping += ' --nodelist=%s' % ','.join(nodelist)\n")]),
    dict(name='R09.16 srun: node list only on new slurm', rules=('R09.16',), edits=[
        (_SR, "        elif nodelist:\n", "        elif nodelist and self._vmajor > MIN_VSLURM_IN_LIST:\n")]),
    dict(name='R09.16 srun: node file named whenever slurm is new, written only for long lists', rules=('R09.16',), edits=[
        (_SR, _SR_FILE, "            if self._vmajor > MIN_VSLURM_IN_LIST:\n                nodefile = '%s/%s.nodes' % (sbox, uid)\n                if n_nodes > MIN_NNODES_IN_LIST:\n                    with ru.ru_open(nodefile, 'w') as fout:\n                        fout.write(','.join(nodelist) + '\\n')\n")]),
    dict(name='R09.16 srun: node list below the threshold only (gap at the threshold on old slurm)', rules=('R09.16',), edits=[
        (_SR, "        elif nodelist:\n", "        elif nodelist and len(nodelist) < MIN_NNODES_IN_LIST:\n")]),
    dict(name='R09.16 prte: single rank tasks get no --host', rules=('R09.16',), edits=[
        (_L + 'prte.py', "        if not slots:\n            # this task is unscheduled", "        if not slots or len(slots) == 1:\n            # this task is unscheduled")]),
    dict(name='R09.16 mpirun: host list for fewer than 42 ranks, host file for more (none for 42)', rules=('R09.16',), edits=[
        (_L + 'mpirun.py', _MPI_ELSE, _MPI_ELSE.replace('        else:\n', '        elif len(host_list) < 42:\n'))]),
    dict(name='R09.16 mpirun_mpt: hosts only named for more than one rank', rules=('R09.16',), edits=[
        (_L + 'mpirun.py', "            if self._mpt: mpt_hosts_string = '%s'       % ','.join(host_list)\n", "            if self._mpt and len(host_list) > 1: mpt_hosts_string = '%s'       % ','.join(host_list)\n            elif self._mpt: pass\n")]),
    dict(name='R09.16 ssh: fast path returns the bare script for plain single rank tasks', rules=('R09.16',), edits=[
        (_L + 'ssh.py', "        host = slots[0]['node_name']\n", "        if task['description'].get('ranks', 1) == 1 and not task['description'].get('use_mpi'):\n            return exec_path\n        host = slots[0]['node_name']\n")]),
]

SILENT += [
    dict(name='srun: node list unless the node file was written, spelled by its two conditions', edits=[
        (_SR, "        elif nodelist:\n", "        elif nodelist and (n_nodes <= MIN_NNODES_IN_LIST or self._vmajor <= MIN_VSLURM_IN_LIST):\n")]),
    dict(name='srun: elif as else / nested if', edits=[
        (_SR, _SR_ELIF, "        else:\n            if nodelist:\n                mapping += ' --nodelist=%s' % ','.join(nodelist)\n")]),
    dict(name='srun: node list tested through its length', edits=[
        (_SR, "        elif nodelist:\n", "        elif n_nodes and slots:\n")]),
    dict(name='srun: node file condition hoisted into a local', edits=[
        (_SR, _SR_FILE, "            use_file = self._vmajor > MIN_VSLURM_IN_LIST and n_nodes > MIN_NNODES_IN_LIST\n            if use_file:\n" + _SR_WRITE)]),
    dict(name='srun: node file condition as one test, thresholds by value', edits=[
        (_SR, _SR_FILE, "            if self._vmajor >= MIN_VSLURM_IN_LIST + 1 and len(nodelist) >= 43:\n" + _SR_WRITE)]),
    dict(name='srun: node file tested with `is not None`', edits=[
        (_SR, "        if nodefile:\n            mapping += ' --nodefile=%s' % nodefile\n", "        if nodefile is not None:\n            mapping += ' --nodefile=%s' % nodefile\n")]),
    dict(name='srun: node list branch first', edits=[
        (_SR, _SR_BOTH, "        if nodelist and not nodefile:\n            mapping += ' --nodelist=%s' % ','.join(nodelist)\n        elif nodefile:\n            mapping += ' --nodefile=%s' % nodefile\n")]),
    dict(name='srun: node option collected in a local', edits=[
        (_SR, _SR_BOTH, "        where = ''\n        if nodefile:\n            where = ' --nodefile=%s' % nodefile\n        elif len(nodelist) > 0:\n            where = ' --nodelist=%s' % ','.join(nodelist)\n        mapping += where\n")]),
    dict(name='prte: unscheduled case as a positive test', edits=[
        (_L + 'prte.py', "        if not slots:\n            # this task is unscheduled - we leave it to PRRTE/PMI-X\n            # to correctly place the task\n            pass\n        else:\n", "        if slots:\n")]),
    dict(name='mpirun: else of the host file threshold as its complement', edits=[
        (_L + 'mpirun.py', _MPI_ELSE, _MPI_ELSE.replace('        else:\n', '        elif len(host_list) < 43:\n'))]),
]


# ------------------------------------------------------------------------------
# behaviour-preserving refactorings of the corpus (/verif/seeded/C09-r*):
# each hunk of the patch becomes one text edit of a SILENT variant
#
# ------------------------------------------------------------------------------
# round 8: R09.17 (seed C09-k1 and the same slip spelled differently)
#
_MR_HF    = ("            # Create a hostfile from the list of hosts\n"
             "            hostfile = ru.create_hostfile(sandbox, uid, host_list,\n"
             "                                          impaired=True)\n")
_MR_HFC   = ("            hostfile = ru.create_hostfile(sandbox, uid, host_list,\n"
             "                                          impaired=True)\n")
_MR_CUT   = "        if len(host_list) > 42:\n"

MUTATIONS += [
    dict(name='R09.17 mpirun: host file branch compacts host_list under its own name, -np = len(host_list) (seed C09-k1)', rules=('R09.17',), edits=[
        (_MR, _MR_HF, "            host_list = ['%s slots=%d' % (host, host_list.count(host))\n                         for host in sorted(set(host_list))]\n" + _MR_HFC)]),
    dict(name='R09.17 mpirun: host file branch re-binds host_list to sorted(set(host_list))', rules=('R09.17',), edits=[
        (_MR, _MR_HF, "            host_list = sorted(set(host_list))\n" + _MR_HFC)]),
    dict(name='R09.17 mpirun: host list branch de-duplicates host_list by dict.fromkeys', rules=('R09.17',), edits=[
        (_MR, _MR_MPTSTR, "            host_list = list(dict.fromkeys(host_list))\n" + _MR_MPTSTR)]),
]

SILENT += [
    dict(name='mpirun: host file branch re-binds host_list to a copy of itself', edits=[
        (_MR, _MR_HF, "            host_list = list(host_list)\n" + _MR_HFC)]),
    dict(name='mpirun: rank count taken before the branches and kept in a local', edits=[
        (_MR, _MR_CUT, "        n_ranks = len(host_list)\n" + _MR_CUT),
        (_MR, _MR_NP, "        if self._mpt: np = 1\n        else        : np = n_ranks\n")]),
    dict(name='mpirun: host_list re-bound to a comprehension over the slots', edits=[
        (_MR, _MR_CUT, "        host_list = [slot['node_name'] for slot in slots]\n" + _MR_CUT)]),
    dict(name='mpirun: host file branch works on a slice copy of host_list', edits=[
        (_MR, _MR_HF, "            host_list = host_list[:]\n" + _MR_HFC)]),
    dict(name='mpirun: -np from the slots themselves', edits=[
        (_MR, _MR_NP, "        if self._mpt: np = 1\n        else        : np = len(slots)\n")]),
]


def edits_from_patch(path):
    import os
    if not os.path.exists(path):
        return None
    edits, rel, old, new = [], None, [], []

    def flush():
        if rel and (old or new) and old != new:
            edits.append((rel, ''.join(old), ''.join(new)))
    with open(path, encoding='utf-8') as fh:
        for line in fh:
            if line.startswith('diff --git') or line.startswith('index ') or \
                    line.startswith('--- '):
                continue
            if line.startswith('+++ '):
                flush()
                old, new = [], []
                name = line[4:].strip()
                name = name[2:] if name.startswith('b/') else name
                pre = 'src/radical/pilot/'
                rel = name[len(pre):] if name.startswith(pre) else None
                continue
            if line.startswith('@@'):
                flush()
                old, new = [], []
            elif line.startswith('+'):
                new.append(line[1:])
            elif line.startswith('-'):
                old.append(line[1:])
            elif line.startswith(' ') or line == '\n':
                old.append(line[1:] if line != '\n' else line)
                new.append(line[1:] if line != '\n' else line)
    flush()
    return edits


def _corpus():
    import os
    here = os.path.dirname(os.path.dirname(os.path.dirname(
        os.path.abspath(__file__))))
    out = []
    for n in range(1, 13):
        name = 'C09-r%d' % n
        ed = edits_from_patch(os.path.join(here, 'seeded', name, 'patch.diff'))
        if ed:
            out.append(dict(name='corpus refactoring %s' % name, edits=ed))
    return out


SILENT += _corpus()
