"""C04  The pilot scheduler neither loses nor starves tasks (DESIGN 5 / C04)"""

import ast
from collections import deque

from ..model import (walk, dotted, call_name, kwarg, unparse, short, UNKNOWN,
                     root_name, AnalysisError, calls_in, stores_in_target)
from ..cfg import cfg_of
from ..flow import (Deps, guards, must_pass, must_pass_feasible, loop_slice,
                    reaching_defs)
from .. import idioms as I
from ..outcomes import check_one_outcome, Effects
from .c01 import sched_classes, consts, grant_paths, BASE, _ancestors


def _loops_over(g, pred):
    return [n for n in g.nodes if n.kind == 'for' and pred(n.ast)]


def _iter_names(it):
    return {x.id for x in walk(it) if isinstance(x, ast.Name)}


# ------------------------------------------------------------------------------
# R04.1  one outcome per task per stage
#
def r04_1(prog, rep, rid='R04.1'):
    rep.rule(rid, 'every task handled by a stage of the scheduling loop gets '
             'exactly one outcome (handed on / failed / canceled xor kept in '
             'a pool or work list)', minimum=7)
    f = prog.method(BASE[0], BASE[1], '_schedule_incoming')
    rep.saw(f)
    g = cfg_of(f)
    rep.stat('cfg_nodes', len(g.nodes))
    # stage 1: for task in <data>  (the bulk taken from the queue)
    qvars = set()
    for n in walk(f.node):
        if isinstance(n, ast.Assign) and isinstance(n.value, ast.Call) and \
                isinstance(n.value.func, ast.Attribute) and \
                n.value.func.attr == 'get' and \
                '_queue_sched' in unparse(n.value.func.value):
            qvars |= set(stores_in_target(n.targets[0]))
    s1 = _loops_over(g, lambda a: isinstance(a.iter, ast.Name) and
                     a.iter.id in qvars and isinstance(a.target, ast.Name) and
                     any(I.is_handon(c) or call_name(c) == 'self._fail_task'
                         or (isinstance(c.func, ast.Attribute) and
                             c.func.attr == 'append')
                         for c in calls_in(a)) and
                     "['description']" in unparse(a))
    if len(s1) != 1:
        raise AnalysisError('UNRECOGNISED-IDIOM %s: intake loop over the '
                            'queued bulk not found (%d candidates)'
                            % (f.where, len(s1)))
    check_one_outcome(rep, rid, f, g, s1[0].id, s1[0].ast.target.id,
                      'intake of incoming tasks',
                      'a task with ranks <= 0 arrives: it is reported FAILED '
                      'and is scheduled and started as well')
    # stage 2: the loop that calls _try_allocation on its loop variable
    s2 = _loops_over(g, lambda a: isinstance(a.target, ast.Name) and any(
        call_name(c) == 'self._try_allocation' and c.args and
        isinstance(c.args[0], ast.Name) and c.args[0].id == a.target.id
        for c in calls_in(a)))
    if len(s2) != 1:
        raise AnalysisError('UNRECOGNISED-IDIOM %s: placement loop not found'
                            % f.where)
    check_one_outcome(rep, rid, f, g, s2[0].id, s2[0].ast.target.id,
                      'placement of incoming tasks',
                      'a task is both started and kept waiting (started '
                      'twice later), or neither (lost)')
    # stage 3: tasks which have to wait enter the pool; they leave it again
    # only together with a CANCELED hand-on
    wl = None
    for c in calls_in(s2[0].ast):
        if isinstance(c.func, ast.Attribute) and c.func.attr == 'append' and \
                c.args and isinstance(c.args[0], ast.Name) and \
                c.args[0].id == s2[0].ast.target.id and \
                isinstance(c.func.value, ast.Name):
            wl = c.func.value.id
    if wl is None:
        raise AnalysisError('UNRECOGNISED-IDIOM %s: wait list of the placement '
                            'loop not found' % f.where)
    s3 = _loops_over(g, lambda a: isinstance(a.iter, ast.Name) and
                     a.iter.id == wl and isinstance(a.target, ast.Name))
    if len(s3) != 1:
        raise AnalysisError('UNRECOGNISED-IDIOM %s: loop over the wait list %s '
                            'not found' % (f.where, wl))
    # the wait list is filled and drained once per iteration of the enclosing
    # (priority) loop: it must be created inside that iteration, else tasks of
    # an earlier iteration are drained (inserted into a pool) again
    if s3[0].loops:
        L = s3[0].loops[-1]
        lstart = loop_slice(g, L)[0]
        creators = [n.id for n in g.stmt_nodes() if n.kind == 'stmt' and
                    isinstance(n.ast, ast.Assign) and any(
                        isinstance(t, ast.Name) and t.id == wl
                        for t in n.ast.targets) and L in n.loops]
        clears = [n.id for n in g.stmt_nodes() if n.kind == 'stmt' and
                  L in n.loops and any(
                      isinstance(c.func, ast.Attribute) and
                      c.func.attr == 'clear' and unparse(c.func.value) == wl
                      for c in calls_in(n.ast))]
        fresh = bool(creators + clears) and \
            must_pass(g, lstart, s2[0].id, creators + clears)
        rep.check(fresh, rid, f, 'the wait list `%s` is created anew in every '
                  'iteration of the loop that fills and drains it' % wl,
                  construct='waitlist:fresh', message='the wait list `%s` is '
                  'filled and drained inside the priority loop but created '
                  'outside of it: tasks which had to wait at a higher '
                  'priority are inserted again into the wait pool of every '
                  'lower priority handled in the same call' % wl,
                  loc=f.loc(s3[0].ast),
                  history='one bulk with tasks H (priority 1) and L '
                  '(priority 0) which both have to wait: H sits in '
                  '_waitpool[1] and _waitpool[0] and is started twice')
    okp = s3[0].loops == s2[0].loops and \
        s3[0].id in g.reachable(s2[0].id, labels={'done', 'next', 'T', 'F'})
    check_one_outcome(rep, rid, f, g, s3[0].id, s3[0].ast.target.id,
                      'insertion into the wait pool',
                      'a task that has to wait is not inserted into the pool '
                      '(lost), or is canceled and still kept in the pool '
                      '(started after it was reported CANCELED)')
    body3 = g.loop_body[s3[0].id]
    pool_al = I.Aliases(prog, None, {f.name: f}, 'self._waitpool')
    ins = [n for n in g.stmt_nodes() if n.id in body3 and n.kind == 'stmt' and
           isinstance(n.ast, ast.Assign) and
           isinstance(n.ast.targets[0], ast.Subscript) and
           pool_al.is_rooted_expr(f.name, n.ast.targets[0])]
    rep.check(bool(ins) and okp, rid, f, 'tasks of the wait list are inserted '
              'into self._waitpool after the placement loop',
              construct='waitlist->waitpool',
              message='tasks which could not be placed are not inserted into '
              'self._waitpool', loc=f.loc(s3[0].ast),
              history='a task that does not fit right now is dropped')

    # the wait pool pass
    f2 = prog.method(BASE[0], BASE[1], '_schedule_waitpool')
    rep.saw(f2)
    g2 = cfg_of(f2)
    bis = None
    for n in walk(f2.node):
        if isinstance(n, ast.Assign) and isinstance(n.value, ast.Call) and \
                call_name(n.value).endswith('lazy_bisect'):
            bis = n
    if bis is None or not isinstance(bis.targets[0], ast.Tuple) or \
            len(bis.targets[0].elts) != 3:
        raise AnalysisError('UNRECOGNISED-IDIOM %s: result of lazy_bisect is '
                            'not unpacked into three names' % f2.where)
    good, badl, failed = [e.id for e in bis.targets[0].elts]
    src = bis.value.args[0] if bis.value.args else kwarg(bis.value, 'data')
    if not isinstance(src, ast.Name):
        raise AnalysisError('UNRECOGNISED-IDIOM %s: bisect input' % f2.where)
    chk = kwarg(bis.value, 'check')
    rep.check(chk is not None and unparse(chk) == 'self._try_allocation', rid,
              f2, 'lazy_bisect checks with self._try_allocation',
              construct='bisect:check', message='the wait pool is bisected '
              'with `%s`, not with self._try_allocation: tasks are started '
              'without a grant' % short(chk, 40), loc=f2.loc(bis))
    # pool task -> to_test xor to_wait
    keeps = _triage(prog, rep, rid, f2, g2, bis, src.id)
    keep = ' + '.join(keeps) if keeps else None
    smap2 = I.stmt_node_map(g2)
    bn = smap2[id(bis)]
    # started
    started = [c for c in calls_in(f2.node) if I.is_handon(c) and
               isinstance(I.handon_thing(c), ast.Name) and
               I.handon_thing(c).id == good]
    okst = len(started) == 1 and \
        I.handon_state(prog, f2, started[0]) == prog.const(
            'states.py', 'AGENT_EXECUTING_PENDING') and \
        I.flag(started[0], 'push') is True and \
        must_pass(g2, bn.id, _next_iter_or_exit(g2, bn),
                  [smap2[id(started[0])].id]) if started else False
    rep.check(okst, rid, f2, 'the placed tasks (%s) are handed on once to '
              'AGENT_EXECUTING_PENDING with push=True' % good,
              construct='bisect:started', message='the tasks placed from the '
              'wait pool are not handed on exactly once to the executor '
              '(found %d hand-on(s) of `%s`)' % (len(started), good),
              loc=f2.loc(bis),
              history='a waiting task is granted cores and then never '
              'started: the cores stay BUSY forever')
    # failed
    sf = _loops_over(g2, lambda a: isinstance(a.iter, ast.Name) and
                     a.iter.id == failed)
    okf = False
    if len(sf) == 1:
        tv = stores_in_target(sf[0].ast.target)
        okf = bool(tv) and check_one_outcome(
            rep, rid, f2, g2, sf[0].id, tv[0], 'tasks failed by the bisect',
            'a task whose allocation raised is neither failed nor kept')
        okf = okf and must_pass(g2, bn.id, _next_iter_or_exit(g2, bn),
                                [sf[0].id])
    rep.check(okf, rid, f2, 'every task in the bisect\'s failed list (%s) is '
              'failed' % failed, construct='bisect:failed',
              message='tasks for which the allocation raised (`%s`) are not '
              'all failed: they vanish from the pool without a final state'
              % failed, loc=f2.loc(bis),
              history='a waiting task that can never be scheduled disappears '
              'silently; the application waits forever')
    # new pool = unscheduled + kept
    c2 = _Ctx(prog, f2)
    newp = [n for n in walk(f2.node) if isinstance(n, ast.Assign) and
            isinstance(n.targets[0], ast.Subscript) and
            c2.level(n.targets[0].value, smap2[id(n)]) == 0]
    okn = False
    for n in newp:
        names = _flows_into(g2, smap2, f2.node, n.value, smap2[id(n)])
        if badl in names and all(k in names for k in keeps) and \
                good not in names:
            cn = smap2[id(n)]
            if must_pass(g2, bn.id, _next_iter_or_exit(g2, bn), [cn.id]):
                okn = True
    rep.check(okn, rid, f2, 'the new pool is built from %s + %s (and not from '
              'the started tasks)' % (badl, keep), construct='bisect:newpool',
              message='after the bisect the wait pool is not rebuilt from the '
              'unscheduled tasks and the tasks set aside (%s, %s)'
              % (badl, keep), loc=f2.loc(bis),
              history='tasks that did not fit are dropped from the pool, or '
              'started tasks stay in it and are started again')


# ------------------------------------------------------------------------------
# wait pool triage: every task of the pool of one priority goes into the input
# of the bisect xor into a list of tasks which keep waiting
#
def _formula(e):
    """boolean structure of a test over opaque atoms (spelled canonically:
    `a != b` is not(`a == b`), `a <= b` is not(`a > b`) ...)"""
    if isinstance(e, ast.BoolOp):
        return ('and' if isinstance(e.op, ast.And) else 'or',
                [_formula(v) for v in e.values])
    if isinstance(e, ast.UnaryOp) and isinstance(e.op, ast.Not):
        return ('not', _formula(e.operand))
    if _is_bool_call(e):
        return _formula(e.args[0])
    if isinstance(e, ast.Constant):
        return ('const', bool(e.value))
    if isinstance(e, ast.Compare) and len(e.ops) == 1:
        neg = {ast.NotEq: '==', ast.NotIn: 'in', ast.IsNot: 'is',
               ast.LtE: '>', ast.Lt: '>='}
        pos = {ast.Eq: '==', ast.In: 'in', ast.Is: 'is', ast.Gt: '>',
               ast.GtE: '>='}
        l, r = unparse(e.left), unparse(e.comparators[0])
        for table, negated in ((pos, False), (neg, True)):
            for k, sym in table.items():
                if isinstance(e.ops[0], k):
                    at = ('atom', '%s %s %s' % (l, sym, r))
                    return ('not', at) if negated else at
    return ('atom', unparse(e))


def _atoms(fm, out):
    if fm[0] == 'atom':
        out.add(fm[1])
    elif fm[0] == 'not':
        _atoms(fm[1], out)
    elif fm[0] in ('and', 'or'):
        for x in fm[1]:
            _atoms(x, out)
    return out


def _holds(fm, sigma):
    if fm[0] == 'atom':
        return sigma[fm[1]]
    if fm[0] == 'const':
        return fm[1]
    if fm[0] == 'not':
        return not _holds(fm[1], sigma)
    if fm[0] == 'and':
        return all(_holds(x, sigma) for x in fm[1])
    return any(_holds(x, sigma) for x in fm[1])


def _task_var(ctx, target, it, at, env=None):
    """the name bound to a task of the pool of one priority by `for target in
    it` (pool.values(), pool.items(): second name), and the spelling of that
    pool; else None"""
    names = stores_in_target(target)
    for nm in names:
        if ctx._elem_level(target, it, nm, at, env, 5) == 2:
            pool = _unwrap_iter(it).func.value
            return nm, ctx.canon(pool, at, env)
    return None


def _receives(stmt, var):
    """names of the containers which receive the task `var` by the simple
    statement `stmt` (X.append(var), X.add(var), X[k] = var)"""
    out = []
    if isinstance(stmt, ast.Expr) and isinstance(stmt.value, ast.Call):
        c = stmt.value
        if isinstance(c.func, ast.Attribute) and \
                c.func.attr in ('append', 'add', 'appendleft') and \
                isinstance(c.func.value, ast.Name) and len(c.args) == 1 and \
                isinstance(c.args[0], ast.Name) and c.args[0].id == var:
            out.append(c.func.value.id)
    if isinstance(stmt, ast.Assign) and isinstance(stmt.value, ast.Name) and \
            stmt.value.id == var:
        for t in stmt.targets:
            if isinstance(t, ast.Subscript) and isinstance(t.value, ast.Name):
                out.append(t.value.id)
    return out


class _Filler:
    """one place which sorts tasks of the pool into lists: a `for` loop over
    the pool (kind 'loop') or a comprehension over it (kind 'comp')"""

    def __init__(self, kind, pool, var, node, ast_, lists, cond=None):
        self.kind, self.pool, self.var = kind, pool, var
        self.node, self.ast, self.lists, self.cond = node, ast_, lists, cond


def _sources_of(ctx, name, at, depth=4):
    """[(cfg node, value)] the creations of the list `name` as it is at `at`,
    through plain copies (`x = sorted(y)`, `x = y`)"""
    out = []
    for n, v in ctx.defs(name, at):
        if v is None:
            out.append((n, None))
            continue
        u = _unwrap_iter(v)
        if isinstance(u, ast.Name) and depth > 0:
            out += _sources_of(ctx, u.id, n, depth - 1)
        else:
            out.append((n, u))
    return out


def _triage(prog, rep, rid, f2, g2, bis, src):
    """decides the triage obligation; returns the names of the lists (other
    than the bisect input `src`) which receive tasks of the pool"""
    ctx = _Ctx(prog, f2)
    bn = ctx.smap[id(bis)]
    fillers = []
    # loops over the pool which put their task somewhere
    for n in g2.nodes:
        if n.kind != 'for':
            continue
        tv = _task_var(ctx, n.ast.target, n.ast.iter, n)
        if tv is None:
            continue
        lists = set()
        for m in g2.stmt_nodes():
            if m.kind == 'stmt' and m.id in g2.loop_body[n.id]:
                lists |= set(_receives(m.ast, tv[0]))
        if lists:
            fillers.append(_Filler('loop', tv[1], tv[0], n, n.ast, lists))
    # comprehensions over the pool whose element is the task
    comps = {}
    for n in g2.stmt_nodes():
        if n.kind != 'stmt' or not isinstance(n.ast, ast.Assign) or \
                len(n.ast.targets) != 1 or \
                not isinstance(n.ast.targets[0], ast.Name):
            continue
        v = _unwrap_iter(n.ast.value)
        if not isinstance(v, (ast.ListComp, ast.SetComp, ast.GeneratorExp)) \
                or len(v.generators) != 1:
            continue
        gen = v.generators[0]
        tv = _task_var(ctx, gen.target, gen.iter, n)
        if tv is None or not isinstance(v.elt, ast.Name) or \
                v.elt.id != tv[0]:
            continue
        cond = ('and', [_formula(t) for t in gen.ifs])
        fl = _Filler('comp', tv[1], tv[0], n, v, {n.ast.targets[0].id}, cond)
        fillers.append(fl)
        comps[n.id] = fl
    # the input of the bisect
    into_src = []
    for n, v in _sources_of(ctx, src, bn):
        if n.id in comps:
            comps[n.id].lists.add(src)
            into_src.append(comps[n.id])
    into_src += [fl for fl in fillers if src in fl.lists and
                 fl not in into_src]
    if not into_src:
        raise AnalysisError('UNRECOGNISED-IDIOM %s: loop sorting pool tasks '
                            'into the bisect input not found' % f2.where)
    pool = into_src[0].pool
    fillers = [fl for fl in fillers if fl.pool == pool and
               fl.node.loops == into_src[0].node.loops]
    keeps = sorted({x for fl in fillers for x in fl.lists} - {src})
    # a comprehension target copied into the bisect input under another name
    for fl in into_src:
        if fl.kind == 'comp':
            keeps = [k for k in keeps if k not in
                     {t.id for t in fl.node.ast.targets
                      if isinstance(t, ast.Name)} or k == src]
    history = ('a waiting task is neither tested nor kept (lost from the '
               'pool), or both (started and kept: started twice)')
    if len(fillers) == 1 and fillers[0].kind == 'loop':
        fl = fillers[0]
        check_one_outcome(rep, rid, f2, g2, fl.node.id, fl.var,
                          'wait pool triage', history)
        return keeps
    # several places sort the same pool: for every valuation of the tests
    # they use, exactly one list must receive the task
    tests = []
    for fl in fillers:
        if fl.kind == 'comp':
            tests.append(fl.cond)
        else:
            for nid in g2.loop_body[fl.node.id]:
                m = g2.nodes[nid]
                if m.kind == 'test':
                    tests.append(_formula(m.ast))
                elif m.kind in ('for', 'while') and nid != fl.node.id:
                    raise AnalysisError(
                        'UNRECOGNISED-IDIOM %s: nested loop in the wait pool '
                        'triage' % f2.where)
    atoms = set()
    for t in tests:
        _atoms(t, atoms)
    atoms = sorted(atoms)
    if len(atoms) > 10:
        raise AnalysisError('UNRECOGNISED-IDIOM %s: wait pool triage over %d '
                            'tests' % (f2.where, len(atoms)))
    bad = {}
    for bits in range(1 << len(atoms)):
        sigma = {a: bool(bits >> i & 1) for i, a in enumerate(atoms)}
        got = []
        for fl in fillers:
            if fl.kind == 'comp':
                if _holds(fl.cond, sigma):
                    got += sorted(fl.lists & ({src} | set(keeps)))[:1]
            else:
                got += _simulate(f2, g2, fl, sigma)
        if len(got) != 1:
            bad.setdefault(len(got) > 1, (sigma, got))
    for dup, (sigma, got) in sorted(bad.items()):
        val = ', '.join('%s`%s`' % ('' if v else 'not ', a)
                        for a, v in sorted(sigma.items())) or 'always'
        rep.bad(rid, f2, 'wait pool triage:%s' % ('duplicated' if dup
                                                   else 'lost'),
                'wait pool triage: for a task with %s the lists %s receive '
                'it - exactly one of the bisect input `%s` and the kept '
                'lists %s is required (%s)'
                % (val, got or 'none', src, keeps,
                   'duplicated' if dup else 'lost'),
                f2.loc(into_src[0].ast), history=history)
    if not bad:
        rep.ok(rid, f2, 'wait pool triage: for every valuation of the %d '
               'test(s) exactly one of `%s` / %s receives the task (%d '
               'places sort the pool)' % (len(atoms), src, keeps,
                                          len(fillers)),
               f2.loc(into_src[0].ast))
    return keeps


def _simulate(f, g, fl, sigma):
    """the lists which receive the task in one iteration of the loop `fl`
    when its tests come out as `sigma` says"""
    start, stop, stop_edge = loop_slice(g, fl.node.id)
    got, nid, steps = [], start, 0
    while True:
        steps += 1
        if steps > 500:
            raise AnalysisError('UNRECOGNISED-IDIOM %s: wait pool triage '
                                'loop does not end' % f.where)
        n = g.nodes[nid]
        if stop(nid):
            return got
        es = [e for e in g.succ[nid] if e.label != 'exc']
        if n.kind == 'test':
            want = 'T' if _holds(_formula(n.ast), sigma) else 'F'
            es = [e for e in es if e.label == want]
        elif n.kind == 'stmt':
            got += _receives(n.ast, fl.var)
        if len(es) != 1:
            if not es and n.kind == 'stmt' and \
                    isinstance(n.ast, (ast.Return, ast.Raise)):
                return got
            raise AnalysisError('UNRECOGNISED-IDIOM %s: wait pool triage '
                                'loop has a shape this rule does not follow'
                                % f.where)
        if stop_edge(es[0]):
            return got
        nid = es[0].dst


_FILLERS = ('append', 'extend', 'update', 'add', 'insert', 'setdefault')


def _flows_into(g, smap, fnode, value, at, depth=3):
    """plain names whose content flows into `value`, evaluated at cfg node
    `at`: the names it mentions; for a mentioned loop variable of a `for`
    enclosing `at` what its iterable mentions; for a mentioned local container
    which is filled in this function (x[k] = v, x.append/extend/update(v),
    x += v) what is filled in.  Flow-insensitive for the fills (a lower bound
    on nothing: used to ask which lists reach a new pool at all)"""
    comp = set()
    for x in walk(value):
        if isinstance(x, ast.comprehension):
            comp |= set(stores_in_target(x.target))
    names = {x.id for x in walk(value) if isinstance(x, ast.Name)}
    out = set(names)
    if depth <= 0:
        return out
    for nm in names - comp - {'self'}:
        for h in reversed(at.loops):
            hn = g.nodes[h]
            if hn.kind == 'for' and nm in stores_in_target(hn.ast.target):
                out |= _flows_into(g, smap, fnode, hn.ast.iter, hn, depth - 1)
                break
        for st in walk(fnode):
            v = None
            if isinstance(st, ast.Assign) and any(
                    isinstance(t, ast.Subscript) and
                    isinstance(t.value, ast.Name) and t.value.id == nm
                    for t in st.targets):
                v = st.value
            elif isinstance(st, ast.AugAssign) and \
                    isinstance(st.target, ast.Name) and st.target.id == nm:
                v = st.value
            elif isinstance(st, ast.Expr) and isinstance(st.value, ast.Call) \
                    and isinstance(st.value.func, ast.Attribute) and \
                    st.value.func.attr in _FILLERS and \
                    isinstance(st.value.func.value, ast.Name) and \
                    st.value.func.value.id == nm and st.value.args:
                v = st.value.args[-1]
            if v is not None and id(st) in smap and smap[id(st)] is not at:
                # a fill under another binding of the name (the loop variable
                # of another loop) fills another object
                here = {n.id for n, x in reaching_defs(g, nm, at.id)}
                there = {n.id for n, x in reaching_defs(g, nm,
                                                        smap[id(st)].id)}
                if here and there and not (here & there):
                    continue
                out |= _flows_into(g, smap, fnode, v, smap[id(st)], depth - 1)
    return out


def _next_iter_or_exit(g, node):
    """the node that ends the iteration containing `node`: the loop head of
    its innermost loop, else the function exit"""
    return node.loops[-1] if node.loops else g.exit.id


# ------------------------------------------------------------------------------
# R04.2  "can never be scheduled"
#
def r04_2(prog, rep, rid='R04.2'):
    rep.rule(rid, 'a failed placement raises "can never be scheduled" exactly '
             'when no task is active, otherwise the task waits', minimum=4)
    base, classes = sched_classes(prog)
    for K in classes:
        f, g, var, starts = grant_paths(prog, rep, K, rid)
        rep.saw(f)
        # the not-granted region: paths on which the placement is falsy
        region = starts.refused()
        raises = [n for n in g.stmt_nodes() if n.id in region and
                  n.kind == 'stmt' and isinstance(n.ast, ast.Raise)
                  and n.ast.exc is not None]
        waits = [n for n in g.stmt_nodes() if n.id in region and
                 n.kind == 'stmt' and isinstance(n.ast, ast.Return) and
                 isinstance(n.ast.value, ast.Constant) and not n.ast.value.value]
        rep.check(bool(raises), rid, f, '%s: a placement that fails on the '
                  'idle pilot raises' % K.name, construct='%s:raise' % K.name,
                  message='%s._try_allocation never raises for a task that '
                  'cannot be placed on the idle pilot: it waits forever'
                  % K.name, loc=f.loc(),
                  history='a task needs more cores than the pilot has: it '
                  'stays in the wait pool for the whole pilot life time '
                  'instead of being failed')
        rep.check(bool(waits), rid, f, '%s: a placement that fails while '
                  'other tasks run returns False (wait)' % K.name,
                  construct='%s:wait' % K.name, message='%s._try_allocation '
                  'has no "wait" outcome (falsy return) for a failed placement'
                  % K.name, loc=f.loc(),
                  history='a task that would fit once a running task '
                  'finishes is failed')
        for r in raises:
            ok = False
            seen = []
            for tid, lab in guards(g, r.id):
                a = g.nodes[tid].ast
                if 'self._active_cnt' not in unparse(a):
                    continue
                seen.append((a, lab))
                if isinstance(a, ast.Compare) and len(a.ops) == 1 and \
                        unparse(a.left) == 'self._active_cnt' and \
                        isinstance(a.comparators[0], ast.Constant):
                    c, op = a.comparators[0].value, a.ops[0]
                    if c == 0 and (isinstance(op, ast.Eq) and lab == 'T' or
                                   isinstance(op, ast.NotEq) and lab == 'F' or
                                   isinstance(op, ast.LtE) and lab == 'T' or
                                   isinstance(op, ast.Gt) and lab == 'F'):
                        ok = True
                    if c == 1 and (isinstance(op, ast.Lt) and lab == 'T' or
                                   isinstance(op, ast.GtE) and lab == 'F'):
                        ok = True
                elif unparse(a) == 'self._active_cnt' and lab == 'F':
                    ok = True
            rep.check(ok, rid, f, '%s: the raise is control dependent on '
                      '_active_cnt == 0' % K.name, construct=r.ast,
                      message='%s: "can never be scheduled" is raised %s: a '
                      'task that merely has to wait for a running task is '
                      'failed, or one that can never fit is kept'
                      % (K.name, 'under `%s` taken %s' % (
                          short(seen[0][0], 40), seen[0][1]) if seen
                         else 'without testing self._active_cnt'),
                      loc=f.loc(r.ast),
                      history='pilot with 4 cores, task A uses 3, task B asks '
                      'for 2: B is failed as "can never be scheduled" '
                      'although it fits once A is done')
        for w in waits:
            # the wait outcome must not be reachable when the count is zero
            # through the accepted test: i.e. it is on the other edge
            pass


# ------------------------------------------------------------------------------
# R04.3  priority order
#
def r04_3(prog, rep, rid='R04.3'):
    rep.rule(rid, 'both priority loops iterate the priorities in descending '
             'order', minimum=2)
    for mname, cont in (('_schedule_waitpool', 'self._waitpool'),
                        ('_schedule_incoming', None)):
        f = prog.method(BASE[0], BASE[1], mname)
        g = cfg_of(f)
        found = 0
        for n in g.nodes:
            if n.kind != 'for' or not isinstance(n.ast.target, ast.Name):
                continue
            tv = n.ast.target.id
            # the loop variable indexes a pool keyed by priority and the body
            # places tasks
            uses = [x for x in walk(n.ast) if isinstance(x, ast.Subscript) and
                    isinstance(x.slice, ast.Name) and x.slice.id == tv]
            places = any(call_name(c) in ('self._try_allocation',) or
                         call_name(c).endswith('lazy_bisect')
                         for c in calls_in(n.ast))
            if not uses or not places:
                continue
            found += 1
            it = n.ast.iter
            v = _descending(it)
            if v is None:
                raise AnalysisError('UNRECOGNISED-IDIOM %s: priority loop '
                                    'iterates `%s`' % (f.where, short(it, 60)))
            rep.check(v, rid, f, '%s iterates priorities with %s'
                      % (mname, short(it, 50)), construct='%s:order' % mname,
                      message='%s iterates the priorities as `%s`: not in '
                      'descending order' % (mname, short(it, 60)),
                      loc=f.loc(n.ast),
                      history='two tasks wait with priorities 0 and 1, one '
                      'core is released: the priority-0 task is started')
        if not found:
            raise AnalysisError('UNRECOGNISED-IDIOM %s: priority loop not '
                                'found' % f.where)


def _descending(it):
    """True / False / None(unknown) for an iteration expression"""
    if isinstance(it, ast.Call) and dotted(it.func) == 'sorted':
        key = kwarg(it, 'key')
        rev = kwarg(it, 'reverse')
        if key is not None:
            return None
        if rev is None:
            return False
        if isinstance(rev, ast.Constant):
            return bool(rev.value)
        return None
    if isinstance(it, ast.Call) and dotted(it.func) == 'reversed' and it.args:
        inner = _descending(it.args[0])
        return None if inner is None else not inner
    if isinstance(it, ast.Subscript) and isinstance(it.slice, ast.Slice) and \
            it.slice.lower is None and it.slice.upper is None and \
            isinstance(it.slice.step, ast.UnaryOp) and \
            unparse(it.slice.step) == '-1':
        inner = _descending(it.value)
        return None if inner is None else not inner
    if isinstance(it, (ast.Name, ast.Attribute)):
        return False               # plain dict iteration: insertion order
    if isinstance(it, ast.Call) and isinstance(it.func, ast.Attribute) and \
            it.func.attr in ('keys', 'items') and not it.args:
        return False
    if isinstance(it, ast.Call) and dotted(it.func) == 'list' and it.args:
        return _descending(it.args[0])
    return None


# ------------------------------------------------------------------------------
# R04.4  wake-up after a release
#
def r04_4(prog, rep, rid='R04.4'):
    """def-use only (which local carries the release to which guard); whether
    the wake-up holds on every path is decided by R04.6"""
    rep.rule(rid, 'a release reported by _unschedule_completed re-enables the '
             'wait pool pass of the next loop iteration', minimum=2)
    f, g, smap, wn, un, rvar = _wakeup_anchors(prog)
    rep.saw(f)
    if not wn.loops or rvar is None:
        raise AnalysisError('UNRECOGNISED-IDIOM %s: the wait pool pass is not '
                            'guarded by a flag' % f.where)
    head, lstart, inbody, tests, deciding = _pass_guard(g, wn)
    flags = set()
    for n in deciding:
        flags |= {x.id for x in walk(n.ast) if isinstance(x, ast.Name)}
    flags.discard('self')
    if not flags:
        raise AnalysisError('UNRECOGNISED-IDIOM %s: the wait pool pass is not '
                            'guarded by a flag' % f.where)
    ftxt = ' / '.join(sorted(flags))
    # ... and the locals those are computed from
    d = Deps(f.node)
    for n in list(flags):
        flags |= {x for x in d.closure(n) if x.isidentifier() and x != 'self'}

    def names(e):
        return {x.id for x in walk(e) if isinstance(x, ast.Name)}

    def flag_assigns():
        for n in g.stmt_nodes():
            if n.kind == 'stmt' and isinstance(n.ast, ast.Assign):
                for x in n.ast.targets:
                    if isinstance(x, ast.Name) and x.id in flags:
                        yield n, x.id
    after = g.reachable(un.id, skip_nodes={wn.id})
    sets = []
    for n, x in flag_assigns():
        if n.id not in after:
            continue
        v = n.ast.value
        if isinstance(v, ast.Constant) and v.value:
            if any(rvar in names(g.nodes[tid].ast)
                   for tid, lab in guards(g, n.id, start=un.id)):
                sets.append((n, x))
        elif rvar in names(v):
            sets.append((n, x))
    rep.check(bool(sets), rid, f, 'the first result of _unschedule_completed '
              'is used to set `%s`, which guards the wait pool pass' % ftxt,
              construct='wake-up',
              message='the first result of _unschedule_completed (`%s`) does '
              'not set the flag `%s` that guards _schedule_waitpool: released '
              'resources do not wake up waiting tasks' % (rvar, ftxt),
              loc=f.loc(un.ast),
              history='a task waits alone, the running task finishes: the '
              'waiting task is not started until a new task arrives')
    # no unconditional clearing of the flag between the wake-up and the pass
    clears = []
    for s, x in sets:
        for n, y in flag_assigns():
            if y == x and isinstance(n.ast.value, ast.Constant) and \
                    not n.ast.value.value:
                # reachable after the set, before the pass, through the back
                # edge, and not avoidable
                if n.id in g.reachable(s.id) and \
                        must_pass(g, s.id, wn.id, [n.id]):
                    clears.append(n)
    rep.check(not clears, rid, f, 'the wake-up flag is not cleared on the way '
              'to the wait pool pass', construct='wake-up:clear',
              message='`%s` is set after a release but unconditionally cleared '
              'again before _schedule_waitpool runs' % ftxt,
              loc=f.loc(clears[0].ast) if clears else f.loc(),
              history='a task waits alone, the running task finishes: the '
              'waiting task is not started until a new task arrives')


# ------------------------------------------------------------------------------
# R04.6  a noted release survives until the wait pool pass
#
# The loop keeps "is it worth looking at the wait pool" in boolean locals.  The
# rule evaluates those locals abstractly (known truthy / known falsy / unknown)
# along the paths of the loop: starting right after the call of
# _unschedule_completed with its first result truthy, every path must reach
# the call of _schedule_waitpool (or leave the loop) before it reaches
# _unschedule_completed again.  Results of other calls are unconstrained, each
# branch on an unknown value is taken both ways and remembered on that path.
#
_CONST_CMP = (ast.Is, ast.IsNot, ast.Eq, ast.NotEq)

# abstract values of a local: exactly True / False / None, or only known to be
# truthy ('T') / falsy ('F'); unknown = not in the environment
_EXACT = {'True': True, 'False': False, 'None': None}


def _av_truth(av):
    if av is None:
        return None
    return av in ('True', 'T')


def _av_const(c):
    for k, v in _EXACT.items():
        if c is v:
            return k
    return 'T' if c else 'F'


def _av_is(av, const):
    """`x is const` / `x == const` for x with abstract value av and const in
    (True, False, None): True / False / None(unknown)"""
    if av is None:
        return None
    if av in _EXACT:
        return _EXACT[av] is const
    if av == 'T':
        return None if const is True else False
    return False if const is True else None


def _is_bool_call(e):
    return isinstance(e, ast.Call) and isinstance(e.func, ast.Name) and \
        e.func.id == 'bool' and len(e.args) == 1 and not e.keywords


def _const_cmp(e):
    """(operand, constant, positive) of `x is C` / `x == C` / `x is not C` /
    `x != C` with C in (True, False, None), else None"""
    if isinstance(e, ast.Compare) and len(e.ops) == 1 and \
            isinstance(e.ops[0], _CONST_CMP) and \
            isinstance(e.comparators[0], ast.Constant) and \
            any(e.comparators[0].value is c for c in (True, False, None)):
        return (e.left, e.comparators[0].value,
                isinstance(e.ops[0], (ast.Is, ast.Eq)))
    return None


def _boolean_typed(e):
    """the value of `e` is exactly True or False"""
    if isinstance(e, ast.Constant):
        return isinstance(e.value, bool)
    if isinstance(e, ast.UnaryOp) and isinstance(e.op, ast.Not):
        return True
    if isinstance(e, ast.Compare) or _is_bool_call(e):
        return True
    if isinstance(e, ast.BoolOp):
        return all(_boolean_typed(v) for v in e.values)
    if isinstance(e, ast.IfExp):
        return _boolean_typed(e.body) and _boolean_typed(e.orelse)
    return False


def _evaluable(e):
    """the expression is built only from local names, constants, not/and/or,
    bool(), comparisons with True/False/None and conditional expressions"""
    if isinstance(e, (ast.Name, ast.Constant)):
        return True
    if isinstance(e, ast.UnaryOp) and isinstance(e.op, ast.Not):
        return _evaluable(e.operand)
    if isinstance(e, ast.BoolOp):
        return all(_evaluable(v) for v in e.values)
    if isinstance(e, ast.BinOp) and isinstance(e.op, (ast.BitOr, ast.BitAnd)):
        return _evaluable(e.left) and _evaluable(e.right)
    if _is_bool_call(e):
        return _evaluable(e.args[0])
    if isinstance(e, ast.IfExp):
        return _evaluable(e.test) and _evaluable(e.body) and \
            _evaluable(e.orelse)
    c = _const_cmp(e)
    if c:
        return _evaluable(c[0])
    return False


def _aval(e, env):
    """abstract value of `e` under `env` (name -> abstract value) or None"""
    if isinstance(e, ast.Constant):
        return _av_const(e.value)
    if isinstance(e, ast.Name):
        return env.get(e.id)
    if isinstance(e, ast.BoolOp):
        # short circuit: the value is that of the deciding operand
        conj = isinstance(e.op, ast.And)
        for x in e.values[:-1]:
            t = _truth(x, env)
            if t is None:
                break
            if t != conj:
                return _aval(x, env)
        else:
            return _aval(e.values[-1], env)
    if isinstance(e, ast.IfExp):
        t = _truth(e.test, env)
        if t is not None:
            return _aval(e.body if t else e.orelse, env)
        a, b = _aval(e.body, env), _aval(e.orelse, env)
        if a is not None and a == b:
            return a
    t = _truth(e, env)
    if t is None:
        return None
    if _boolean_typed(e):
        return 'True' if t else 'False'
    return 'T' if t else 'F'


def _truth(e, env):
    """truthiness of `e` under `env`: True / False / None(unknown)"""
    if isinstance(e, ast.Constant):
        return bool(e.value)
    if isinstance(e, ast.Name):
        return _av_truth(env.get(e.id))
    if isinstance(e, ast.UnaryOp) and isinstance(e.op, ast.Not):
        v = _truth(e.operand, env)
        return None if v is None else not v
    if isinstance(e, ast.BoolOp) or (isinstance(e, ast.BinOp) and
                                     isinstance(e.op, ast.BitOr)):
        vals = [_truth(v, env) for v in (
            e.values if isinstance(e, ast.BoolOp) else [e.left, e.right])]
        if isinstance(e, ast.BoolOp) and isinstance(e.op, ast.And):
            if any(v is False for v in vals):
                return False
            return True if all(v is True for v in vals) else None
        if any(v is True for v in vals):
            return True
        return False if all(v is False for v in vals) else None
    if isinstance(e, ast.BinOp) and isinstance(e.op, ast.BitAnd):
        vals = [_truth(e.left, env), _truth(e.right, env)]
        return False if any(v is False for v in vals) else None
    if _is_bool_call(e):
        return _truth(e.args[0], env)
    if isinstance(e, ast.IfExp):
        t = _truth(e.test, env)
        a, b = _truth(e.body, env), _truth(e.orelse, env)
        if t is not None:
            return a if t else b
        return a if a == b else None
    c = _const_cmp(e)
    if c:
        x, const, pos = c
        v = _av_is(_aval(x, env), const)
        return None if v is None else (v == pos)
    return None


def _assume(e, val, env):
    """`env` refined by the fact that `e` is truthy (val) / falsy; None when
    that contradicts what is known"""
    v = _truth(e, env)
    if v is not None:
        return env if v == val else None
    if isinstance(e, ast.Name):
        env = dict(env)
        env[e.id] = 'T' if val else 'F'
        return env
    if isinstance(e, ast.UnaryOp) and isinstance(e.op, ast.Not):
        return _assume(e.operand, not val, env)
    if _is_bool_call(e):
        return _assume(e.args[0], val, env)
    if isinstance(e, ast.BoolOp):
        conj = isinstance(e.op, ast.And)
        if val == conj:
            # all operands true (and) / all operands false (or)
            for x in e.values:
                env = _assume(x, val, env)
                if env is None:
                    return None
            return env
        open_ = [x for x in e.values if _truth(x, env) is None]
        if len(open_) == 1:
            return _assume(open_[0], val, env)
        return env
    c = _const_cmp(e)
    if c:
        x, const, pos = c
        if val == pos and isinstance(x, ast.Name):
            # x is exactly the constant (its value is compatible, else the
            # comparison would have been decided above)
            env = dict(env)
            env[x.id] = _av_const(const)
            return env
        if val == pos:
            return _assume(x, const is True, env)
        return env
    return env



def _bound_names(node):
    """plain names (re)bound when the cfg node takes effect"""
    a = node.ast
    out = set()
    if a is None or node.kind in ('while', 'dispatch', 'join'):
        return out
    if node.kind == 'for':
        return set(stores_in_target(a.target))
    if node.kind == 'with':
        for i in a.items:
            if i.optional_vars is not None:
                out |= set(stores_in_target(i.optional_vars))
            out |= {x.target.id for x in walk(i.context_expr)
                    if isinstance(x, ast.NamedExpr)}
        return out
    if node.kind == 'handler':
        return {a.name} if getattr(a, 'name', None) else out
    if isinstance(a, (ast.FunctionDef, ast.AsyncFunctionDef, ast.ClassDef)):
        return {a.name}
    if isinstance(a, (ast.Import, ast.ImportFrom)):
        return {(al.asname or al.name).split('.')[0] for al in a.names}
    for x in walk(a):
        if isinstance(x, ast.Name) and isinstance(x.ctx, (ast.Store, ast.Del)):
            out.add(x.id)
    return out


class _FlagFlow:
    """abstract evaluation of the boolean locals `relevant` over a cfg"""

    def __init__(self, f, g, relevant, guard_names, max_states=60000):
        self.f, self.g, self.relevant = f, g, relevant
        self.guard_names = guard_names
        self.max_states = max_states

    def _freeze(self, env):
        return frozenset((k, v) for k, v in env.items() if k in self.relevant)

    def step(self, node, edge, st):
        """states after leaving `node` through `edge` in state `st`"""
        if edge.label == 'exc':
            return [st]                      # the node had no effect
        env = dict(st)
        a = node.ast
        if node.kind == 'test':
            for x in walk(a):
                if isinstance(x, ast.NamedExpr):
                    env.pop(x.target.id, None)
            if edge.label in ('T', 'F'):
                env = _assume(a, edge.label == 'T', env)
                if env is None:
                    return []
            return [self._freeze(env)]
        if node.kind == 'stmt' and isinstance(a, (ast.Assign, ast.AnnAssign)) \
                and a.value is not None:
            tg = a.targets if isinstance(a, ast.Assign) else [a.target]
            if all(isinstance(t, ast.Name) for t in tg):
                return self._assign([t.id for t in tg], a.value, env, node)
        if node.kind == 'stmt' and isinstance(a, ast.AugAssign) and \
                isinstance(a.target, ast.Name) and \
                isinstance(a.op, (ast.BitOr, ast.BitAnd)):
            val = ast.BinOp(left=ast.Name(id=a.target.id, ctx=ast.Load()),
                            op=a.op, right=a.value)
            return self._assign([a.target.id], val, env, node)
        bound = _bound_names(node)
        if bound & self.relevant:
            self._free_input(bound, getattr(a, 'value', None)
                             if node.kind == 'stmt' else None, node)
        for b in bound:
            env.pop(b, None)
        return [self._freeze(env)]

    def _free_input(self, bound, value, node):
        """a relevant local is bound to something this rule cannot evaluate.
        That is an unconstrained input only for the result of a call which
        does not read the flags (the three steps of the loop report what they
        found) and only for a local that is not itself tested by the guard of
        the pass; everything else: do not guess"""
        reads = {x.id for x in walk(value) if isinstance(x, ast.Name)} \
            if value is not None else set()
        if isinstance(value, ast.Call) and isinstance(
                node.ast, (ast.Assign, ast.AnnAssign)) and \
                not (reads & self.relevant) and \
                not (bound & self.guard_names):
            return
        raise AnalysisError(
            'UNRECOGNISED-IDIOM %s: `%s` computes a flag of the scheduling '
            'loop in a way that is neither a boolean expression over locals '
            'nor the result of one of the steps'
            % (self.f.where, short(node.ast, 70)
               if node.kind == 'stmt' else node.kind))

    def _assign(self, names, value, env, node):
        if not (set(names) & self.relevant):
            for n in names:
                env.pop(n, None)
            return [self._freeze(env)]
        if not _evaluable(value):
            self._free_input(set(names), value, node)
            for n in names:
                env.pop(n, None)
            return [self._freeze(env)]
        out = []
        av = _aval(value, env)
        for val in (True, False):
            e2 = _assume(value, val, env)
            if e2 is None:
                continue
            e2 = dict(e2)
            v2 = av if av is not None else _aval(value, e2)
            if v2 is None or _av_truth(v2) != val:
                v2 = ('True' if val else 'False') if _boolean_typed(value) \
                    else ('T' if val else 'F')
            for n in names:
                e2[n] = v2
            out.append(self._freeze(e2))
        return out

    def run(self, starts, stop, exc=True):
        """reachability over (node, state) from `starts` [(node id, state)];
        `stop(node id)` ends a path; exc=False: exception edges are not
        followed.  Returns (parent map, stopped keys)"""
        parent = {}
        todo = deque()
        for k in starts:
            if k not in parent:
                parent[k] = None
                todo.append(k)
        stopped = []
        while todo:
            key = todo.popleft()
            nid, st = key
            if len(parent) > self.max_states:
                raise AnalysisError('UNRECOGNISED-IDIOM %s: flag evaluation '
                                    'exceeds %d states'
                                    % (self.f.where, self.max_states))
            node = self.g.nodes[nid]
            for e in self.g.succ[nid]:
                if e.label == 'exc' and not exc:
                    continue
                for st2 in self.step(node, e, st):
                    k2 = (e.dst, st2)
                    if k2 in parent:
                        continue
                    parent[k2] = (key, e)
                    if stop(e.dst):
                        stopped.append(k2)
                    else:
                        todo.append(k2)
        return parent, stopped

    def witness(self, parent, key):
        """[(cfg node, edge, state after)] from a start to `key`"""
        out = []
        while parent.get(key) is not None:
            prev, e = parent[key]
            out.append((self.g.nodes[e.src], e, dict(key[1])))
            key = prev
        out.reverse()
        return out


def _wakeup_anchors(prog):
    """(f, g, smap, node of the _schedule_waitpool call, node of the
    _unschedule_completed call, name bound to its first result)"""
    f = prog.method(BASE[0], BASE[1], '_schedule_tasks')
    g = cfg_of(f)
    smap = I.stmt_node_map(g)
    wp = [c for c in calls_in(f.node)
          if call_name(c) == 'self._schedule_waitpool']
    uc = [n for n in walk(f.node) if isinstance(n, ast.Assign) and
          isinstance(n.value, ast.Call) and
          call_name(n.value) == 'self._unschedule_completed']
    if len(wp) != 1 or len(uc) != 1:
        raise AnalysisError('UNRECOGNISED-IDIOM %s: calls of '
                            '_schedule_waitpool/_unschedule_completed'
                            % f.where)
    t = uc[0].targets[0]
    rvar = t.elts[0].id if isinstance(t, ast.Tuple) and t.elts and \
        isinstance(t.elts[0], ast.Name) else (t.id if isinstance(t, ast.Name)
                                              else None)
    return f, g, smap, smap[id(wp[0])], smap[id(uc[0])], rvar


def _tf_edges(g, n):
    return [e for e in g.succ[n.id] if e.label in ('T', 'F')]


def _pass_guard(g, wn):
    """(loop head id, first node of an iteration, node ids of one iteration,
    its test nodes, the tests which decide whether the wait pool pass `wn`
    runs in an iteration: their out-edges differ in whether the pass can be
    reached or in whether it is reached on every path to the next iteration)"""
    head = wn.loops[0]
    lstart = loop_slice(g, head)[0]
    inbody = g.reachable(lstart, no_back=True) & g.loop_body[head]
    tests = [n for n in g.nodes if n.kind == 'test' and n.id in inbody]

    def runs_pass(nid):
        # (may run the pass, runs it on every path to the next iteration)
        may = wn.id in g.reachable(nid, no_back=True)
        return may, may and head not in g.reachable(nid, skip_nodes={wn.id})
    deciding = [n for n in tests
                if len({runs_pass(e.dst) for e in _tf_edges(g, n)
                        if head in g.reachable(e.dst)}) > 1]
    return head, lstart, inbody, tests, deciding


def r04_6(prog, rep, rid='R04.6'):
    rep.rule(rid, 'a release noted in one iteration of the scheduling loop is '
             'not forgotten: from _unschedule_completed with a true first '
             'result every path runs the wait pool pass before it reclaims '
             'again', minimum=1)
    f, g, smap, wn, un, rvar = _wakeup_anchors(prog)
    rep.saw(f)
    if rvar is None or not wn.loops or not un.loops or \
            wn.loops[0] != un.loops[0]:
        raise AnalysisError('UNRECOGNISED-IDIOM %s: _schedule_waitpool and '
                            '_unschedule_completed are not steps of one loop, '
                            'or the release result is not bound to a name'
                            % f.where)
    head, lstart, inbody, tests, deciding = _pass_guard(g, wn)
    # the locals read by the tests which decide whether the pass runs, and all
    # those depend on
    gnames = set()
    for n in deciding:
        if not _evaluable(n.ast):
            raise AnalysisError(
                'UNRECOGNISED-IDIOM %s: the wait pool pass depends on `%s`, '
                'which is not a boolean expression over locals'
                % (f.where, short(n.ast, 60)))
        gnames |= {x.id for x in walk(n.ast) if isinstance(x, ast.Name)}
    d = Deps(f.node)
    relevant = set(gnames) | {rvar}
    for n in list(gnames):
        relevant |= {x for x in d.closure(n) if x.isidentifier()}
    relevant.discard('self')
    # a test this rule cannot evaluate must not decide what a flag becomes
    binders = {n.id for n in g.nodes if n.id in inbody and n.kind != 'test'
               and _bound_names(n) & relevant}
    for n in tests:
        if _evaluable(n.ast):
            continue
        es = [e for e in _tf_edges(g, n) if head in g.reachable(e.dst)]
        if len({frozenset(g.reachable(e.dst, no_back=True) & binders)
                for e in es}) > 1:
            raise AnalysisError(
                'UNRECOGNISED-IDIOM %s: a flag of the scheduling loop is '
                'updated depending on `%s`, which is not a boolean '
                'expression over locals' % (f.where, short(n.ast, 60)))
    ff = _FlagFlow(f, g, relevant, gnames)
    # (A) the valuations of those locals with which the loop can arrive at the
    # call of _unschedule_completed (fixpoint over all iterations)
    parent, _ = ff.run([(g.entry.id, frozenset())], lambda nid: False)
    arrive = sorted({st for nid, st in parent if nid == un.id},
                    key=lambda s: sorted(s))
    if not arrive:
        raise AnalysisError('UNRECOGNISED-IDIOM %s: the call of '
                            '_unschedule_completed is not reachable' % f.where)
    rep.stat('wakeup_states', len(parent))
    # (B) from there, with a release reported
    groups = {}
    for st in arrive:
        groups.setdefault(frozenset((k, v) for k, v in st if k in gnames),
                          []).append(st)
    for proj in sorted(groups, key=lambda s: sorted(s)):
        starts = []
        for st in groups[proj]:
            env = dict(st)
            for b in _bound_names(un):
                env.pop(b, None)
            env[rvar] = 'T'
            for e in g.succ[un.id]:
                if e.label != 'exc':
                    starts.append((e.dst, ff._freeze(env)))
        stops = {wn.id, un.id, g.exit.id, g.raise_.id}
        # (exceptions raised between the release and the pass are not
        # followed: an exception here ends the scheduler process)
        par, stopped = ff.run(starts, lambda nid: nid in stops or
                              head not in g.nodes[nid].loops and nid != head,
                              exc=False)
        lost = [k for k in stopped if k[0] == un.id]
        desc = ', '.join('%s %s' % (k, 'true' if _av_truth(v) else 'false')
                         for k, v in sorted(proj)) or 'any state of the flags'
        what = ('after a release (%s true; before it: %s) the loop runs '
                '_schedule_waitpool before it calls _unschedule_completed '
                'again' % (rvar, desc))
        if not lost:
            rep.ok(rid, f, what, f.loc(un.ast))
            continue
        wit = ff.witness(par, lost[0])
        path, kill = [], None
        for node, e, after in wit:
            if node.kind == 'test' and e.label in 'TF':
                if not ({x.id for x in walk(node.ast)
                         if isinstance(x, ast.Name)} & relevant):
                    continue
                a = short(node.ast, 60)
                path.append(a if e.label == 'T' else 'not (%s)' % a)
            elif node.kind == 'stmt' and e.label != 'exc' and \
                    _bound_names(node) & relevant:
                path.append(short(node.ast, 60))
                if _bound_names(node) & gnames:
                    kill = node
        gtxt = ' and '.join(sorted(gnames)) or '(none)'
        if kill is not None:
            why = ('`%s` (line %d) is executed after the release was noted '
                   'and decides the guard' % (short(kill.ast, 60),
                                              kill.lineno))
            hist = ('1 node with 4 cores: A (3 cores) runs, W (2 cores) '
                    'waits; X (2 cores) arrives and has to wait too, and in '
                    'the same loop iteration A completes: the release is '
                    'noted and forgotten, the pilot is idle with W and X '
                    'waiting forever')
        else:
            why = ('nothing on that path makes the guard true')
            hist = ('1 node with 4 cores: A (3 cores) runs, W (2 cores) waits '
                    'alone (the loop has stopped looking at the wait pool); A '
                    'completes: the release is not noted, the pilot is idle '
                    'and W waits forever')
        rep.bad(rid, f, 'wake-up:survives',
                '%s: _unschedule_completed reports a release (`%s` true) but '
                'the loop can reach the next call of _unschedule_completed '
                'without running _schedule_waitpool in between: the guard of '
                'the wait pool pass (`%s`) is false in the next iteration - '
                '%s.  The released resources are not offered to the waiting '
                'tasks until some other task completes'
                % (f.name, rvar, gtxt, why),
                f.loc(kill.ast if kill is not None else un.ast),
                history=hist, path=path)


# ------------------------------------------------------------------------------
# R04.5  cancel of waiting tasks
#
# The wait pool is self._waitpool = {priority: {uid: task}}.  A cancel request
# names uids; for every uid that is waiting, the task must leave its pool AND be
# collected into the one list that is handed on as CANCELED.  The rule follows
# values, not spellings: where the elements of the handed-on list come from
# (appends, extends, comprehensions, loop variables, results of helper methods),
# whether each of them was taken out of a pool (`pool.pop(uid)`, or a lookup
# `pool.get(uid)` / `pool[uid]` with a `del pool[uid]` under the same
# conditions), whether every removal in the cancel code ends up in that list,
# and whether the key is the requested uid.
#
_WP = 'self._waitpool'
_ITER_WRAPPERS = ('list', 'sorted', 'reversed', 'tuple', 'iter', 'set')


def _unwrap_iter(e):
    """the iterable below list(..) / sorted(..) / filter(None, ..) wrappers"""
    while True:
        if isinstance(e, ast.Call) and isinstance(e.func, ast.Name) and \
                e.func.id in _ITER_WRAPPERS and e.args:
            e = e.args[0]
        elif isinstance(e, ast.Call) and isinstance(e.func, ast.Name) and \
                e.func.id == 'filter' and len(e.args) == 2 and \
                isinstance(e.args[0], ast.Constant) and \
                e.args[0].value is None:
            e = e.args[1]
        else:
            return e


def _comp_env(root, node):
    """names bound by the comprehensions of `root` that enclose `node`:
    {name: (target, iterable)}, or None"""
    env = {}
    for c in walk(root):
        if isinstance(c, (ast.ListComp, ast.SetComp, ast.GeneratorExp,
                          ast.DictComp)) and \
                any(y is node for y in walk(c)):
            for gen in c.generators:
                for nm in stores_in_target(gen.target):
                    env[nm] = (gen.target, gen.iter)
    return env or None


def _empty_container(e):
    return (isinstance(e, (ast.List, ast.Tuple, ast.Set)) and not e.elts) or (
        isinstance(e, ast.Dict) and not e.keys) or (
        isinstance(e, ast.Call) and isinstance(e.func, ast.Name) and
        e.func.id in ('list', 'dict', 'set', 'tuple') and not e.args and
        not e.keywords)


def _tests_only(test, names):
    """the test looks at nothing but the given local names (truth, identity
    with None, comparison with constants): whatever it decides, it decides
    from the value carried by those names alone"""
    for x in walk(test):
        if isinstance(x, ast.Name):
            if x.id not in names and not (x.id == 'bool' and
                                          isinstance(x.ctx, ast.Load)):
                return False
        elif isinstance(x, ast.Call):
            if not _is_bool_call(x):
                return False
        elif isinstance(x, (ast.Attribute, ast.Subscript, ast.Await,
                            ast.NamedExpr, ast.Lambda)):
            return False
    return True


class _Ctx:
    """one function as reached from the scheduling loop: its cfg, what its
    parameters are bound to at the call, and what its expressions are
    relative to the wait pool (0 the pool of pools, 1 the pool of one
    priority {uid: task}, 2 a task; None anything else)"""

    def __init__(self, prog, f, bind=None):
        self.prog, self.f = prog, f
        self.g = cfg_of(f)
        self.smap = I.stmt_node_map(self.g)
        self.bind = bind or {}       # param -> (arg, caller ctx, node, env)
        self._lv = {}
        self._rd = {}

    def defs(self, name, at):
        k = (name, at.id)
        if k not in self._rd:
            self._rd[k] = reaching_defs(self.g, name, at.id)
        return self._rd[k]

    def level(self, e, at, env=None, depth=6):
        if e is None or at is None or depth <= 0:
            return None
        k = (id(e), at.id)
        if not env and k in self._lv:
            return self._lv[k]
        lv = self._level(e, at, env, depth)
        if not env:
            self._lv[k] = lv
        return lv

    def _level(self, e, at, env, depth):
        if isinstance(e, ast.Attribute):
            return 0 if dotted(e) == _WP else None
        if isinstance(e, ast.Subscript):
            lv = self.level(e.value, at, env, depth)
            return lv + 1 if lv in (0, 1) else None
        if isinstance(e, ast.Call) and isinstance(e.func, ast.Attribute) and \
                e.func.attr in ('get', 'pop', 'setdefault') and e.args:
            lv = self.level(e.func.value, at, env, depth)
            return lv + 1 if lv in (0, 1) else None
        if isinstance(e, ast.Name):
            if env and e.id in env:
                tgt, it = env[e.id]
                env2 = {k: v for k, v in env.items() if k != e.id}
                return self._elem_level(tgt, it, e.id, at, env2, depth - 1)
            if e.id in self.bind:
                a, cctx, cat, cenv = self.bind[e.id]
                return cctx.level(a, cat, cenv, depth - 1)
            lvs = set()
            for n, v in self.defs(e.id, at):
                if v is not None:
                    lvs.add(self.level(v, n, None, depth - 1))
                elif n.kind == 'for':
                    lvs.add(self._elem_level(n.ast.target, n.ast.iter, e.id,
                                             n, None, depth - 1))
                else:
                    lvs.add(None)
            return lvs.pop() if len(lvs) == 1 else None
        return None

    def _elem_level(self, target, it, name, at, env, depth):
        it = _unwrap_iter(it)
        if isinstance(it, ast.Call) and isinstance(it.func, ast.Attribute) \
                and not it.args:
            lv = self.level(it.func.value, at, env, depth)
            if lv in (0, 1):
                if it.func.attr == 'values' and isinstance(target, ast.Name):
                    return lv + 1
                if it.func.attr == 'items' and \
                        isinstance(target, (ast.Tuple, ast.List)) and \
                        len(target.elts) == 2 and \
                        isinstance(target.elts[1], ast.Name) and \
                        target.elts[1].id == name:
                    return lv + 1
        return None

    def canon(self, e, at, env=None, depth=4):
        """spelling of a pool / key expression with aliases of pool paths
        (`pool = self._waitpool[priority]`) expanded"""
        if isinstance(e, ast.Name) and depth > 0 and at is not None and \
                not (env and e.id in env) and e.id not in self.bind:
            ds = self.defs(e.id, at)
            if len(ds) == 1 and ds[0][1] is not None and \
                    isinstance(ds[0][1], (ast.Name, ast.Attribute,
                                          ast.Subscript)) and \
                    self.level(ds[0][1], ds[0][0]) in (0, 1):
                return self.canon(ds[0][1], ds[0][0], None, depth - 1)
            return e.id
        if isinstance(e, ast.Subscript):
            return '%s[%s]' % (self.canon(e.value, at, env, depth),
                               self.canon(e.slice, at, env, depth))
        return unparse(e)

    def removals(self):
        """[(cfg node, ast node, pool expr, key expr)]: `del P[k]` and
        `P.pop(k ..)` on the pool P of one priority"""
        out = []
        for n in self.g.nodes:
            if n.ast is None or n.kind in ('while', 'dispatch', 'handler'):
                continue
            roots = [n.ast]
            if n.kind == 'for':
                roots = [n.ast.iter]
            elif n.kind == 'with':
                roots = [i.context_expr for i in n.ast.items]
            for r in roots:
                for x in walk(r):
                    if isinstance(x, ast.Delete):
                        for t in x.targets:
                            if isinstance(t, ast.Subscript) and \
                                    self.level(t.value, n) == 1:
                                out.append((n, x, t.value, t.slice))
                    elif isinstance(x, ast.Call) and \
                            isinstance(x.func, ast.Attribute) and \
                            x.func.attr == 'pop' and x.args and \
                            self._comp_level(r, x, n) == 1:
                        out.append((n, x, x.func.value, x.args[0]))
        return out

    def _comp_level(self, root, call, n):
        """level of the receiver of `call`, which may sit inside a
        comprehension of the statement `root`"""
        return self.level(call.func.value, n, _comp_env(root, call))


class _Src:
    """where a collected value comes from.  kind: 'pop' (taken out of a pool),
    'look' (looked up in a pool), 'none' (the constant None), 'other'"""

    def __init__(self, kind, node, ctx, at, env, trail, pool=None, key=None):
        self.kind, self.node, self.ctx, self.at = kind, node, ctx, at
        self.env, self.trail, self.pool, self.key = env, trail, pool, key


class _NotTraced(AnalysisError):
    pass


class _CancelFlow:

    def __init__(self, prog):
        self.prog = prog
        self._ctxs = {}

    def ctx(self, f, call=None, caller=None, at=None, env=None):
        key = (id(f.node), id(call))
        if key in self._ctxs:
            return self._ctxs[key]
        bind = {}
        if call is not None:
            if env is None and at is not None and at.ast is not None:
                env = _comp_env(at.ast.iter if at.kind == 'for' else at.ast,
                                call)
            params = list(f.params)
            if isinstance(call.func, ast.Attribute) and params and \
                    params[0] in ('self', 'cls'):
                params = params[1:]
            a = f.node.args
            if a.vararg or a.kwarg or any(isinstance(x, ast.Starred)
                                          for x in call.args) or \
                    any(k.arg is None for k in call.keywords):
                return None
            for i, x in enumerate(call.args):
                if i >= len(params):
                    return None
                bind[params[i]] = (x, caller, at, env)
            for k in call.keywords:
                if k.arg not in params:
                    return None
                bind[k.arg] = (k.value, caller, at, env)
        c = _Ctx(self.prog, f, bind)
        self._ctxs[key] = c
        return c

    def helper(self, ctx, call):
        """FuncInfo of a method / nested function of the package called by
        `call` (not a hand-on), else None"""
        if I.is_handon(call):
            return None
        h = self.prog.resolve_call(ctx.f, call)
        if h is None or h.node is ctx.f.node or \
                not isinstance(h.node, (ast.FunctionDef,)):
            return None
        return h

    # -- origins ---------------------------------------------------------------
    def origins(self, e, ctx, at, env, trail, depth=12):
        def S(kind, **kw):
            return [_Src(kind, e, ctx, at, env, trail, **kw)]
        if depth <= 0 or at is None:
            return S('other')
        if isinstance(e, ast.Constant) and e.value is None:
            return S('none')
        if isinstance(e, ast.IfExp):
            return self.origins(e.body, ctx, at, env, trail, depth - 1) + \
                self.origins(e.orelse, ctx, at, env, trail, depth - 1)
        if isinstance(e, ast.Call):
            fn = e.func
            if isinstance(fn, ast.Attribute) and fn.attr in ('pop', 'get') \
                    and e.args and ctx.level(fn.value, at, env) == 1:
                return S('pop' if fn.attr == 'pop' else 'look',
                         pool=fn.value, key=e.args[0])
            h = self.helper(ctx, e)
            c2 = self.ctx(h, e, ctx, at, env) if h is not None else None
            if c2 is None:
                return S('other')
            out = []
            tr = trail + (('call', ctx, at, e),)
            for r in walk(h.node):
                if isinstance(r, ast.Return):
                    rn = c2.smap.get(id(r))
                    if r.value is None:
                        out += [_Src('none', r, c2, rn, None, tr)]
                    else:
                        out += self.origins(
                            r.value, c2, rn, None,
                            tr + (('return', c2, rn, r.value),), depth - 1)
            return out or S('other')
        if isinstance(e, ast.Subscript) and \
                ctx.level(e.value, at, env) == 1:
            return S('look', pool=e.value, key=e.slice)
        if isinstance(e, ast.Name):
            if env and e.id in env:
                tgt, it = env[e.id]
                if not isinstance(tgt, ast.Name):
                    return S('other')
                env2 = {k: v for k, v in env.items() if k != e.id}
                return self.elems(it, ctx, at, env2, trail, depth - 1)
            if e.id in ctx.bind:
                a, cctx, cat, cenv = ctx.bind[e.id]
                return self.origins(a, cctx, cat, cenv, trail, depth - 1)
            out = []
            for n, v in ctx.defs(e.id, at):
                if v is not None:
                    out += self.origins(
                        v, ctx, n, None,
                        trail + (('assign', ctx, n, e),), depth - 1)
                elif n.kind == 'for' and isinstance(n.ast.target, ast.Name):
                    out += self.elems(
                        n.ast.iter, ctx, n, None,
                        trail + (('for', ctx, n, e),), depth - 1)
                else:
                    out += S('other')
            return out or S('other')
        return S('other')

    def elems(self, it, ctx, at, env, trail, depth=12):
        """origins of the elements of the iterable `it`"""
        def S(kind):
            return [_Src(kind, it, ctx, at, env, trail)]
        if depth <= 0 or at is None:
            return S('other')
        it = _unwrap_iter(it)
        if _empty_container(it):
            return []
        if isinstance(it, (ast.ListComp, ast.GeneratorExp, ast.SetComp)):
            env2 = dict(env or {})
            for gen in it.generators:
                for nm in stores_in_target(gen.target):
                    env2[nm] = (gen.target, gen.iter)
            return self.origins(it.elt, ctx, at, env2,
                                trail + (('comp', ctx, at, it),), depth - 1)
        if isinstance(it, (ast.List, ast.Tuple, ast.Set)):
            out = []
            for x in it.elts:
                out += self.origins(x, ctx, at, env, trail, depth - 1)
            return out
        if isinstance(it, ast.BinOp) and isinstance(it.op, ast.Add):
            return self.elems(it.left, ctx, at, env, trail, depth - 1) + \
                self.elems(it.right, ctx, at, env, trail, depth - 1)
        if isinstance(it, ast.Call):
            h = self.helper(ctx, it)
            c2 = self.ctx(h, it, ctx, at, env) if h is not None else None
            if c2 is None:
                return S('other')
            out = []
            tr = trail + (('call', ctx, at, it),)
            for r in walk(h.node):
                if isinstance(r, ast.Return) and r.value is not None:
                    rn = c2.smap.get(id(r))
                    out += self.elems(r.value, c2, rn, None,
                                      tr + (('return', c2, rn, r.value),),
                                      depth - 1)
            return out
        if isinstance(it, ast.Name):
            if env and it.id in env:
                return S('other')
            if it.id in ctx.bind:
                a, cctx, cat, cenv = ctx.bind[it.id]
                return self.elems(a, cctx, cat, cenv, trail, depth - 1)
            creators = ctx.defs(it.id, at)
            if not creators:
                return S('other')
            out = []
            after = set()
            for n, v in creators:
                after |= ctx.g.reachable(n.id)
                if isinstance(n.ast, ast.AugAssign):
                    continue                 # a fill, handled below
                if v is None:
                    out += S('other')
                else:
                    out += self.elems(v, ctx, n, None,
                                      trail + (('assign', ctx, n, it),),
                                      depth - 1)
            # fills between a creation and the use
            for m in ctx.g.stmt_nodes():
                if m.kind != 'stmt' or m.id not in after or \
                        at.id not in ctx.g.reachable(m.id):
                    continue
                a = m.ast
                if isinstance(a, ast.AugAssign) and \
                        isinstance(a.target, ast.Name) and \
                        a.target.id == it.id and isinstance(a.op, ast.Add):
                    out += self.elems(a.value, ctx, m, None,
                                      trail + (('extend', ctx, m, a.value),),
                                      depth - 1)
                    continue
                if not (isinstance(a, ast.Expr) and
                        isinstance(a.value, ast.Call) and
                        isinstance(a.value.func, ast.Attribute) and
                        isinstance(a.value.func.value, ast.Name) and
                        a.value.func.value.id == it.id and a.value.args):
                    continue
                c = a.value
                if c.func.attr in ('append', 'add', 'appendleft', 'insert'):
                    x = c.args[-1]
                    out += self.origins(x, ctx, m, None,
                                        trail + (('append', ctx, m, x),),
                                        depth - 1)
                elif c.func.attr in ('extend', 'update'):
                    out += self.elems(c.args[0], ctx, m, None,
                                      trail + (('extend', ctx, m, c.args[0]),),
                                      depth - 1)
            return out
        return S('other')

    # -- the requested uid -----------------------------------------------------
    def is_request(self, e, ctx, at, env, depth=8):
        """the iterable is the bulk of uids taken from the scheduler queue:
        True / False / None (unknown)"""
        if depth <= 0 or at is None:
            return None
        e = _unwrap_iter(e)
        if not isinstance(e, ast.Name):
            return None if isinstance(e, ast.Call) else False
        if env and e.id in env:
            return None
        if e.id in ctx.bind:
            a, cctx, cat, cenv = ctx.bind[e.id]
            return self.is_request(a, cctx, cat, cenv, depth - 1)
        res = set()
        for n, v in ctx.defs(e.id, at):
            val = getattr(n.ast, 'value', None) if n.kind == 'stmt' else None
            if isinstance(val, ast.Call) and \
                    isinstance(val.func, ast.Attribute) and \
                    val.func.attr in ('get', 'get_nowait') and \
                    '_queue_sched' in unparse(val.func.value):
                res.add(True)
            elif v is not None and isinstance(_unwrap_iter(v), ast.Name):
                res.add(self.is_request(v, ctx, n, None, depth - 1))
            elif n.kind == 'for':
                res.add(False)
            else:
                res.add(None)
        return res.pop() if len(res) == 1 else None

    def is_uid(self, k, ctx, at, env, depth=8):
        """the key is one of the requested uids: True / False / None"""
        if depth <= 0 or at is None:
            return None
        if isinstance(k, ast.Constant):
            return False
        if not isinstance(k, ast.Name):
            return None
        if env and k.id in env:
            tgt, it = env[k.id]
            if not isinstance(tgt, ast.Name):
                return None
            env2 = {x: v for x, v in env.items() if x != k.id}
            return self.is_request(it, ctx, at, env2, depth - 1)
        if k.id in ctx.bind:
            a, cctx, cat, cenv = ctx.bind[k.id]
            return self.is_uid(a, cctx, cat, cenv, depth - 1)
        res = set()
        for n, v in ctx.defs(k.id, at):
            if v is not None:
                res.add(self.is_uid(v, ctx, n, None, depth - 1))
            elif n.kind == 'for' and isinstance(n.ast.target, ast.Name):
                res.add(self.is_request(n.ast.iter, ctx, n, None, depth - 1))
            else:
                res.add(None)
        return res.pop() if len(res) == 1 else None


def _cancel_sites(prog, cf, f0):
    """[(ctx, hand-on call)]: the CANCELED hand-ons of a list in
    _schedule_incoming or in a helper it calls (two levels)"""
    canceled = prog.const('states.py', 'CANCELED')
    out = []
    todo = [(cf.ctx(f0), 2)]
    seen = set()
    while todo:
        ctx, depth = todo.pop(0)
        if id(ctx.f.node) in seen:
            continue
        seen.add(id(ctx.f.node))
        for c in calls_in(ctx.f.node):
            if I.is_handon(c):
                if I.handon_state(prog, ctx.f, c) == canceled:
                    out.append((ctx, c))
                continue
            if depth <= 0:
                continue
            h = cf.helper(ctx, c)
            if h is not None and h.module is f0.module:
                at = ctx.smap.get(id(c))
                c2 = cf.ctx(h, c, ctx, at, None)
                if c2 is not None:
                    todo.append((c2, depth - 1))
    return out


def r04_5(prog, rep, rid='R04.5'):
    rep.rule(rid, 'cancel of waiting tasks: removal from the pool and '
             'collection for the CANCELED hand-on happen together, keyed by '
             'the requested uid; the collected tasks are handed on once',
             minimum=1)
    f = prog.method(BASE[0], BASE[1], '_schedule_incoming')
    rep.saw(f)
    cf = _CancelFlow(prog)
    sites = _cancel_sites(prog, cf, f)
    if not sites:
        raise AnalysisError('UNRECOGNISED-IDIOM %s: no CANCELED hand-on'
                            % f.where)
    errs, done = [], 0
    for ctx, h in sites:
        try:
            _cancel_site(prog, rep, rid, f, cf, ctx, h,
                         [c for x, c in sites if x is ctx])
            done += 1
        except _NotTraced as e:
            # a CANCELED hand-on of something which does not come from the
            # wait pool (another helper's business) - unless it is the only one
            errs.append(e)
    if not done:
        raise AnalysisError(str(errs[0]))


def _cancel_site(prog, rep, rid, f, cf, ctx, h, hands):
    g, smap = ctx.g, ctx.smap
    fx = ctx.f
    rep.saw(fx)
    thing = I.handon_thing(h)
    if not isinstance(thing, ast.Name):
        raise AnalysisError('UNRECOGNISED-IDIOM %s: CANCELED hand-on of '
                            '`%s`' % (fx.where, short(thing, 30)))
    lst = thing.id
    hn = smap[id(h)]
    # the conditions of the hand-on (a test of the list itself - `if
    # to_cancel:` - changes nothing: advance returns at once for an empty list)
    base = {(t, lab) for t, lab in guards(g, hn.id)
            if not (_tests_only(g.nodes[t].ast, {lst}) and _eval3(
                _formula(g.nodes[t].ast), {lst: True}) == (lab == 'T'))}
    srcs = cf.elems(thing, ctx, hn, None, ())
    other = [s for s in srcs if s.kind == 'other']
    if other and not any(s.kind in ('pop', 'look') for s in srcs):
        raise _NotTraced(
            'UNRECOGNISED-IDIOM %s: `%s` (handed on as CANCELED) receives '
            '`%s`, which is not traced to a lookup in the wait pool'
            % (fx.where, lst, short(other[0].node, 40)))
    if other:
        raise AnalysisError(
            'UNRECOGNISED-IDIOM %s: `%s` (handed on as CANCELED) receives '
            '`%s`, which is not traced to a lookup in the wait pool'
            % (fx.where, lst, short(other[0].node, 40)))
    taken = [s for s in srcs if s.kind in ('pop', 'look')]

    # removals in the cancel code: in the function of the hand-on those under
    # (at least) the conditions of the hand-on; in helpers all
    def region_removals(c):
        rs = c.removals()
        if c is ctx:
            rs = [r for r in rs if base <= set(guards(c.g, r[0].id))]
        return rs
    ctxs = [ctx]
    for s in taken:
        if not any(s.ctx is c for c in ctxs):
            ctxs.append(s.ctx)
    accounted = set()

    if not taken:
        rep.bad(rid, f, h, 'the list `%s` handed on as CANCELED is never '
                'filled: waiting tasks named in a cancel request are '
                'removed (if at all) without a final state' % lst,
                fx.loc(h), history='cancel of a waiting task: it vanishes '
                'from the pool, the application never sees CANCELED')
        return

    colls = []                       # cfg nodes (of ctx) which fill the list
    for s in taken:
        c = s.ctx
        for hop in s.trail:
            if hop[1] is ctx and hop[0] in ('append', 'extend') or \
                    hop[1] is ctx and hop[0] == 'assign' and \
                    isinstance(hop[3], ast.Name) and hop[3].id == lst:
                if hop[2] not in colls:
                    colls.append(hop[2])
        # the value is out of the pool at `gone`: the pop itself, or the
        # removal paired with the lookup
        if s.kind == 'pop':
            accounted.add(id(s.node))
            gone_guards = set(guards(c.g, s.at.id))
            outer = list(reversed(s.trail))
            what = 'taking a task out of the wait pool with `%s` collects ' \
                'it for CANCELED' % short(s.node, 40)
        else:
            near = [hop for hop in reversed(s.trail)
                    if hop[0] in ('append', 'extend', 'return', 'comp')
                    and hop[1] is c]
            if not near or near[0][0] == 'comp':
                raise AnalysisError(
                    'UNRECOGNISED-IDIOM %s: the task looked up with `%s` is '
                    'collected for CANCELED in a way this rule does not '
                    'follow' % (c.f.where, short(s.node, 40)))
            cp = near[0][2]
            pk = (c.canon(s.pool, s.at, s.env), c.canon(s.key, s.at, s.env))
            rs = region_removals(c)
            same = [r for r in rs
                    if (c.canon(r[2], r[0]), c.canon(r[3], r[0])) == pk]
            cg = set(guards(c.g, cp.id))
            pair = [r for r in same if set(guards(c.g, r[0].id)) == cg and
                    r[0].loops == cp.loops]
            wrong = [r for r in rs if r not in same and
                     set(guards(c.g, r[0].id)) == cg and
                     r[0].loops == cp.loops]
            if not pair and wrong:
                rep.bad(rid, f, wrong[0][1], 'the wait pool entry deleted '
                        '(`%s`) is not the one looked up (`%s`) and '
                        'collected for the CANCELED hand-on'
                        % (short(wrong[0][1], 40), short(s.node, 40)),
                        c.f.loc(wrong[0][1]), history='cancel of task A '
                        'removes task B from the wait pool')
                continue
            if not pair and same:
                # lookup+removal and collection under different tests (e.g.
                # `found = None` ... `if found:`): decide by paths - the
                # collection must pass a removal
                st0 = loop_slice(c.g, cp.loops[-1])[0] if cp.loops else \
                    c.g.entry.id
                if not must_pass_feasible(c.g, st0, cp.id,
                                          [r[0].id for r in same]):
                    raise AnalysisError(
                        'UNRECOGNISED-IDIOM %s: removal from the wait pool '
                        'and collection for CANCELED are under different '
                        'tests' % c.f.where)
                pair = same
            if not pair:
                rep.bad(rid, f, near[0][3], 'a waiting task is looked up '
                        'with `%s` and collected for the CANCELED hand-on '
                        'without being removed from the wait pool under the '
                        'same conditions' % short(s.node, 40),
                        c.f.loc(near[0][3]),
                        history='cancel of a waiting task: it is reported '
                        'CANCELED and later started')
                continue
            for r in pair:
                accounted.add(id(r[1]))
            gone_guards = cg
            outer = list(reversed(s.trail))
            outer = outer[outer.index(near[0]) + 1:]
            what = 'collecting the task looked up with `%s` for CANCELED ' \
                'and removing it from the wait pool happen together' \
                % short(s.node, 40)
        # from there on the task must not be dropped: whatever else guards
        # the way into the list may only look at the value itself (`if task`)
        for hop in outer:
            kind, hc, hnode, hx = hop
            if kind == 'comp':
                if any(y is s.node for y in walk(hx)):
                    continue
                names = set()
                for gen in hx.generators:
                    names |= set(stores_in_target(gen.target))
                tests = [t for gen in hx.generators for t in gen.ifs]
            elif kind in ('append', 'extend', 'return'):
                gs = set(guards(hc.g, hnode.id))
                if hc is ctx:
                    gs -= base
                if hc is c:
                    gs -= gone_guards
                names = {x.id for x in walk(hx) if isinstance(x, ast.Name)}
                tests = [hc.g.nodes[t].ast for t, lab in gs]
            else:
                continue
            for t in tests:
                if not _tests_only(t, names):
                    raise AnalysisError(
                        'UNRECOGNISED-IDIOM %s: a task taken out of the wait '
                        'pool is collected for CANCELED only under `%s`'
                        % (hc.f.where, short(t, 50)))
        # keyed by the requested uid
        ku = cf.is_uid(s.key, c, s.at, s.env)
        if ku is None:
            raise AnalysisError(
                'UNRECOGNISED-IDIOM %s: the key `%s` of the wait pool lookup '
                'is not traced to the uids of the cancel request'
                % (c.f.where, short(s.key, 30)))
        rep.check(ku, rid, f, 'the task removed is the one looked up by the '
                  'requested uid', construct=s.node,
                  message='the wait pool entry `%s` removed / collected for '
                  'CANCELED is not keyed by a uid of the cancel request'
                  % short(s.node, 40), loc=c.f.loc(s.node),
                  history='cancel of task A removes task B from the wait pool')
        rep.ok(rid, f, what, c.f.loc(s.node))

    # every removal in the cancel code ends up in the list
    used_calls = {id(hop[3]) for s in srcs for hop in s.trail
                  if hop[0] == 'call'}
    for c in ctxs:
        for n, a, pool, key in region_removals(c):
            if id(a) not in accounted:
                rep.bad(rid, f, a, 'cancel: `%s` removes a task from the '
                        'wait pool, but that task does not reach the list '
                        '`%s` handed on as CANCELED' % (short(a, 50), lst),
                        c.f.loc(a), history='cancel of a waiting task: it '
                        'is silently removed without a final state, the '
                        'application waits forever')
        nodes = [n for n in c.g.nodes if n.ast is not None and
                 (c is not ctx or base <= set(guards(c.g, n.id)))]
        for n in nodes:
            if n.kind not in ('stmt', 'test'):
                continue
            for call in calls_in(n.ast):
                hh = cf.helper(c, call)
                if hh is None or id(call) in used_calls or hh is fx:
                    continue
                c2 = cf.ctx(hh, call, c, n, None)
                if c2 is not None and c2.removals() and \
                        not _has_canceled_handon(prog, hh):
                    rep.bad(rid, f, call, 'cancel: `%s` removes a task from '
                            'the wait pool, but its result does not reach '
                            'the list `%s` handed on as CANCELED'
                            % (short(call, 50), lst), c.f.loc(call),
                            history='cancel of a waiting task: it is '
                            'silently removed without a final state')

    # handed on once, after the collection, unconditionally within the cancel
    # code, with publish=True
    hg = base
    empty = [(t, 'F' if lab == 'T' else 'T')     # way of the empty list
             for t, lab in set(guards(g, hn.id)) - base]
    okh = len(hands) == 1 and I.flag(h, 'publish') is True and bool(colls)
    for cn in colls:
        inner = set(cn.loops) - set(hn.loops)
        okh = okh and set(hn.loops) <= set(cn.loops) and \
            hg <= set(guards(g, cn.id)) and \
            (bool(inner) or not _is_append(cn)) and \
            _next_iter_or_exit(g, hn) not in g.reachable(
                cn.id, skip_nodes={hn.id}, skip_edges=empty,
                labels={'next', 'T', 'F', 'iter', 'done'})
    rep.check(okh, rid, f, 'the collected tasks are handed on as CANCELED '
              'once after the collection, with publish=True',
              construct=h, message='the CANCELED hand-on of `%s` is inside '
              'the collection loop, conditional, not reached after the '
              'collection, or not published' % lst,
              loc=fx.loc(h),
              history='cancel of two waiting tasks: the first is reported '
              'CANCELED twice (or never)')


def _is_append(n):
    a = n.ast
    return n.kind == 'stmt' and isinstance(a, ast.Expr) and \
        isinstance(a.value, ast.Call) and \
        isinstance(a.value.func, ast.Attribute) and \
        a.value.func.attr in ('append', 'add', 'appendleft', 'insert')


def _has_canceled_handon(prog, f):
    canceled = prog.const('states.py', 'CANCELED')
    return any(I.is_handon(c) and I.handon_state(prog, f, c) == canceled
               for c in calls_in(f.node))


# ------------------------------------------------------------------------------
# R04.7  what the scheduler relies on when it asks is_canceled()
#
# After a task was inserted into the wait pool the scheduler asks
# self.is_canceled(task) and, on a true answer, deletes the task from the pool
# again - nothing else is done with it.  So the answer may be true only on
# paths on which is_canceled has handed that task on as CANCELED (else the task
# is in none of started / waiting / failed / canceled), and it must be true
# when it did (else the task is reported CANCELED and started later).  Paths
# are followed with the outcome of every test remembered; a test for a key of
# the task dict is followed only the way it can come out for a task that has
# passed BaseComponent.advance (which reads thing['uid'], thing['type'],
# thing['state'] of everything it is given).
#
def _eval3(fm, facts):
    if fm[0] == 'atom':
        return facts.get(fm[1])
    if fm[0] == 'const':
        return fm[1]
    if fm[0] == 'not':
        v = _eval3(fm[1], facts)
        return None if v is None else not v
    vals = [_eval3(x, facts) for x in fm[1]]
    if fm[0] == 'and':
        if any(v is False for v in vals):
            return False
        return True if all(v is True for v in vals) else None
    if any(v is True for v in vals):
        return True
    return False if all(v is False for v in vals) else None


def _key_test(e, param):
    """(key, positive) when the atomic test `e` asks whether the dict `param`
    has the constant key (positive: true when it has): 'K' in p,
    'K' in p.keys(), p.get('K'), p.get('K') is not None"""
    def is_p(x):
        if isinstance(x, ast.Call) and isinstance(x.func, ast.Attribute) and \
                x.func.attr == 'keys' and not x.args:
            x = x.func.value
        return isinstance(x, ast.Name) and x.id == param

    def get_key(x):
        if isinstance(x, ast.Call) and isinstance(x.func, ast.Attribute) and \
                x.func.attr == 'get' and is_p(x.func.value) and \
                len(x.args) == 1 and isinstance(x.args[0], ast.Constant):
            return x.args[0].value
        return None
    if isinstance(e, ast.UnaryOp) and isinstance(e.op, ast.Not):
        r = _key_test(e.operand, param)
        return (r[0], not r[1]) if r else None
    if _is_bool_call(e):
        return _key_test(e.args[0], param)
    if isinstance(e, ast.Compare) and len(e.ops) == 1:
        op, l, r = e.ops[0], e.left, e.comparators[0]
        if isinstance(op, (ast.In, ast.NotIn)) and \
                isinstance(l, ast.Constant) and is_p(r):
            return l.value, isinstance(op, ast.In)
        if isinstance(op, (ast.Is, ast.IsNot, ast.Eq, ast.NotEq)) and \
                isinstance(r, ast.Constant) and r.value is None and \
                get_key(l) is not None:
            return get_key(l), isinstance(op, (ast.IsNot, ast.NotEq))
        return None
    k = get_key(e)
    return (k, True) if k is not None else None


def _carried_keys(prog, f):
    """constant keys that BaseComponent.advance reads (or writes) on every
    thing it is given, on every path through its loop over the things"""
    g = cfg_of(f)
    params = [p for p in f.params if p != 'self']
    keys = set()
    for n in g.nodes:
        if n.kind != 'for' or not isinstance(n.ast.target, ast.Name) or \
                not isinstance(n.ast.iter, ast.Name) or not params or \
                n.ast.iter.id != params[0]:
            continue
        v = n.ast.target.id
        lstart = loop_slice(g, n.id)[0]
        for m in g.nodes:
            if m.id not in g.loop_body[n.id] or m.ast is None or \
                    m.kind not in ('stmt', 'test'):
                continue
            ks = {x.slice.value for x in walk(m.ast)
                  if isinstance(x, ast.Subscript) and
                  isinstance(x.value, ast.Name) and x.value.id == v and
                  isinstance(x.slice, ast.Constant) and
                  not isinstance(x.ctx, ast.Del)}
            if ks - keys and must_pass(g, lstart, n.id, [m.id],
                                       skip_exc=True):
                keys |= ks
        break
    return keys


def _single_defs(f):
    """{name: value} for locals assigned exactly once, by a plain assignment
    of a test-like expression (comparison, not / and / or, dict.get, name)"""
    count, val = {}, {}
    for n in walk(f.node):
        if isinstance(n, ast.Name) and isinstance(n.ctx, (ast.Store, ast.Del)):
            count[n.id] = count.get(n.id, 0) + 1
        if isinstance(n, ast.Assign) and len(n.targets) == 1 and \
                isinstance(n.targets[0], ast.Name):
            val[n.targets[0].id] = n.value
    for p in f.params:
        count[p] = count.get(p, 0) + 1
    ok = (ast.Compare, ast.BoolOp, ast.UnaryOp, ast.Name)
    return {k: v for k, v in val.items() if count.get(k) == 1 and (
        isinstance(v, ok) or _is_bool_call(v) or (
            isinstance(v, ast.Call) and isinstance(v.func, ast.Attribute)
            and v.func.attr == 'get'))}


def _subst(e, defs, depth=4):
    """`e` with test-like single-definition locals replaced by their value"""
    if depth <= 0:
        return e
    if isinstance(e, ast.Name) and e.id in defs:
        return _subst(defs[e.id], defs, depth - 1)
    if isinstance(e, ast.UnaryOp) and isinstance(e.op, ast.Not):
        return ast.UnaryOp(op=ast.Not(), operand=_subst(e.operand, defs,
                                                        depth))
    if isinstance(e, ast.BoolOp):
        return ast.BoolOp(op=e.op, values=[_subst(v, defs, depth)
                                           for v in e.values])
    if _is_bool_call(e):
        return _subst(e.args[0], defs, depth)
    if isinstance(e, ast.Compare) and len(e.ops) == 1 and \
            isinstance(e.ops[0], (ast.Is, ast.IsNot, ast.Eq, ast.NotEq)) and \
            isinstance(e.comparators[0], ast.Constant) and \
            isinstance(e.left, ast.Name) and e.left.id in defs:
        v = _subst(e.left, defs, depth - 1)
        c = e.comparators[0].value
        pos = isinstance(e.ops[0], (ast.Is, ast.Eq))
        if c is None and not _boolean_typed(v):
            return ast.Compare(left=v, ops=e.ops, comparators=e.comparators)
        if isinstance(c, bool) and _boolean_typed(v):
            return v if c == pos else ast.UnaryOp(op=ast.Not(), operand=v)
    return e


def r04_7(prog, rep, rid='R04.7'):
    rep.rule(rid, 'is_canceled answers true for a task of the scheduler only '
             'after it has handed that task on as CANCELED, and hands it on '
             'only when it answers true (the scheduler drops the task from '
             'the wait pool on a true answer and does nothing else with it)',
             minimum=2)
    K = prog.cls(BASE[0], BASE[1])
    f = prog.find_method(K, 'is_canceled')
    fa = prog.find_method(K, 'advance')
    while fa is not None and fa.cls is not None and \
            prog.find_method(K, 'advance', after=fa.cls) is not None:
        fa = prog.find_method(K, 'advance', after=fa.cls)
    if f is None or fa is None:
        raise AnalysisError('anchor is_canceled / advance of %s not found'
                            % K.name)
    rep.saw(f)
    carried = _carried_keys(prog, fa)
    if 'uid' not in carried:
        raise AnalysisError('UNRECOGNISED-IDIOM %s: loop over the things '
                            'which reads their keys not found' % fa.where)
    params = [p for p in f.params if p != 'self']
    if len(params) != 1:
        raise AnalysisError('UNRECOGNISED-IDIOM %s: parameters' % f.where)
    param = params[0]
    g = cfg_of(f)
    smap = I.stmt_node_map(g)
    canceled = prog.const('states.py', 'CANCELED')
    hnodes = {smap[id(c)].id for c in calls_in(f.node)
              if I.is_handon(c) and id(c) in smap and
              I.handon_state(prog, f, c) == canceled and
              isinstance(I.handon_thing(c), ast.Name) and
              I.handon_thing(c).id == param}
    defs = _single_defs(f)

    def outs(n, facts):
        """[(edge, facts)] the ways to leave node n with `facts` known"""
        es = [e for e in g.succ[n.id] if e.label != 'exc']
        if n.kind != 'test':
            return [(e, facts) for e in es]
        e0 = _subst(n.ast, defs)
        kt = _key_test(e0, param)
        if kt is not None and kt[0] in carried:
            want = 'T' if kt[1] else 'F'
            return [(e, facts) for e in es if e.label == want]
        fm = _formula(e0)
        v = _eval3(fm, dict(facts))
        if v is not None:
            return [(e, facts) for e in es if e.label == ('T' if v else 'F')]
        pos = fm[0] == 'atom'
        at = fm if pos else (fm[1] if fm[0] == 'not' and
                             fm[1][0] == 'atom' else None)
        out = []
        for e in es:
            if at is not None and e.label in ('T', 'F'):
                out.append((e, facts | {(at[1], (e.label == 'T') == pos)}))
            else:
                out.append((e, facts))
        return out

    start = (g.entry.id, frozenset(), False)
    parent = {start: None}
    todo = deque([start])
    answers = []                    # (state, truth of the answer)
    while todo:
        key = todo.popleft()
        nid, facts, handed = key
        n = g.nodes[nid]
        if len(parent) > 20000:
            raise AnalysisError('UNRECOGNISED-IDIOM %s: too many paths'
                                % f.where)
        if n.kind == 'stmt' and isinstance(n.ast, ast.Return):
            v = n.ast.value
            if v is None:
                answers.append((key, False))
                continue
            if isinstance(v, ast.Constant):
                answers.append((key, bool(v.value)))
                continue
            fm = _formula(_subst(v, defs))
            t = _eval3(fm, dict(facts))
            if t is None and not (fm[0] == 'atom' or (
                    fm[0] == 'not' and fm[1][0] == 'atom')):
                raise AnalysisError('UNRECOGNISED-IDIOM %s: `%s`'
                                    % (f.where, short(n.ast, 50)))
            for val in ((True, False) if t is None else (t,)):
                answers.append((key, val))
            continue
        if nid == g.exit.id:
            answers.append((key, False))        # falls off the end: None
            continue
        h2 = handed or nid in hnodes
        if n.kind == 'stmt' and isinstance(n.ast, ast.Assign):
            # a result local: `res = False` ... `res = True` ... `return res`
            tg = {x for t in n.ast.targets for x in stores_in_target(t)}
            facts = frozenset(x for x in facts if x[0] not in tg)
            if isinstance(n.ast.value, ast.Constant) and \
                    all(isinstance(t, ast.Name) for t in n.ast.targets):
                facts |= {(t, bool(n.ast.value.value)) for t in tg}
        for e, f2 in outs(n, facts):
            k2 = (e.dst, f2, h2)
            if k2 not in parent:
                parent[k2] = (key, e)
                todo.append(k2)
    if not any(t for k, t in answers) and \
            not any(k[2] for k, t in answers):
        # never true and never hands anything on: not the function this rule
        # knows.  (Never true but handing on is decided below: every path
        # with the hand-on answers false)
        raise AnalysisError('UNRECOGNISED-IDIOM %s: no true answer and no '
                            'CANCELED hand-on found' % f.where)

    def path_of(key):
        out = []
        while parent.get(key) is not None:
            key, e = parent[key]
            out.append((g.nodes[e.src], e))
        out.reverse()
        return out

    lost = [k for k, t in answers if t and not k[2]]
    if lost and hnodes:
        # which test took the path away from the hand-on?
        deciding = None
        for n, e in path_of(lost[0]):
            if n.kind == 'test' and e.label in ('T', 'F') and \
                    hnodes & g.reachable(n.id, no_back=True) and \
                    not hnodes & ({e.dst} | g.reachable(e.dst, no_back=True)):
                deciding = (n, e)
        kt = _key_test(_subst(deciding[0].ast, defs), param) \
            if deciding else None
        if kt is None:
            raise AnalysisError(
                'UNRECOGNISED-IDIOM %s: the CANCELED hand-on is guarded by '
                '`%s`' % (f.where, short(deciding[0].ast, 40)
                          if deciding else '?'))
        why = ('it hands the task on only if the task %s the key %r, and a '
               'task that waits in the scheduler %s'
               % ('has' if kt[1] else 'lacks', kt[0],
                  'carries that key (advance reads it)' if kt[0] in carried
                  else 'need not carry that key (advance guarantees only %s)'
                  % sorted(carried)))
        loc = f.loc(deciding[0].ast)
    elif lost:
        why, loc = 'there is no CANCELED hand-on of `%s`' % param, f.loc()
    rep.check(not lost, rid, f, 'a true answer of is_canceled is preceded by '
              'the CANCELED hand-on of the task on every path a scheduler '
              'task can take (keys %s are carried by every task)'
              % sorted(carried), construct='is_canceled:true=>handed',
              message='is_canceled(%s) can answer True without having handed '
              'the task on as CANCELED: %s.  _schedule_incoming deletes a '
              'task from the wait pool on a true answer and does nothing '
              'else with it: the task is neither started, waiting, failed '
              'nor canceled' % (param, why if lost else ''),
              loc=loc if lost else f.loc(),
              history='A (4 cores) runs on a 4-core node; B is submitted, and '
              'the cancel request for B arrives after work() queued B and '
              'before the scheduling loop picks it up: B has to wait, is '
              'inserted into the pool, is_canceled(B) answers True, B is '
              'deleted from the pool - and no CANCELED is ever published',
              path=[short(n.ast, 50) + ' -> ' + e.label
                    for n, e in path_of(lost[0]) if n.kind == 'test']
              if lost else None)
    dup = [k for k, t in answers if k[2] and not t]
    how = ''
    if dup:
        last = g.nodes[dup[0][0]]
        how = ('`%s`' % short(last.ast, 40)) if last.kind == 'stmt' else \
            'falling off the end of the function (None)'
    rep.check(not dup, rid, f, 'is_canceled answers true on every path on '
              'which it handed the task on as CANCELED',
              construct='is_canceled:handed=>true',
              message='is_canceled(%s) can hand the task on as CANCELED and '
              'then answer false (by %s): the scheduler keeps the task in the '
              'wait pool and starts it later although it was reported '
              'CANCELED' % (param, how),
              loc=f.loc(g.nodes[dup[0][0]].ast) if dup and
              g.nodes[dup[0][0]].kind == 'stmt' else f.loc(),
              history='cancel request for a waiting task B: B is published '
              'as CANCELED and started once cores are free',
              path=[short(n.ast, 50) + ' -> ' + e.label
                    for n, e in path_of(dup[0]) if n.kind == 'test']
              if dup else None)


# ------------------------------------------------------------------------------
# R04.8  a request is refused for lack of capacity only when it exceeds it
#
# schedule_task refuses a task for good (raise / assert -> the task is FAILED)
# where it compares an amount the task asks for (a value computed from the
# task description only) with an amount the pilot offers (a value computed from
# the resource manager info / the node list, possibly per slot of this task).
# Such a refusal may be taken only when the request is strictly larger: with
# `>=` (or `<` in an assert) a task that fits exactly - one rank which needs
# all cores of a node - is failed although it fits the idle pilot.
#
_ORDER = {ast.Gt: ({'>'}, {'<', '='}), ast.GtE: ({'>', '='}, {'<'}),
          ast.Lt: ({'<'}, {'>', '='}), ast.LtE: ({'<', '='}, {'>'})}
_MIRROR_REL = {'<': '>', '>': '<', '=': '='}


def _refusing_compares(test, label, out):
    """[(comparison, label)]: the ordering comparisons below and / or / not of
    `test` with the way each comes out when it contributes to `test` coming
    out as `label` (a conjunct of a failing assert, a disjunct of a passing
    `or`: alone sufficient; otherwise necessary - in both cases the refusal
    hinges on it)"""
    if isinstance(test, ast.UnaryOp) and isinstance(test.op, ast.Not):
        _refusing_compares(test.operand, 'F' if label == 'T' else 'T', out)
    elif isinstance(test, ast.BoolOp):
        for v in test.values:
            _refusing_compares(v, label, out)
    elif isinstance(test, ast.Compare) and len(test.ops) == 1 and \
            type(test.ops[0]) in _ORDER:
        out.append((test, label))
    return out


def r04_8(prog, rep, rid='R04.8'):
    rep.rule(rid, 'schedule_task refuses a task (raise / assert) on the '
             'comparison of a requested amount with an offered amount only '
             'when the request is strictly larger - an exact fit is not '
             'refused', minimum=2)
    base, classes = sched_classes(prog)
    seen = set()
    for K in classes:
        f = prog.find_method(K, 'schedule_task')
        if f is None or id(f.node) in seen:
            continue
        seen.add(id(f.node))
        rep.saw(f)
        g = cfg_of(f)
        d = Deps(f.node)
        params = [p for p in f.params if p != 'self']
        if not params:
            raise AnalysisError('UNRECOGNISED-IDIOM %s: no task parameter'
                                % f.where)
        task = params[0]

        def side(e):
            """'req' (from the task only), 'cap' (from the pilot's
            resources), None"""
            deps = d.expr_depends(e)
            res = any(x.startswith('self.') and
                      x.split('[')[0] not in ('self._log', 'self._prof')
                      for x in deps)
            if res:
                return 'cap'
            if task in deps or any(x.startswith(task + '[') for x in deps):
                return 'req'
            return None

        def resolve(a, node):
            """a test which is a local holding a comparison -> that
            comparison"""
            for _ in range(3):
                if isinstance(a, ast.Name):
                    ds = reaching_defs(g, a.id, node.id)
                    if len(ds) == 1 and ds[0][1] is not None:
                        a = ds[0][1]
                        continue
                break
            return a

        indexes = {x.slice.id for x in walk(f.node)
                   if isinstance(x, ast.Subscript) and
                   isinstance(x.slice, ast.Name)}
        sites = []                       # (ast for loc, [(compare, label)])
        for n in g.stmt_nodes():
            if n.kind != 'stmt':
                continue
            if isinstance(n.ast, ast.Assert):
                sites.append((n.ast, _refusing_compares(
                    resolve(n.ast.test, n), 'F', [])))
            elif isinstance(n.ast, ast.Raise) and n.ast.exc is not None:
                cs = []
                for tid, lab in guards(g, n.id):
                    # a test decides this refusal only if its other outcome
                    # can lead to a normal return (an earlier `if x: raise`
                    # dominates everything behind it, but decides nothing
                    # there)
                    other = [e.dst for e in g.succ[tid]
                             if e.label in ('T', 'F') and e.label != lab]
                    if not any(o == g.exit.id or g.exit.id in g.reachable(o)
                               for o in other):
                        continue
                    _refusing_compares(resolve(g.nodes[tid].ast,
                                               g.nodes[tid]), lab, cs)
                sites.append((n.ast, cs))
        for stmt, cs in sites:
            for cmp_, lab in cs:
                l, r = cmp_.left, cmp_.comparators[0]
                sl, sr = side(l), side(r)
                if {sl, sr} != {'req', 'cap'}:
                    continue
                # an index compared with a length is a different boundary
                # (`i >= len(x)` is the right refusal there): not decided here
                rq, cp = (l, r) if sl == 'req' else (r, l)
                if (isinstance(cp, ast.Call) and dotted(cp.func) == 'len') or \
                        (isinstance(rq, ast.Name) and rq.id in indexes):
                    continue
                rel = set(_ORDER[type(cmp_.ops[0])][0 if lab == 'T' else 1])
                if sl == 'cap':          # relation of request vs offer
                    rel = {_MIRROR_REL[x] for x in rel}
                req, cap = (l, r) if sl == 'req' else (r, l)
                rep.check(rel == {'>'}, rid, f, '%s: `%s` refuses only when '
                          'the request `%s` exceeds `%s`'
                          % (K.name, short(stmt, 40), short(req, 30),
                             short(cap, 30)), construct=cmp_,
                          message='%s.schedule_task refuses the task (`%s`) '
                          'when `%s` comes out %s, i.e. when the requested '
                          '`%s` is %s the offered `%s`: a task that fits %s is '
                          'failed for lack of resources although it fits the '
                          'idle pilot' % (
                              K.name, short(stmt, 50), short(cmp_, 50),
                              'true' if lab == 'T' else 'false',
                              short(req, 30), ' or '.join(
                                  {'>': 'larger than', '=': 'equal to',
                                   '<': 'smaller than'}[x]
                                  for x in sorted(rel, reverse=True)),
                              short(cap, 30),
                              'exactly' if '=' in rel else ''),
                          loc=f.loc(stmt),
                          history='2 idle nodes with 4 cores each; a task '
                          'with 1 rank x 4 cores (one slot per node, one slot '
                          'requested): it is FAILED with "does not fit on a '
                          'single node" although a whole node is free')


# ------------------------------------------------------------------------------
# R04.9  what a task did not ask for does not keep it off a node.  Whether a
# waiting task "can never be scheduled" is inferred from a failed placement on
# the idle pilot (R04.2); that is only right if, on the idle pilot, the search
# passes over a node for no other reason than one the task itself gave.  The
# node loop of schedule_task does pass over nodes because of what the scheduler
# remembers across releases (self._colo_history, self._tagged_nodes: written by
# schedule_task, never cleared) - at the request of the task, through the
# options in td['tags'].  The description default of `tags` is the empty dict:
# a lookup `td['tags'].get(key, default)` answers `default` for every task
# that says nothing about `key`.  So for every such skip, every option lookup
# that gates one of its guards (the guard is closed for the other truth value
# of the option) closes it at its default as well.
#
def _empty_dict_options(prog):
    """keys of the task description whose documented default is an empty
    dict (TaskDescription._defaults): tags, metadata"""
    K = prog.cls('task_description.py', 'TaskDescription')
    tab = K.consts.get('_defaults')
    if not isinstance(tab, ast.Dict):
        raise AnalysisError('UNRECOGNISED-IDIOM %s: no literal _defaults table'
                            % K.where)
    out = set()
    for k, v in zip(tab.keys, tab.values):
        empty = (isinstance(v, ast.Dict) and not v.keys) or (
            isinstance(v, ast.Call) and dotted(v.func) == 'dict' and
            not v.args and not v.keywords)
        if empty and k is not None:
            key = prog.fold(K.module, k, K)
            if isinstance(key, str):
                out.add(key)
    return out


def _once_assigned(f):
    """{name: value} of the locals bound exactly once, by a plain assignment"""
    count, val = {}, {}
    for n in ast.walk(f.node):
        if isinstance(n, ast.Name) and isinstance(n.ctx, (ast.Store, ast.Del)):
            count[n.id] = count.get(n.id, 0) + 1
        elif isinstance(n, ast.ExceptHandler) and n.name:
            count[n.name] = count.get(n.name, 0) + 2
        if isinstance(n, ast.Assign) and len(n.targets) == 1 and \
                isinstance(n.targets[0], ast.Name):
            val[n.targets[0].id] = n.value
    for p_ in f.params:
        count[p_] = count.get(p_, 0) + 1
    return {k: v for k, v in val.items() if count.get(k) == 1}


def _key_of(e):
    """(base, key) of `base['key']` / `base.get('key'[, d])`"""
    if isinstance(e, ast.Subscript) and isinstance(e.slice, ast.Constant) \
            and isinstance(e.slice.value, str):
        return e.value, e.slice.value
    if isinstance(e, ast.Call) and isinstance(e.func, ast.Attribute) and \
            e.func.attr == 'get' and e.args and \
            isinstance(e.args[0], ast.Constant) and \
            isinstance(e.args[0].value, str):
        return e.func.value, e.args[0].value
    return None


class _Options:
    """the option lookups `<description>[<sub dict>].get(key[, default])` of
    one function, and the evaluation of a test with each of them at a chosen
    value"""

    def __init__(self, prog, f, subdicts):
        self.prog, self.f, self.sub = prog, f, subdicts
        self.defs = _once_assigned(f)

    def _res(self, e, depth=4):
        while isinstance(e, ast.Name) and e.id in self.defs and depth > 0:
            e, depth = self.defs[e.id], depth - 1
        return e

    def is_descr(self, e):
        e = self._res(e)
        k = _key_of(e)
        return bool(k) and k[1] == 'description'

    def lookup(self, e):
        """(sub dict key, option key, default expr or None) if `e` is a
        lookup of an option the task may leave out"""
        if not (isinstance(e, ast.Call) and isinstance(e.func, ast.Attribute)
                and e.func.attr == 'get' and 1 <= len(e.args) <= 2 and
                not e.keywords and isinstance(e.args[0], ast.Constant)):
            return None
        base = _key_of(self._res(e.func.value))
        if not base or base[1] not in self.sub or \
                not self.is_descr(base[0]):
            return None
        return base[1], e.args[0].value, (e.args[1] if len(e.args) == 2
                                          else None)

    def options_in(self, e, depth=4, out=None):
        """{(sub, key): [default exprs]} read by `e` through once-assigned
        locals"""
        out = {} if out is None else out
        for x in walk(e):
            lk = self.lookup(x)
            if lk:
                out.setdefault(lk[:2], []).append(lk[2])
            elif isinstance(x, ast.Name) and x.id in self.defs and depth > 0:
                self.options_in(self.defs[x.id], depth - 1, out)
        return out

    def at(self, e, setting, depth=5):
        """`e` with once-assigned locals replaced by their value and every
        option lookup by the constant `setting[(sub, key)]` says (a function
        of the default expression)"""
        lk = self.lookup(e) if isinstance(e, ast.Call) else None
        if lk and lk[:2] in setting:
            return setting[lk[:2]](lk[2])
        if isinstance(e, ast.Name) and e.id in self.defs and depth > 0 and \
                self.options_in(self.defs[e.id]):
            return self.at(self.defs[e.id], setting, depth - 1)
        if isinstance(e, ast.UnaryOp) and isinstance(e.op, ast.Not):
            return ast.UnaryOp(op=ast.Not(),
                               operand=self.at(e.operand, setting, depth))
        if isinstance(e, ast.BoolOp):
            return ast.BoolOp(op=e.op, values=[self.at(v, setting, depth)
                                               for v in e.values])
        if _is_bool_call(e):
            return ast.Call(func=e.func, keywords=[],
                            args=[self.at(e.args[0], setting, depth)])
        if isinstance(e, ast.IfExp):
            return ast.IfExp(test=self.at(e.test, setting, depth),
                             body=self.at(e.body, setting, depth),
                             orelse=self.at(e.orelse, setting, depth))
        if isinstance(e, ast.Compare) and len(e.ops) == 1:
            return ast.Compare(left=self.at(e.left, setting, depth),
                               ops=e.ops, comparators=e.comparators)
        return e


def r04_9(prog, rep, rid='R04.9'):
    from .c02 import sched_info
    rep.rule(rid, 'schedule_task passes over a node because of what the '
             'scheduler remembers across releases (tag history) only at the '
             "request of the task: an option of td['tags'] that gates such a "
             'skip closes it at the default the lookup gives a task that did '
             'not set the option', minimum=2)
    subdicts = _empty_dict_options(prog)
    base, classes = sched_classes(prog)
    for K in classes:
        f, g, smap, rem, alc, X, dec, ext, find_call = sched_info(prog, K)
        rep.saw(f)
        F = smap[id(find_call)]
        H = F.loops[-1]
        body = g.loop_body[H]
        opts = _Options(prog, f, subdicts)
        # what schedule_task itself remembers: self.<attr> it stores into
        kept = set()
        for kind_, t, n in I.stores(f.node):
            p_ = t
            if kind_ in ('assign', 'aug'):
                if not isinstance(t, ast.Subscript):
                    continue                    # (re-binding an attribute)
                while isinstance(p_, ast.Subscript):
                    p_ = p_.value
            elif kind_ != 'mutate':
                continue
            if I.is_path(p_) and root_name(p_) == 'self' and \
                    isinstance(p_, ast.Attribute):
                kept.add(unparse(p_))
        start = loop_slice(g, H)[0]
        before = g.reachable(start, skip_nodes={F.id, H})
        for n in g.stmt_nodes():
            if n.kind != 'stmt' or not isinstance(n.ast, ast.Continue) or \
                    n.id not in before or n.id not in body or \
                    not n.loops or n.loops[-1] != H:
                continue
            gs = [(g.nodes[t], lab) for t, lab in guards(g, n.id, start=start)
                  if g.nodes[t].ast is not None]

            def reads_kept(e, depth=4):
                for x in walk(e):
                    if I.is_path(x) and unparse(x) in kept:
                        return True
                    if isinstance(x, ast.Name) and x.id in opts.defs and \
                            depth > 0 and reads_kept(opts.defs[x.id],
                                                     depth - 1):
                        return True
                return False
            if not any(reads_kept(t.ast) for t, lab in gs):
                continue
            for t, lab in gs:
                pol = lab == 'T'
                for (sub, key), dflts in sorted(opts.options_in(t.ast)
                                                .items()):
                    for d in dflts:
                        dv = None if d is None else prog.fold(f.module, d,
                                                              f.cls)
                        if dv is UNKNOWN:
                            raise AnalysisError(
                                'UNRECOGNISED-IDIOM %s: the default `%s` of '
                                "td[%r].get(%r, ..) is not a constant"
                                % (f.where, short(d, 30), sub, key))

                        def const(v):
                            return lambda d_: ast.Constant(value=v)
                        v_d = _truth(opts.at(t.ast, {(sub, key): const(dv)}),
                                     {})
                        v_n = _truth(opts.at(t.ast, {(sub, key): const(
                            not bool(dv))}), {})
                        gates = v_n is not None and v_n != pol
                        closed = v_d is not None and v_d != pol
                        fixed = v_d is not None and v_d == v_n == pol
                        if not gates and not closed and not fixed:
                            # the option does not decide this guard alone
                            continue
                        rep.check(closed, rid, f,
                                  "%s: the skip `%s` guarded by td[%r].get(%r) "
                                  'is closed at the default %r' % (
                                      K.name, short(t.ast, 40), sub, key, dv),
                                  construct='%s:%s.%s:default' % (K.name, sub,
                                                                  key),
                                  message="%s.schedule_task passes over a "
                                  'node that %s remember(s) from earlier '
                                  'tasks when `%s` is %s.  The guard is '
                                  "closed by td[%r][%r] = %r, but a task "
                                  'that does not set %r gets the default %r '
                                  'from `%s`, which leaves it open: tasks '
                                  'that never asked for it are kept off the '
                                  'remembered nodes.  That memory is not '
                                  'cleared when tasks complete, so the nodes '
                                  'stay off limits on the idle pilot too; a '
                                  'lone waiting task that needs them is then '
                                  'failed as "can never be scheduled" '
                                  '(_active_cnt == 0) although it fits'
                                  % (K.name, ' / '.join(sorted(kept)),
                                     short(t.ast, 60),
                                     'true' if pol else 'false', sub, key,
                                     not bool(dv), key, dv,
                                     short(ast.Call(
                                         func=ast.Attribute(
                                             value=ast.Name(id="td[%r]" % sub,
                                                            ctx=ast.Load()),
                                             attr='get', ctx=ast.Load()),
                                         args=[ast.Constant(value=key)] + (
                                             [d] if d is not None else []),
                                         keywords=[]), 60)),
                                  loc=f.loc(t.ast),
                                  history='2 nodes x 2 cores; T0 (1 core, '
                                  "tags={'colocate': 'A'}) runs on node 0 and "
                                  'completes; P (4 ranks x 1 core, '
                                  "tags={'colocate': 'B'}) waits alone: node "
                                  '0 is passed over, the placement fails on '
                                  'the idle pilot and P is failed instead of '
                                  'started')


# ------------------------------------------------------------------------------
# R04.10  a busy node still gives what it has to a task that may be spread.
# For an MPI task schedule_task asks every node for "up to n_slots" slots
# (`partial` set: first / last node, or scattered mode) and adds up what the
# nodes give; a task waiting alone is started after a release only because the
# free fragments of several nodes are added up.  So with `partial` set the
# per-node search may leave without searching only for a reason that excludes
# even ONE slot.  An exit before the search which is decided by comparing what
# the node has with an amount that grows with the number of slots asked for
# ("the node cannot serve all n_slots") is right only under `not partial`.
#
def _param_flow(g, d, params, expr, at, seen=None, depth=8):
    """the parameters whose value flows into `expr` evaluated at cfg node
    `at`: through the definitions that reach `at` (flow sensitive: a later
    `x = min(x, n)` does not count for an earlier test of x); bindings
    without a value (loop variables, tuple / augmented assignments) fall back
    to the flow-insensitive closure"""
    seen = set() if seen is None else seen
    out = set()
    for x in walk(expr):
        if not isinstance(x, ast.Name) or not isinstance(x.ctx, ast.Load):
            continue
        nm = x.id
        defs = reaching_defs(g, nm, at.id)
        if nm in params:
            ids = {n.id for n, v in defs}
            if not ids or at.id in g.reachable(g.entry.id, skip_nodes=ids) \
                    or at.id == g.entry.id:
                out.add(nm)
        for n, v in defs:
            if (nm, n.id) in seen:
                continue
            seen.add((nm, n.id))
            if v is not None and depth > 0 and \
                    not isinstance(n.ast, ast.AugAssign):
                out |= _param_flow(g, d, params, v, n, seen, depth - 1)
            else:
                out |= {q for q in params if q in d.closure(nm)} | (
                    {nm} & set(params))
    return out


def _resolve_local(g, e, at, depth=4):
    """(expression, cfg node at which it is evaluated): a plain local with one
    reaching definition is replaced by the value it was given"""
    while isinstance(e, ast.Name) and depth > 0:
        ds = reaching_defs(g, e.id, at.id)
        if len(ds) != 1 or ds[0][1] is None or \
                isinstance(ds[0][0].ast, ast.AugAssign):
            break
        e, at, depth = ds[0][1], ds[0][0], depth - 1
    return e, at


def _ordering_compares(e, out):
    """the ordering comparisons below not / and / or / bool() of a test"""
    if isinstance(e, ast.UnaryOp) and isinstance(e.op, ast.Not):
        _ordering_compares(e.operand, out)
    elif isinstance(e, ast.BoolOp):
        for v in e.values:
            _ordering_compares(v, out)
    elif _is_bool_call(e):
        _ordering_compares(e.args[0], out)
    elif isinstance(e, ast.Compare) and len(e.ops) == 1 and \
            type(e.ops[0]) in _ORDER:
        out.append(e)
    return out


def r04_10(prog, rep, rid='R04.10'):
    from .c01 import find_resources_info
    rep.rule(rid, 'with `partial` set _find_resources leaves before the '
             'search only for a reason that excludes even one slot: no early '
             'exit is decided by comparing what the node has with an amount '
             'that grows with n_slots', minimum=2)
    base, classes = sched_classes(prog)
    for K in classes:
        f, g, d, nodevar, res, appends = find_resources_info(prog, K)
        rep.saw(f)
        params = [q for q in f.params if q != 'self']
        if 'partial' not in params or 'n_slots' not in params:
            raise AnalysisError('UNRECOGNISED-IDIOM %s: parameters partial / '
                                'n_slots missing' % f.where)
        if any(isinstance(x, ast.Name) and x.id == 'partial' and
               isinstance(x.ctx, (ast.Store, ast.Del)) for x in walk(f.node)):
            raise AnalysisError('UNRECOGNISED-IDIOM %s: `partial` is rebound'
                                % f.where)
        defs = _single_defs(f)
        # the paths a call with partial=True can take
        pruned = []
        for n in g.nodes:
            if n.kind != 'test':
                continue
            t = _truth(_subst(n.ast, defs), {'partial': 'True'})
            if t is not None:
                pruned.append((n.id, 'F' if t else 'T'))
        # the search: the loops which append to the result (the appends
        # themselves where there is no loop)
        search = {a.loops[0] if a.loops else a.id for a in appends}
        early = g.reachable(g.entry.id, skip_nodes=search, skip_edges=pruned)
        exits = [n for n in g.stmt_nodes() if n.kind == 'stmt' and
                 n.id in early and isinstance(n.ast, (ast.Return, ast.Raise))]

        def capacity(e, at):
            """the size of one of the node's lists (not what is free of it)"""
            e, at = _resolve_local(g, e, at)
            return isinstance(e, ast.Call) and dotted(e.func) == 'len' and \
                len(e.args) == 1 and root_name(e.args[0]) == nodevar
        nbad = 0
        for x in exits:
            for tid, lab in guards(g, x.id):
                tn = g.nodes[tid]
                te, tat = _resolve_local(g, tn.ast, tn)
                for cmp_ in _ordering_compares(te, []):
                    l, r = cmp_.left, cmp_.comparators[0]
                    if isinstance(l, ast.Constant) or \
                            isinstance(r, ast.Constant):
                        continue           # `max_slots < 1`: not even one
                    if capacity(l, tat) or capacity(r, tat):
                        continue
                    fl = _param_flow(g, d, params, l, tat)
                    fr = _param_flow(g, d, params, r, tat)
                    if 'n_slots' not in fl | fr or nodevar not in fl | fr:
                        continue
                    nbad += 1
                    kind = 'returns `%s`' % short(x.ast.value, 20) \
                        if isinstance(x.ast, ast.Return) else 'raises'
                    rep.bad(rid, f, cmp_,
                            '%s._find_resources %s before it has searched '
                            'the node when `%s` comes out %s - a comparison '
                            'of what the node `%s` has with an amount that '
                            'depends on `n_slots` - also when `partial` is '
                            'set.  With `partial` the method has to give as '
                            'many slots as the node can serve (fewer than '
                            'n_slots): schedule_task adds up the fragments of '
                            'several nodes for an MPI task.  A node that '
                            'cannot serve all n_slots is now passed over, so '
                            'a task that fits the free cores of two busy '
                            'nodes together is not placed and keeps waiting'
                            % (K.name, kind, short(cmp_, 60),
                               'true' if lab == 'T' else 'false', nodevar),
                            f.loc(cmp_),
                            history='2 nodes x 4 cores, four 2-core tasks run '
                            '(two per node); an MPI task with 4 ranks x 1 '
                            'core waits alone; one task of each node '
                            'completes: 2 + 2 cores are free, enough for the '
                            '4 ranks (2 slots from each node), but each node '
                            'is refused because it has fewer than 4 free '
                            'cores - the task is not started')
        if not nbad:
            rep.ok(rid, f, '%s: none of the %d exit(s) before the search that '
                   'a call with partial=True can reach is decided by a '
                   'comparison of the node\'s resources with an amount '
                   'depending on n_slots' % (K.name, len(exits)), f.loc())


# ------------------------------------------------------------------------------
# R04.11  the count of started tasks goes up only together with a start
#
# `_try_allocation` fails a task which cannot be placed only while
# `_active_cnt == 0` (R04.2).  The branch of the intake which starts a task
# with application-supplied slots counts it by hand.  The count and the start
# must come together on every path - including the path on which a statement
# between the two raises into an enclosing handler that disposes of the task
# in another way (failed, `continue`): a count without a start is never taken
# back, because only the release of a started task decrements it.
#
def _is_cnt_step(n, op):
    a = n.ast
    return n.kind == 'stmt' and isinstance(a, ast.AugAssign) and \
        isinstance(a.op, op) and unparse(a.target) == 'self._active_cnt'


def _start_calls(prog, f, K, depth=1):
    """calls in f which start a task: a hand-on as AGENT_EXECUTING_PENDING, or
    a call of a method of the class which contains one"""
    target = prog.const('states.py', 'AGENT_EXECUTING_PENDING')
    out = []
    for c in calls_in(f.node):
        if I.is_handon(c):
            if I.handon_state(prog, f, c) == target:
                out.append(c)
        elif depth and isinstance(c.func, ast.Attribute) and \
                isinstance(c.func.value, ast.Name) and \
                c.func.value.id == 'self':
            h = prog.resolve_call(f, c, K)
            if h is not None and h is not f and \
                    _start_calls(prog, h, K, depth - 1):
                out.append(c)
    return out


def r04_11(prog, rep, rid='R04.11'):
    rep.rule(rid, 'where the scheduler counts a task as started by hand '
             '(`_active_cnt += 1` next to the start hand-on) every path '
             'through the increment - exceptions into enclosing handlers '
             'included - also passes the start (or takes the count back)',
             minimum=1)
    K = prog.cls(BASE[0], BASE[1])
    for name, f in sorted(K.methods.items()):
        if not any(isinstance(n, ast.AugAssign) and isinstance(n.op, ast.Add)
                   and unparse(n.target) == 'self._active_cnt'
                   for n in walk(f.node)):
            continue
        starts = _start_calls(prog, f, K)
        if not starts:
            continue            # grant by return value: R03.3 (grant paths)
        rep.saw(f)
        g = cfg_of(f)
        smap = I.stmt_node_map(g)
        via = {smap[id(c)].id for c in starts if id(c) in smap}
        via |= {n.id for n in g.nodes if _is_cnt_step(n, ast.Sub)}
        for n in g.nodes:
            if not _is_cnt_step(n, ast.Add):
                continue
            if n.loops:
                head = n.loops[-1]
                body = g.loop_body[head]
                begin = loop_slice(g, head)[0]
            else:
                head, body, begin = None, None, g.entry.id
            # a path of one iteration (one call) which reaches the increment
            # without a start ..
            before = set()
            todo = [begin]
            while todo:
                x = todo.pop()
                if x in before or x in via or \
                        (body is not None and x not in body):
                    continue
                before.add(x)
                if x == n.id:
                    continue
                todo += [e.dst for e in g.succ[x]
                         if not (e.back and e.dst == head)]
            # .. and leaves the iteration (the call) after it without one
            leaves = None
            seen = set()
            todo = [(e.dst, e, [n.id]) for e in g.succ[n.id]
                    if e.label != 'exc']
            while todo and leaves is None:
                x, e, path = todo.pop()
                if (e.back and e.dst == head) or \
                        (body is not None and x not in body) or \
                        x in (g.exit.id, g.raise_.id):
                    leaves = path + [x]
                    break
                if x in seen or x in via:
                    continue
                seen.add(x)
                todo += [(e2.dst, e2, path + [x]) for e2 in g.succ[x]]
            okay = not (n.id in before and leaves is not None)
            raising = None
            if leaves is not None:
                for a, b in zip(leaves, leaves[1:]):
                    if any(e.dst == b and e.label == 'exc'
                           for e in g.succ[a]) and g.nodes[a].ast is not None:
                        raising = g.nodes[a]
                        break
            rep.check(okay, rid, f, '`_active_cnt += 1` in %s comes with a '
                      'start on every path' % f.qual, construct=n.ast,
                      message='%s: `%s` is executed on a path on which the '
                      'task is not started (%s): the count of started tasks '
                      'stays one too high for ever, because only the release '
                      'of a started task takes it back' % (
                          f.qual, short(n.ast, 40),
                          'when `%s` raises afterwards, the handler disposes '
                          'of the task and goes on' % short(raising.ast, 50)
                          if raising is not None else 'the iteration / call '
                          'ends without the start hand-on'), loc=f.loc(n.ast),
                      history='a task arrives with application-supplied slots '
                      'naming a node that does not exist: it is failed, the '
                      'count stays 1; later a task which does not fit even '
                      'the idle pilot arrives: `_active_cnt == 0` never holds '
                      'again, the task waits for ever instead of being failed')


# ------------------------------------------------------------------------------
# R04.12  what is_canceled() reported as CANCELED is not given to the worker
#
# BaseComponent.work_cb hands the things of one state to the worker (for the
# scheduler: `work`, which queues them for the scheduling loop).  Before, it
# asks self.is_canceled(x) for each of them; a true answer means that x has
# been handed on as CANCELED (R04.7).  So the list the worker gets must be the
# one from which those things were taken out: the value computed with the
# help of is_canceled must be a definition of the worker's argument which
# reaches the call.
#
def _asks_canceled(prog, f, K, e, depth=2):
    for c in walk(e):
        if not isinstance(c, ast.Call):
            continue
        if call_name(c) == 'self.is_canceled':
            return True
        if depth and isinstance(c.func, ast.Attribute) and \
                isinstance(c.func.value, ast.Name) and \
                c.func.value.id == 'self':
            h = prog.resolve_call(f, c, K)
            if h is not None and h is not f and h.name != 'is_canceled' and \
                    _asks_canceled(prog, h, K, h.node, depth - 1):
                return True
    return False


def r04_12(prog, rep, rid='R04.12'):
    rep.rule(rid, 'the list of things BaseComponent passes to a worker is the '
             'list from which the things is_canceled() reported as CANCELED '
             'have been taken out', minimum=1)
    K = prog.cls(BASE[0], BASE[1])
    comp = prog.find_method(K, 'is_canceled')
    if comp is None or comp.cls is None:
        raise AnalysisError('anchor is_canceled of %s not found' % K.name)
    C = comp.cls
    for name, f in sorted(C.methods.items()):
        wcalls = [c for c in calls_in(f.node)
                  if isinstance(c.func, ast.Subscript) and
                  unparse(c.func.value) == 'self._workers']
        if not wcalls:
            continue
        rep.saw(f)
        g = cfg_of(f)
        smap = I.stmt_node_map(g)
        # statements which ask is_canceled and what they (re)define
        asking = []
        for n in g.nodes:
            if n.ast is None or n.kind not in ('stmt', 'test', 'for'):
                continue
            root = n.ast.iter if n.kind == 'for' else n.ast
            if _asks_canceled(prog, f, K, root):
                asking.append(n)
        for c in wcalls:
            wn = smap.get(id(c))
            if wn is None or len(c.args) != 1 or c.keywords:
                raise AnalysisError('UNRECOGNISED-IDIOM %s: worker call `%s`'
                                    % (f.where, short(c, 50)))
            arg = c.args[0]
            if _asks_canceled(prog, f, K, arg):
                rep.ok(rid, f, 'worker argument filtered in place',
                       f.loc(c))
                continue
            if not isinstance(arg, ast.Name):
                raise AnalysisError('UNRECOGNISED-IDIOM %s: worker argument '
                                    '`%s`' % (f.where, short(arg, 50)))
            # asking statements from which the worker call is reached
            # (in the same iteration of the loops the call is in)
            outer = [e for m in g.nodes for e in g.succ[m.id]
                     if e.back and e.dst in wn.loops]
            prior = [n for n in asking
                     if wn.id in g.reachable(
                         [e.dst for e in g.succ[n.id] if e.label != 'exc'],
                         skip_edges=outer)]
            if not prior:
                rep.ok(rid, f, 'nothing is reported CANCELED before the '
                       'worker call', f.loc(c))
                continue
            def derived(name, at, depth=3):
                """the value of `name` at node `at` was computed with the help
                of is_canceled: by an asking statement, as a copy of such a
                value, or collected by appends which an asking test guards"""
                for d, v in reaching_defs(g, name, at):
                    if d.kind == 'stmt' and any(d is q for q in prior):
                        return True
                    if isinstance(v, ast.Call) and len(v.args) == 1 and \
                            not v.keywords and \
                            dotted(v.func) in ('list', 'tuple', 'ru.as_list'):
                        v = v.args[0]
                    if depth and isinstance(v, ast.Name) and \
                            derived(v.id, d.id, depth - 1):
                        return True
                for n in g.nodes:
                    if not (_is_append(n) and
                            isinstance(n.ast.value.func.value, ast.Name) and
                            n.ast.value.func.value.id == name):
                        continue
                    gs = {t for t, lab in guards(g, n.id)}
                    if (any(n is q for q in prior) or
                            any(q.id in gs for q in prior)) and \
                            at in g.reachable(n.id, skip_edges=outer):
                        return True
                return False

            filt = derived(arg.id, wn.id)
            others = sorted({short(p.ast.iter if p.kind == 'for' else p.ast,
                                   60) for p in prior})
            rep.check(filt, rid, f, 'the worker gets the list filtered '
                      'by is_canceled', construct=c,
                      message='%s: `%s` passes `%s` to the worker, but what '
                      'the cancel filter before it computes (`%s`) is not a '
                      'definition of `%s` that reaches this call: a thing for '
                      'which is_canceled() answered true - and which it has '
                      'handed on as CANCELED - is still given to the worker'
                      % (f.qual, short(c, 50), arg.id, '`, `'.join(others),
                         arg.id), loc=f.loc(c),
                      history='the cancel request for task B is seen before B '
                      'arrives on the scheduler\'s input queue: work_cb '
                      'reports B as CANCELED and still passes it to work(): '
                      'B is scheduled and started - canceled and started')


# ------------------------------------------------------------------------------
#
def run(prog, rep, tier):
    rep.decided = ('exactly one outcome per task on every path of the intake '
        'loop, the placement loop, the wait-pool insertion (incl. the '
        'post-insert cancel check), the wait-pool triage and the consumption '
        'of all three lazy_bisect results; the "can never be scheduled" raise '
        'is control dependent on _active_cnt == 0 and the other outcome is '
        'wait; priorities are iterated in descending order in both loops; a '
        'release re-enables the wait pool pass on every path of the loop from '
        'the reclaim step (first result true) to the next reclaim step (the '
        'boolean locals of the loop are evaluated abstractly, the results of '
        'the three steps are unconstrained); cancel of waiting tasks '
        'removes and reports together, keyed by the requested uid (values '
        'are followed through appends, comprehensions and helper methods; '
        'pop and get+del are both removals); is_canceled answers true for a '
        'scheduler task exactly on the paths on which it handed the task on '
        'as CANCELED (key tests on the task dict are evaluated for a task '
        'that has passed advance); schedule_task refuses a task on a '
        'request/offer comparison only when the request is strictly larger; '
        'the by-hand count of a pre-placed task comes with its start on '
        'every path incl. exceptions into enclosing handlers; the list '
        'work_cb passes to the worker is derived from the is_canceled '
        'filter before it.')
    rep.undecided = ('absence of starvation in general and "as soon as" '
        '(timing of the loop); the bisect heuristics of ru.lazy_bisect.')
    rep.assumptions = [
        'effects are atomic (an advance either happened or raised before '
        'having an effect)',
        'ru.lazy_bisect returns a partition (good, bad, failed) of its input',
        'a task that reaches the scheduling loop has passed '
        'BaseComponent.advance (work() advances the bulk to AGENT_SCHEDULING '
        'before it queues it) and therefore carries the keys advance reads '
        'on every thing (uid, type, state)',
        'wait pool values are task dicts (truthy): `pool.get(uid)` being '
        'truthy and `uid in pool` coincide',
    ]
    rep.attempt(r04_1, prog, rep)
    rep.attempt(r04_2, prog, rep)
    rep.attempt(r04_3, prog, rep)
    rep.attempt(r04_4, prog, rep)
    rep.attempt(r04_6, prog, rep)
    rep.attempt(r04_5, prog, rep)
    rep.attempt(r04_7, prog, rep)
    rep.attempt(r04_8, prog, rep)
    rep.attempt(r04_9, prog, rep)
    rep.attempt(r04_10, prog, rep)
    rep.attempt(r04_11, prog, rep)
    rep.attempt(r04_12, prog, rep)
    # the counter the rule R04.2 rests on
    from .c03 import r03_3
    rep.attempt(r03_3, prog, rep, rid='R03.3')
    rep.rule('R04.4', rep.rules['R04.4'], minimum=2)


# ------------------------------------------------------------------------------
_B = 'agent/scheduler/base.py'
_RANOUT = "            if resources and (r_wait is False and r_inc is False):\n                resources = False\n"
_NEWPOOL = "            self._waitpool[priority] = {task['uid']: task\n                                            for task in (unscheduled + to_wait)}\n"
_WAKE = "            if not resources and r:\n                resources = True\n"

_U = 'utils/component.py'
_C = 'agent/scheduler/continuous.py'
_J = 'agent/scheduler/continuous_jsrun.py'
_CLOOP = "                    for uid in data:\n                        for priority in self._waitpool:\n                            task = self._waitpool[priority].get(uid)\n                            if task:\n                                to_cancel.append(task)\n                                del self._waitpool[priority][uid]\n                                break\n"
_CLOOP_POP = "                    for uid in data:\n                        for pool in self._waitpool.values():\n                            if uid in pool:\n                                to_cancel.append(pool.pop(uid))\n                                break\n"
_FAILDEF = "    def _fail_task(self, task, e, detail):\n"
_PULL = "    def _pull_waiting(self, uid):\n\n        for pool in self._waitpool.values():\n            if uid in pool:\n                return pool.pop(uid)\n\n        return None\n\n\n"
_COMPS = "                    waiting   = [self._pull_waiting(uid) for uid in data]\n                    to_cancel = [task for task in waiting if task is not None]\n"
_TRIAGE = "            to_wait   = list()\n            to_test   = list()\n\n            pool = self._waitpool[priority]\n            if not pool:\n                continue\n\n            self._log.debug_5('schedule waitpool[%d]: %d', priority, len(pool))\n\n            for task in pool.values():\n                named_env = task['description'].get('named_env')\n                if named_env:\n                    if named_env in self._named_envs:\n                        to_test.append(task)\n                    else:\n                        to_wait.append(task)\n                else:\n                    to_test.append(task)\n\n            to_test.sort(key=lambda x:\n                    x['tuple_size'][0] * x['tuple_size'][1] * x['tuple_size'][2],\n                     reverse=True)\n"
_TRIAGE_HEAD = "            pool = self._waitpool[priority]\n            if not pool:\n                continue\n\n"
_TRIAGE_COMP = _TRIAGE_HEAD + "            def env_ready(task):\n                named_env = task['description'].get('named_env')\n                return not named_env or named_env in self._named_envs\n\n            ready   = {uid: env_ready(task) for uid, task in pool.items()}\n            to_wait = [task for uid, task in pool.items() if not ready[uid]]\n            to_test = sorted([task for uid, task in pool.items() if ready[uid]],\n                             key=lambda x: x['tuple_size'][0], reverse=True)\n"
_TRIAGE_2LOOPS = _TRIAGE_HEAD + "            to_wait = list()\n            for task in pool.values():\n                ne = task['description'].get('named_env')\n                if ne and ne not in self._named_envs:\n                    to_wait.append(task)\n\n            to_test = list()\n            for task in pool.values():\n                ne = task['description'].get('named_env')\n                if not ne or ne in self._named_envs:\n                    to_test.append(task)\n            to_test.sort(key=lambda x: x['tuple_size'][0], reverse=True)\n"
_TRIAGE_INLINE = _TRIAGE_HEAD + "            to_wait = [t for t in pool.values()\n                       if t['description'].get('named_env') and\n                       t['description'].get('named_env') not in self._named_envs]\n            to_test = [t for t in pool.values()\n                       if not t['description'].get('named_env') or\n                       t['description'].get('named_env') in self._named_envs]\n            to_test.sort(key=lambda x: x['tuple_size'][0], reverse=True)\n"

_EXCL = "                    is_exclusive = td['tags'].get('exclusive', False)\n"
_EXCL_IF = "                    if is_exclusive and node_index in self._tagged_nodes:\n"

_RES_OLD = ("            for task in scheduled:\n"
            "                td = task['description']\n"
            "                task['$set']      = ['resources']\n"
            "                task['resources'] = {'cpu': td['ranks'] * td['cores_per_rank'],\n"
            "                                     'gpu': td['ranks'] * td['gpus_per_rank']}\n")
_RES_NEW = ("            for task in scheduled:\n"
            "                task['$set']      = ['resources']\n"
            "                task['resources'] = self._get_resources(task['description'])\n")
_RES_DEF = ("    @staticmethod\n    def _get_resources(td):\n\n"
            "        return {'cpu': td['ranks'] * td['cores_per_rank'],\n"
            "                'gpu': td['ranks'] * td['gpus_per_rank']}\n\n\n"
            "    # --------------------------------------------------------------------------\n    #\n")

_ISC_OLD = "            tid = task['uid']\n\n            if tid not in self._cancel_list:\n                return False\n\n            if 'state' in task:\n                self.advance(task, rps.CANCELED, publish=True, push=False)\n\n            # remove from cancel list\n            self._cancel_list.remove(tid)\n\n            return True\n"
_ISC_RES = "            tid = task['uid']\n            res = False\n\n            if tid in self._cancel_list:\n\n                if 'state' in task:\n                    self.advance(task, rps.CANCELED, publish=True, push=False)\n\n                self._cancel_list.remove(tid)\n                res = True\n\n            return res\n"
_FR_ANCH = "        # find at most `n_slots`\n        loop_core_idx = 0\n"
_FR_JNP = "        if not partial:\n            if alc_slots < n_slots:\n                return None\n"


_PRE = "                    try:\n                        self._change_slot_states(task['slots'], rpc.BUSY)\n                    except Exception as e:\n                        self._fail_task(task, e,\n                                        '\\n'.join(ru.get_exception_trace()))\n                        continue\n                    self._active_cnt += 1\n\n                    self.advance(task, rps.AGENT_EXECUTING_PENDING,\n                                 publish=True, push=True, fwd=True)\n                    continue\n"
_PRE_FAIL = "                        self._fail_task(task, e,\n                                        '\\n'.join(ru.get_exception_trace()))\n                        continue\n"
_PRE_START = "                    self.advance(task, rps.AGENT_EXECUTING_PENDING,\n                                 publish=True, push=True, fwd=True)\n                    continue\n"
_WFILT = "                    if self._cancel_list:\n                        things = [x for x in things\n                                    if not self.is_canceled(x)]\n"
_WCALL = "                    self._workers[state](things)\n"
_WFOR = "            for state,things in buckets.items():\n"


def _fr_pre(txt):
    return [(_C, _FR_ANCH, txt + "\n" + _FR_ANCH)]


MUTATIONS = [
    dict(name='R04.1 invalid-ranks task failed and scheduled (F10 reverted)', rules=('R04.1',), edits=[
        (_B, "                        self._fail_task(task, ValueError('invalid ranks'), '')\n                        continue\n", "                        self._fail_task(task, ValueError('invalid ranks'), '')\n")]),
    dict(name='R04.1 raptor-seen task not scheduled', rules=('R04.1',), edits=[
        (_B, "                            self._set_tuple_size(task)\n                            to_schedule[priority].append(task)\n\n                        else:\n                            to_raptor", "                            self._set_tuple_size(task)\n\n                        else:\n                            to_raptor")]),
    dict(name='R04.1 task waiting for a named env is dropped', rules=('R04.1',), edits=[
        (_B, "                    if named_env not in self._named_envs:\n                        to_wait.append(task)\n", "                    if named_env not in self._named_envs:\n")]),
    dict(name='R04.1 placed task started and kept waiting', rules=('R04.1',), edits=[
        (_B, "                        self.advance(task, rps.AGENT_EXECUTING_PENDING,\n                                     publish=True, push=True, fwd=True)\n\n                    else:\n                        to_wait.append(task)\n", "                        self.advance(task, rps.AGENT_EXECUTING_PENDING,\n                                     publish=True, push=True, fwd=True)\n\n                    to_wait.append(task)\n")]),
    dict(name='R04.1 allocation error swallowed', rules=('R04.1',), edits=[
        (_B, "                except Exception as e:\n                    self._fail_task(task, e, '\\n'.join(ru.get_exception_trace()))\n\n\n            # all tasks which could not", "                except Exception as e:\n                    self._log.exception('oops')\n\n\n            # all tasks which could not")]),
    dict(name='R04.1 pre-placed task started without leaving the loop body', rules=('R04.1',), edits=[
        (_B, "                    self.advance(task, rps.AGENT_EXECUTING_PENDING,\n                                 publish=True, push=True, fwd=True)\n                    continue\n", "                    self.advance(task, rps.AGENT_EXECUTING_PENDING,\n                                 publish=True, push=True, fwd=True)\n")]),
    dict(name='R04.1 canceled task stays in the wait pool', rules=('R04.1',), edits=[
        (_B, "                if self.is_canceled(task) is True:\n                    del self._waitpool[priority][uid]\n", "                if self.is_canceled(task) is True:\n                    pass\n")]),
    dict(name='R04.1 cancel check polarity flipped', rules=('R04.1',), edits=[
        (_B, "                if self.is_canceled(task) is True:\n                    del self._waitpool[priority][uid]\n", "                if self.is_canceled(task) is False:\n                    del self._waitpool[priority][uid]\n")]),
    dict(name='R04.1 waiting tasks never enter the pool', rules=('R04.1',), edits=[
        (_B, "                uid = task['uid']\n                self._waitpool[priority][uid] = task\n", "                uid = task['uid']\n")]),
    dict(name='R04.1 pool task with unknown env dropped', rules=('R04.1',), edits=[
        (_B, "                        to_test.append(task)\n                    else:\n                        to_wait.append(task)\n                else:", "                        to_test.append(task)\n                else:")]),
    dict(name='R04.1 bisect failures ignored', rules=('R04.1',), edits=[
        (_B, "                self._fail_task(task, RuntimeError('bisect failed'), error)\n", "")]),
    dict(name='R04.1 new pool forgets tasks set aside', rules=('R04.1',), edits=[
        (_B, "                                            for task in (unscheduled + to_wait)}", "                                            for task in unscheduled}")]),
    dict(name='R04.1 new pool keeps started tasks', rules=('R04.1',), edits=[
        (_B, "                                            for task in (unscheduled + to_wait)}", "                                            for task in (scheduled + unscheduled + to_wait)}")]),
    dict(name='R04.1 placed pool tasks not pushed', rules=('R04.1',), edits=[
        (_B, "            self.advance(scheduled, rps.AGENT_EXECUTING_PENDING, publish=True,\n                                                                 push=True)", "            self.advance(scheduled, rps.AGENT_EXECUTING_PENDING, publish=True,\n                                                                 push=False)")]),
    dict(name='R04.1 placed pool tasks started only when all fit', rules=('R04.1',), edits=[
        (_B, "            self.advance(scheduled, rps.AGENT_EXECUTING_PENDING, publish=True,\n                                                                 push=True)", "            if not unscheduled:\n                self.advance(scheduled, rps.AGENT_EXECUTING_PENDING, publish=True,\n                                                                 push=True)")]),
    dict(name='R04.2 never-schedulable raised whenever placement fails', rules=('R04.2',), edits=[
        (_B, "                if self._active_cnt == 0:\n                    raise RuntimeError('task can never be scheduled')", "                if self._active_cnt >= 0:\n                    raise RuntimeError('task can never be scheduled')")]),
    dict(name='R04.2 test polarity flipped', rules=('R04.2',), edits=[
        (_B, "                if self._active_cnt == 0:", "                if self._active_cnt != 0:")]),
    dict(name='R04.2 never-schedulable tasks wait forever', rules=('R04.2',), edits=[
        (_B, "                if self._active_cnt == 0:\n                    raise RuntimeError('task can never be scheduled')\n\n", "")]),
    dict(name='R04.2 failed placement always raises', rules=('R04.2',), edits=[
        (_B, "                if self._active_cnt == 0:\n                    raise RuntimeError('task can never be scheduled')\n\n                return False\n", "                raise RuntimeError('task can never be scheduled')\n")]),
    dict(name='R04.3 wait pool in ascending priority', rules=('R04.3',), edits=[
        (_B, "        for priority in sorted(self._waitpool.keys(), reverse=True):", "        for priority in sorted(self._waitpool.keys()):")]),
    dict(name='R04.3 incoming in insertion order', rules=('R04.3',), edits=[
        (_B, "        for priority in sorted(to_schedule.keys(), reverse=True):", "        for priority in to_schedule:")]),
    dict(name='R04.4 wake-up uses the activity flag', rules=('R04.4', 'R04.6'), edits=[
        (_B, "            if not resources and r:\n                resources = True", "            if not resources and a and not r:\n                resources = True")]),
    dict(name='R04.4 wake-up removed', rules=('R04.4', 'R04.6'), edits=[
        (_B, "            if not resources and r:\n                resources = True\n", "")]),
    dict(name='R04.4 release not reported', rules=('R04.4',), edits=[
        (_B, "        # we have new resources, and were active\n        return True, True", "        # we have new resources, and were active\n        return None, True")]),
    dict(name='R04.5 canceled waiting task not removed', rules=('R04.5',), edits=[
        (_B, "                                to_cancel.append(task)\n                                del self._waitpool[priority][uid]\n", "                                to_cancel.append(task)\n")]),
    dict(name='R04.5 waiting task removed without report', rules=('R04.5',), edits=[
        (_B, "                                to_cancel.append(task)\n                                del self._waitpool[priority][uid]\n", "                                del self._waitpool[priority][uid]\n")],
         note='no collection left: UNRECOGNISED or violation both acceptable'),
    dict(name='R04.5 CANCELED hand-on not published', rules=('R04.5',), edits=[
        (_B, "                    self.advance(to_cancel, rps.CANCELED,\n                                                       push=False, publish=True)", "                    self.advance(to_cancel, rps.CANCELED,\n                                                       push=False, publish=False)")]),
    dict(name='R03.3 grant not counted (R04.2 rests on it)', rules=('R03.3',), edits=[
        (_B, "            self._active_cnt += 1\n\n            # the task was placed", "            # the task was placed")]),
    dict(name='R04.1 wait list shared by all priorities (seed C04-a)', rules=('R04.1',), edits=[
        (_B, "            tasks   = to_schedule[priority]\n            to_wait = list()\n", "            tasks   = to_schedule[priority]\n"),
        (_B, "        for priority in sorted(to_schedule.keys(), reverse=True):\n", "        to_wait = list()\n        for priority in sorted(to_schedule.keys(), reverse=True):\n")]),
    dict(name='R04.1 new pool filled by a loop over the unscheduled tasks only', rules=('R04.1',), edits=[
        (_B, _NEWPOOL, "            new_pool = dict()\n            for task in unscheduled:\n                new_pool[task['uid']] = task\n            self._waitpool[priority] = new_pool\n")]),
    dict(name='R04.1 new pool filled by loops which include the started tasks', rules=('R04.1',), edits=[
        (_B, _NEWPOOL, "            new_pool = dict()\n            for tasks in (scheduled, unscheduled, to_wait):\n                for task in tasks:\n                    new_pool[task['uid']] = task\n            self._waitpool[priority] = new_pool\n")]),
    dict(name='R04.6 ran-out evaluated after the release was noted (seed C04-c)', rules=('R04.6',), edits=[
        (_B, _RANOUT, ""),
        (_B, _WAKE, _WAKE + "\n" + _RANOUT)]),
    dict(name='R04.6 ran-out evaluated at the end of the iteration, without the flag guard', rules=('R04.6',), edits=[
        (_B, _RANOUT, ""),
        (_B, "            if not active:\n                time.sleep(0.1)  # FIXME: configurable\n", "            if not active:\n                time.sleep(0.1)  # FIXME: configurable\n\n            if r_wait is False and r_inc is False:\n                resources = False\n")]),
    dict(name='R04.6 flag as one expression in which ran-out wins over the release', rules=('R04.6',), edits=[
        (_B, _RANOUT, ""),
        (_B, _WAKE, "            resources = bool(resources or r) and not (r_wait is False and r_inc is False)\n")]),
    dict(name='R04.6 release result overwritten by a second intake before it is looked at', rules=('R04.6',), edits=[
        (_B, "            r, a = self._unschedule_completed()\n", "            r, a = self._unschedule_completed()\n            active += int(a)\n            r, a = self._schedule_incoming()\n")]),
    dict(name='R04.6 release noted only when an incoming task had to wait', rules=('R04.6',), edits=[
        (_B, _WAKE, "            if not resources and r and r_inc is False:\n                resources = True\n")]),
    # --- cancel branch in other shapes (R04.5 follows values, not spellings)
    dict(name='R04.5 pop form: task collected by lookup, not taken out of the pool', rules=('R04.5',), edits=[
        (_B, _CLOOP, _CLOOP_POP.replace('pool.pop(uid)', 'pool[uid]'))]),
    dict(name='R04.5 pop form: task popped and not collected', rules=('R04.5',), edits=[
        (_B, _CLOOP, _CLOOP_POP.replace('to_cancel.append(pool.pop(uid))', 'pool.pop(uid)'))]),
    dict(name='R04.5 deletes another entry than the one collected', rules=('R04.5',), edits=[
        (_B, "                                del self._waitpool[priority][uid]\n                                break\n", "                                del self._waitpool[priority][priority]\n                                break\n")]),
    dict(name='R04.5 pool entry keyed by the priority, not by the requested uid', rules=('R04.5',), edits=[
        (_B, _CLOOP, _CLOOP.replace('.get(uid)', '.get(priority)').replace('[priority][uid]', '[priority][priority]'))]),
    dict(name='R04.5 CANCELED hand-on before the collection', rules=('R04.5',), edits=[
        (_B, "                    to_cancel = list()\n                    for uid in data:\n", "                    to_cancel = list()\n                    self.advance(to_cancel, rps.CANCELED,\n                                                       push=False, publish=True)\n                    for uid in data:\n"),
        (_B, "                                break\n\n                    self.advance(to_cancel, rps.CANCELED,\n                                                       push=False, publish=True)\n", "                                break\n")]),
    dict(name='R04.5 helper form (as in C08-r7): result of the pulling helper is not collected', rules=('R04.5',), edits=[
        (_B, _FAILDEF, _PULL + _FAILDEF),
        (_B, "                    to_cancel = list()\n" + _CLOOP, "                    to_cancel = list()\n                    for uid in data:\n                        self._pull_waiting(uid)\n")]),
    dict(name='R04.5 helper form: the helper returns the task without taking it out', rules=('R04.5',), edits=[
        (_B, _FAILDEF, _PULL.replace('pool.pop(uid)', 'pool[uid]') + _FAILDEF),
        (_B, "                    to_cancel = list()\n" + _CLOOP, _COMPS)]),
    # --- wait pool triage in comprehension form (as in C04-r8)
    dict(name='R04.1 triage by comprehensions: both lists take the ready tasks', rules=('R04.1',), edits=[
        (_B, _TRIAGE, _TRIAGE_COMP.replace('if not ready[uid]]', 'if ready[uid]]'))]),
    dict(name='R04.1 triage by comprehensions: kept list is not filtered', rules=('R04.1',), edits=[
        (_B, _TRIAGE, _TRIAGE_COMP.replace(' if not ready[uid]]', ']'))]),
    dict(name='R04.1 triage by two loops: tasks with an unknown env are dropped', rules=('R04.1',), edits=[
        (_B, _TRIAGE, _TRIAGE_2LOOPS.replace("                if ne and ne not in self._named_envs:\n                    to_wait.append(task)\n", "                if ne and ne not in self._named_envs and False:\n                    to_wait.append(task)\n"))],
         note='`and False` keeps the append so that the list is still recognised; the condition can never hold'),
    # --- R04.7
    dict(name='R04.7 is_canceled tests the wrong key before the CANCELED hand-on (seed C04-g5)', rules=('R04.7',), edits=[
        (_U, "            if 'state' in task:\n", "            if 'target_state' in task:\n")]),
    dict(name='R04.7 is_canceled hands on only tasks without a state', rules=('R04.7',), edits=[
        (_U, "            if 'state' in task:\n", "            if 'state' not in task:\n")]),
    dict(name='R04.7 is_canceled answers True without any hand-on', rules=('R04.7',), edits=[
        (_U, "            if 'state' in task:\n                self.advance(task, rps.CANCELED, publish=True, push=False)\n", "")]),
    dict(name='R04.7 is_canceled hands on via task.get of a key advance does not guarantee', rules=('R04.7',), edits=[
        (_U, "            if 'state' in task:\n", "            if task.get('target_state') is not None:\n")]),
    dict(name='R04.7 is_canceled hands every task on as CANCELED before it looks at the list', rules=('R04.7',), edits=[
        (_U, "            if tid not in self._cancel_list:\n                return False\n\n            if 'state' in task:\n                self.advance(task, rps.CANCELED, publish=True, push=False)\n", "            if 'state' in task:\n                self.advance(task, rps.CANCELED, publish=True, push=False)\n\n            if tid not in self._cancel_list:\n                return False\n")]),
    # --- R04.8
    dict(name='R04.8 exact single-node fit refused (seed C04-g6)', rules=('R04.8',), edits=[
        (_C, "        if not mpi and req_slots > slots_per_node:\n", "        if not mpi and req_slots >= slots_per_node:\n")]),
    dict(name='R04.8 exact single-node fit refused in the jsrun scheduler', rules=('R04.8',), edits=[
        (_J, "        if not mpi and req_slots > slots_per_node:\n", "        if not mpi and not req_slots < slots_per_node:\n")]),
    dict(name='R04.8 a rank that needs all cores of a node is refused by the assert', rules=('R04.8',), edits=[
        (_C, "        assert cores_per_slot <= cores_per_node, \\\n", "        assert cores_per_slot < cores_per_node, \\\n")]),
    dict(name='R04.8 hoisted fit test with the boundary moved', rules=('R04.8',), edits=[
        (_C, "        if not mpi and req_slots > slots_per_node:\n", "        too_big = slots_per_node <= req_slots\n        if not mpi and too_big:\n")]),
    dict(name='R04.9 default of the exclusive tag is True (seed C04-h6)', rules=('R04.9',), edits=[
        (_C, _EXCL, _EXCL.replace('False', 'True'))]),
    dict(name='R04.9 jsrun: default of the exclusive tag is True', rules=('R04.9',), edits=[
        (_J, _EXCL, _EXCL.replace('False', 'True'))]),
    dict(name='R04.9 missing exclusive tag falls back to True through `or`', rules=('R04.9',), edits=[
        (_C, _EXCL, "                    is_exclusive = td['tags'].get('exclusive') or True\n")]),
    dict(name='R04.9 tag renamed to its opposite (shared), default and test not adapted together', rules=('R04.9',), edits=[
        (_J, _EXCL + _EXCL_IF, "                    shared = td['tags'].get('shared', False)\n                    if not shared and node_index in self._tagged_nodes:\n")]),
    dict(name='R04.9 exclusive read with a non-empty string default', rules=('R04.9',), edits=[
        (_C, _EXCL, "                    is_exclusive = td['tags'].get('exclusive', 'no')\n")]),
    dict(name='R04.1 resources of the placed tasks through a helper (seed C04-r9 shape); new pool built from the placed tasks', rules=('R04.1',), edits=[
        (_B, _RES_OLD, _RES_NEW), (_B, _FAILDEF, _RES_DEF + _FAILDEF),
        (_B, _NEWPOOL, _NEWPOOL.replace('(unscheduled + to_wait)', '(scheduled + to_wait)'))]),
    # --- R04.7: the answer after the hand-on
    dict(name='R04.7 is_canceled hands the task on and falls off the end: answers None (seed C04-i3)', rules=('R04.7',), edits=[
        (_U, "            self._cancel_list.remove(tid)\n\n            return True\n", "            self._cancel_list.remove(tid)\n")]),
    dict(name='R04.7 is_canceled hands the task on and answers False', rules=('R04.7',), edits=[
        (_U, "            self._cancel_list.remove(tid)\n\n            return True\n", "            self._cancel_list.remove(tid)\n\n            return False\n")]),
    dict(name='R04.7 is_canceled with a result local which is never set to True', rules=('R04.7',), edits=[
        (_U, _ISC_OLD, _ISC_RES.replace("                res = True\n", ""))]),
    # --- R04.10
    dict(name='R04.10 fast path: node with fewer free cores than all n_slots need is refused, partial ignored (seed C04-i5)', rules=('R04.10',), edits=_fr_pre(
        "        # fast path: skip the search on nodes which are too busy\n        if node['cores'].count(rpc.FREE) < n_slots * cores_per_slot:\n            return None\n")),
    dict(name='R04.10 fast path with hoisted operands, returns the empty list', rules=('R04.10',), edits=_fr_pre(
        "        free = sum(1 for c in node['cores'] if c == rpc.FREE)\n        need = n_slots * cores_per_slot\n        too_busy = free < need\n        if too_busy:\n            return []\n")),
    dict(name='R04.10 the same fast path for memory', rules=('R04.10',), edits=_fr_pre(
        "        if mem_per_slot and node['mem'] < n_slots * mem_per_slot:\n            return None\n")),
    dict(name='R04.10 node refused when lfs / mem cap the slots below n_slots', rules=('R04.10',), edits=_fr_pre(
        "        if max_slots < n_slots:\n            return None\n")),
    dict(name='R04.10 fast path applied to partial searches only (polarity)', rules=('R04.10',), edits=_fr_pre(
        "        if partial and node['cores'].count(rpc.FREE) < n_slots * cores_per_slot:\n            return None\n")),
    dict(name='R04.10 jsrun: the enough-for-all test no longer under `not partial`', rules=('R04.10',), edits=[
        (_J, _FR_JNP, "        if alc_slots < n_slots:\n            return None\n")]),
    # round 7: R04.11, R04.12
    dict(name='R04.11 pre-placed task counted inside the try, before the slot change that may raise (seed C04-j2)', rules=('R04.11',), edits=[
        (_B, _PRE, "                    try:\n                        self._active_cnt += 1\n                        self._change_slot_states(task['slots'], rpc.BUSY)\n                    except Exception as e:\n" + _PRE_FAIL + "\n" + _PRE_START)]),
    dict(name='R04.11 pre-placed task counted before the try', rules=('R04.11',), edits=[
        (_B, _PRE, "                    self._active_cnt += 1\n                    try:\n                        self._change_slot_states(task['slots'], rpc.BUSY)\n                    except Exception as e:\n" + _PRE_FAIL + "\n" + _PRE_START)]),
    dict(name='R04.11 count and start both inside the try, count first; the handler fails the task', rules=('R04.11',), edits=[
        (_B, _PRE, "                    try:\n                        self._active_cnt += 1\n                        self._change_slot_states(task['slots'], rpc.BUSY)\n                        self.advance(task, rps.AGENT_EXECUTING_PENDING,\n                                     publish=True, push=True, fwd=True)\n                    except Exception as e:\n" + _PRE_FAIL + "                    continue\n")]),
    dict(name='R04.12 cancel filter assigns another name than the worker gets (seed C04-j3)', rules=('R04.12',), edits=[
        (_U, _WFOR, "            for state,bucket in buckets.items():\n"),
        (_U, _WFILT, "                    if self._cancel_list:\n                        bucket = [x for x in bucket\n                                    if not self.is_canceled(x)]\n")]),
    dict(name='R04.12 filtered list kept in a new local, worker gets the bucket', rules=('R04.12',), edits=[
        (_U, _WFILT, "                    if self._cancel_list:\n                        active = [x for x in things\n                                    if not self.is_canceled(x)]\n")]),
    dict(name='R04.12 canceled things collected by a loop into a list nobody passes on', rules=('R04.12',), edits=[
        (_U, _WFILT, "                    keep = list()\n                    for x in things:\n                        if not self.is_canceled(x):\n                            keep.append(x)\n")]),
    dict(name='R04.12 filter result overwritten by the bucket before the worker call', rules=('R04.12',), edits=[
        (_U, _WFILT + "\n", "                    bucket = things\n" + _WFILT + "                    things = bucket\n\n")]),
]

SILENT = [
    dict(name='never-schedulable test as `not self._active_cnt`', edits=[
        (_B, "                if self._active_cnt == 0:", "                if not self._active_cnt:")]),
    dict(name='invalid ranks handled with elif chain', edits=[
        (_B, "                        self._fail_task(task, ValueError('invalid ranks'), '')\n                        continue\n\n                    # check if this task", "                        self._fail_task(task, ValueError('invalid ranks'), '')\n                        continue\n                    else:\n                        pass\n\n                    # check if this task")]),
    dict(name='priority order via reversed(sorted())', edits=[
        (_B, "        for priority in sorted(self._waitpool.keys(), reverse=True):", "        for priority in reversed(sorted(self._waitpool.keys())):")]),
    dict(name='cancel check without `is True`', edits=[
        (_B, "                if self.is_canceled(task) is True:", "                if self.is_canceled(task):")]),
    dict(name='wake-up as boolean expression', edits=[
        (_B, "            if not resources and r:\n                resources = True", "            resources = bool(resources or r)")]),
    dict(name='placement result tested into a local first', edits=[
        (_B, "                    if self._try_allocation(task):\n                        # task got scheduled", "                    placed = self._try_allocation(task)\n                    if placed:\n                        # task got scheduled")]),
    dict(name='delete before collect in cancel branch', edits=[
        (_B, "                                to_cancel.append(task)\n                                del self._waitpool[priority][uid]\n", "                                del self._waitpool[priority][uid]\n                                to_cancel.append(task)\n")]),
    dict(name='new pool filled by two explicit loops (as in C04-r5)', edits=[
        (_B, _NEWPOOL, "            new_pool = dict()\n            for task in unscheduled:\n                new_pool[task['uid']] = task\n            for task in to_wait:\n                new_pool[task['uid']] = task\n            self._waitpool[priority] = new_pool\n")]),
    dict(name='new pool filled with update() of two comprehensions', edits=[
        (_B, _NEWPOOL, "            new_pool = {t['uid']: t for t in unscheduled}\n            new_pool.update({t['uid']: t for t in to_wait})\n            self._waitpool[priority] = new_pool\n")]),
    dict(name='release result in a renamed local', edits=[
        (_B, "            r, a = self._unschedule_completed()\n            if not resources and r:\n                resources = True\n            active += int(a)\n            self._log.debug_3('schedule tasks c: %s %s', r, a)\n", "            freed, a = self._unschedule_completed()\n            if not resources and freed:\n                resources = True\n            active += int(a)\n            self._log.debug_3('schedule tasks c: %s %s', freed, a)\n")]),
    dict(name='ran-out evaluated after the reclaim, but only when nothing was released', edits=[
        (_B, _RANOUT, ""),
        (_B, _WAKE, _WAKE + "            if resources and not r and (r_wait is False and r_inc is False):\n                resources = False\n")]),
    dict(name='ran-out test hoisted into a local', edits=[
        (_B, _RANOUT, "            ran_out = r_wait is False and r_inc is False\n            if resources and ran_out:\n                resources = False\n")]),
    dict(name='ran-out computed before and applied after the reclaim unless released', edits=[
        (_B, _RANOUT, "            ran_out = resources and r_wait is False and r_inc is False\n"),
        (_B, _WAKE, "            if r:\n                resources = True\n            elif ran_out:\n                resources = False\n")]),
    dict(name='flag update as if/elif after the reclaim', edits=[
        (_B, _RANOUT, ""),
        (_B, _WAKE, "            if r:\n                resources = True\n            elif r_wait is False and r_inc is False:\n                resources = False\n")]),
    dict(name='flag update as one expression after the reclaim', edits=[
        (_B, _RANOUT, ""),
        (_B, _WAKE, "            resources = bool(r) or (resources and not (r_wait is False and r_inc is False))\n")]),
    dict(name='ran-out decision in an extracted helper', edits=[
        (_B, _RANOUT, "            resources = self._still_useful(resources, r_wait, r_inc)\n"),
        (_B, "    def _prof_sched_skip(self, task):\n", "    def _still_useful(self, resources, r_wait, r_inc):\n\n        if resources and (r_wait is False and r_inc is False):\n            return False\n        return resources\n\n\n    def _prof_sched_skip(self, task):\n")]),
    dict(name='wake-up with a redundant test of the pool pass result', edits=[
        (_B, _WAKE, "            if not resources and r and r_wait is False:\n                resources = True\n")],
         note='when the flag is false the pass either did not run (r_wait = False) or returned False'),
    dict(name='guard of the pass through a derived local', edits=[
        (_B, "            if resources:\n                r_wait, a = self._schedule_waitpool()\n", "            do_pass = bool(resources)\n            if do_pass is True:\n                r_wait, a = self._schedule_waitpool()\n")]),
    dict(name='flag held as 1 / 0', edits=[
        (_B, _RANOUT, "            if resources and (r_wait is False and r_inc is False):\n                resources = 0\n"),
        (_B, _WAKE, "            if not resources and r:\n                resources = 1\n")]),
    dict(name='bookkeeping of the reclaim step before the wake-up', edits=[
        (_B, "            if not resources and r:\n                resources = True\n            active += int(a)\n            self._log.debug_3('schedule tasks c: %s %s', r, a)\n", "            active += int(a)\n            self._log.debug_3('schedule tasks c: %s %s', r, a)\n            if not resources and r:\n                resources = True\n")]),
    dict(name='scheduling loop as while True with break on termination', edits=[
        (_B, "        while not self._term.is_set():\n\n            self._log.debug_3('schedule tasks 0", "        while True:\n\n            if self._term.is_set():\n                break\n\n            self._log.debug_3('schedule tasks 0")]),
    dict(name='wait pool pass in the else branch of a negated guard', edits=[
        (_B, "            if resources:\n                r_wait, a = self._schedule_waitpool()\n                active += int(a)\n                self._log.debug_3('schedule tasks w: %s %s', r_wait, a)\n", "            if not resources:\n                self._log.debug_3('schedule tasks w: skipped')\n            else:\n                r_wait, a = self._schedule_waitpool()\n                active += int(a)\n                self._log.debug_3('schedule tasks w: %s %s', r_wait, a)\n")]),
    # --- cancel branch in other shapes
    dict(name='cancel branch with membership test and pop (as in C04-r7)', edits=[
        (_B, _CLOOP, _CLOOP_POP)]),
    dict(name='cancel branch: pop with default into a local, collected if found', edits=[
        (_B, _CLOOP, "                    for uid in data:\n                        for pool in self._waitpool.values():\n                            found = pool.pop(uid, None)\n                            if found is not None:\n                                to_cancel.append(found)\n                                break\n")]),
    dict(name='cancel branch as comprehensions over a helper that pops (as in C08-r7)', edits=[
        (_B, _FAILDEF, _PULL + _FAILDEF),
        (_B, "                    to_cancel = list()\n" + _CLOOP, _COMPS)]),
    dict(name='cancel branch: helper looks up, deletes and returns the task (as in C08-r2)', edits=[
        (_B, _FAILDEF, "    def _pop_waiting_task(self, uid):\n\n        for pool in self._waitpool.values():\n            task = pool.get(uid)\n            if task:\n                del pool[uid]\n                return task\n\n        return None\n\n\n" + _FAILDEF),
        (_B, _CLOOP, "                    for uid in data:\n                        task = self._pop_waiting_task(uid)\n                        if task:\n                            to_cancel.append(task)\n")]),
    dict(name='cancel branch extracted into a helper, guard in early-continue form (as in C08-r5)', edits=[
        (_B, _FAILDEF, "    def _cancel_waiting(self, uids):\n\n        to_cancel = list()\n\n        for uid in uids:\n\n            for pool in self._waitpool.values():\n\n                task = pool.get(uid)\n                if not task:\n                    continue\n\n                to_cancel.append(task)\n                del pool[uid]\n                break\n\n        self.advance(to_cancel, rps.CANCELED, push=False, publish=True)\n\n\n" + _FAILDEF),
        (_B, "                    to_cancel = list()\n" + _CLOOP + "\n                    self.advance(to_cancel, rps.CANCELED,\n                                                       push=False, publish=True)\n", "                    self._cancel_waiting(data)\n")]),
    dict(name='cancel branch: pool aliased for the lookup, spelled out for the delete', edits=[
        (_B, _CLOOP, "                    for uid in data:\n                        for priority in self._waitpool:\n                            pool = self._waitpool[priority]\n                            task = pool.get(uid)\n                            if task:\n                                del self._waitpool[priority][uid]\n                                to_cancel.append(task)\n                                break\n")]),
    dict(name='CANCELED hand-on only for a non-empty list', edits=[
        (_B, "                    self.advance(to_cancel, rps.CANCELED,\n                                                       push=False, publish=True)\n", "                    if to_cancel:\n                        self.advance(to_cancel, rps.CANCELED,\n                                                       push=False, publish=True)\n")]),
    # --- wait pool triage in other shapes
    dict(name='triage by comprehensions over a precomputed ready map (as in C04-r8)', edits=[
        (_B, _TRIAGE, _TRIAGE_COMP)]),
    dict(name='triage by two loops with complementary tests', edits=[
        (_B, _TRIAGE, _TRIAGE_2LOOPS)]),
    dict(name='triage by two comprehensions with the test spelled out', edits=[
        (_B, _TRIAGE, _TRIAGE_INLINE)]),
    dict(name='wait pool cached in a local, rebuilt through the local', edits=[
        (_B, "        for priority in sorted(self._waitpool.keys(), reverse=True):\n\n            to_wait   = list()\n            to_test   = list()\n\n            pool = self._waitpool[priority]\n", "        waitpool = self._waitpool\n        for priority in sorted(waitpool, reverse=True):\n\n            to_wait   = list()\n            to_test   = list()\n\n            pool = waitpool[priority]\n"),
        (_B, "            self._waitpool[priority] = {task['uid']: task\n", "            waitpool[priority] = {task['uid']: task\n")]),
    # --- is_canceled in other shapes (R04.7)
    dict(name='is_canceled with a single exit (as in C08-r6)', edits=[
        (_U, "            tid = task['uid']\n\n            if tid not in self._cancel_list:\n                return False\n\n            if 'state' in task:\n                self.advance(task, rps.CANCELED, publish=True, push=False)\n\n            # remove from cancel list\n            self._cancel_list.remove(tid)\n\n            return True\n", "            tid    = task['uid']\n            listed = tid in self._cancel_list\n\n            if listed:\n\n                if 'state' in task:\n                    self.advance(task, rps.CANCELED, publish=True, push=False)\n\n                self._cancel_list.remove(tid)\n\n            return listed\n")]),
    dict(name='is_canceled: state test hoisted into a local', edits=[
        (_U, "            if 'state' in task:\n", "            stateful = 'state' in task\n            if stateful:\n")]),
    dict(name='is_canceled: state test via task.get', edits=[
        (_U, "            if 'state' in task:\n", "            if task.get('state') is not None:\n")]),
    dict(name='is_canceled: stateless things skipped in the if branch', edits=[
        (_U, "            if 'state' in task:\n                self.advance(task, rps.CANCELED, publish=True, push=False)\n", "            if 'state' not in task:\n                pass\n            else:\n                self.advance(task, rps.CANCELED, publish=True, push=False)\n")]),
    # --- fit tests in other spellings (R04.8)
    dict(name='single-node fit test with the operands exchanged', edits=[
        (_C, "        if not mpi and req_slots > slots_per_node:\n", "        if not mpi and slots_per_node < req_slots:\n")]),
    dict(name='single-node fit test as negated <=', edits=[
        (_C, "        if not mpi and req_slots > slots_per_node:\n", "        if not mpi and not req_slots <= slots_per_node:\n")]),
    dict(name='single-node fit test hoisted into a local', edits=[
        (_C, "        if not mpi and req_slots > slots_per_node:\n", "        too_big = req_slots > slots_per_node\n        if not mpi and too_big:\n")]),
    dict(name='per-slot assert as if/raise', edits=[
        (_C, "        assert cores_per_slot <= cores_per_node, \\\n               'too many threads per proc %s' % cores_per_slot\n", "        if cores_per_slot > cores_per_node:\n            raise AssertionError('too many threads per proc %s' % cores_per_slot)\n")]),
    dict(name='exclusive tag read without an explicit default (None is falsy)', edits=[
        (_C, _EXCL, "                    is_exclusive = td['tags'].get('exclusive')\n")]),
    dict(name='tags hoisted into a local, exclusive converted with bool()', edits=[
        (_J, _EXCL, "                    tags = td['tags']\n                    is_exclusive = bool(tags.get('exclusive', False))\n")]),
    dict(name='exclusive guard in De Morgan / pass-else form', edits=[
        (_C, _EXCL_IF + "                        if len(self.nodes) > len(self._tagged_nodes):\n                            continue\n",
             "                    if not is_exclusive or node_index not in self._tagged_nodes:\n                        pass\n                    elif len(self.nodes) > len(self._tagged_nodes):\n                        continue\n                    else:\n"
             "                        pass\n                    if is_exclusive and node_index in self._tagged_nodes:\n")]),
    dict(name='tags read with td.get and the lookup inlined into the test', edits=[
        (_J, _EXCL + _EXCL_IF, "                    if td.get('tags', {}).get('exclusive', False) and \\\n                            node_index in self._tagged_nodes:\n")]),
    dict(name='tag renamed to its opposite (shared) with default and test adapted', edits=[
        (_C, _EXCL + _EXCL_IF, "                    shared = td['tags'].get('shared', True)\n                    if not shared and node_index in self._tagged_nodes:\n")]),
    dict(name='waitpool pass: resources of the placed tasks computed by a helper from the task itself (seed C04-r9)', edits=[
        (_B, _RES_OLD, _RES_NEW), (_B, _FAILDEF, _RES_DEF + _FAILDEF)]),
    dict(name='waitpool pass: resources of the placed tasks updated in place from the task', edits=[
        (_B, _RES_OLD, "            for task in scheduled:\n"
                       "                task['$set']      = ['resources']\n"
                       "                task['resources'] = dict(cpu=task['description']['ranks'] * task['description']['cores_per_rank'],\n"
                       "                                         gpu=task['description']['ranks'] * task['description']['gpus_per_rank'])\n")]),
    # --- is_canceled with a result local (R04.7)
    dict(name='is_canceled with a result local set after the hand-on', edits=[
        (_U, _ISC_OLD, _ISC_RES)]),
    # --- early exits of _find_resources (R04.10)
    dict(name='fast path for too busy nodes, only when not partial', edits=_fr_pre(
        "        if not partial and node['cores'].count(rpc.FREE) < n_slots * cores_per_slot:\n            return None\n")),
    dict(name='fast path with hoisted operands, strictness tested in a nested if', edits=_fr_pre(
        "        strict = not partial\n        free = node['cores'].count(rpc.FREE)\n        if free < n_slots * cores_per_slot:\n            if strict:\n                return None\n")),
    dict(name='fast path under `partial is False`', edits=_fr_pre(
        "        if partial is False:\n            if node['cores'].count(rpc.FREE) < n_slots * cores_per_slot:\n                return None\n")),
    dict(name='fast path: not even one slot fits the free cores', edits=_fr_pre(
        "        if node['cores'].count(rpc.FREE) < cores_per_slot:\n            return None\n")),
    dict(name='fast path: lfs / mem leave no slot at all', edits=_fr_pre(
        "        if max_slots < 1:\n            return None\n")),
    dict(name='fast path: no slot possible, empty list returned', edits=_fr_pre(
        "        if not max_slots:\n            return []\n")),
    dict(name='sanity check of the request against the size of the node', edits=_fr_pre(
        "        if n_slots * cores_per_slot > len(node['cores']):\n            raise ValueError('request exceeds the node size')\n"),
         note='n_slots <= slots_per_node = cores_per_node // cores_per_slot: never taken'),
    dict(name='jsrun: enough-for-all test and `not partial` in one condition', edits=[
        (_J, _FR_JNP, "        if not partial and alc_slots < n_slots:\n            return None\n")]),
    dict(name='jsrun: enough-for-all test in the else branch of `if partial`', edits=[
        (_J, _FR_JNP, "        if partial:\n            pass\n        elif alc_slots < n_slots:\n            return None\n")]),
    # round 7: R04.11, R04.12
    dict(name='R04.11 slot change in try, count and start in its else clause', edits=[
        (_B, _PRE, "                    try:\n                        self._change_slot_states(task['slots'], rpc.BUSY)\n                    except Exception as e:\n" + _PRE_FAIL + "                    else:\n                        self._active_cnt += 1\n                        self.advance(task, rps.AGENT_EXECUTING_PENDING,\n                                     publish=True, push=True, fwd=True)\n                        continue\n")]),
    dict(name='R04.11 count inside the try after the slot change (last statement of the body)', edits=[
        (_B, _PRE, "                    try:\n                        self._change_slot_states(task['slots'], rpc.BUSY)\n                        self._active_cnt += 1\n                    except Exception as e:\n" + _PRE_FAIL + "\n" + _PRE_START)]),
    dict(name='R04.11 count and start in a helper method', edits=[
        (_B, "                    self._active_cnt += 1\n\n" + _PRE_START, "                    self._start_placed(task)\n                    continue\n"),
        (_B, _FAILDEF, "    def _start_placed(self, task):\n\n        self._active_cnt += 1\n        self.advance(task, rps.AGENT_EXECUTING_PENDING,\n                     publish=True, push=True, fwd=True)\n\n\n" + _FAILDEF)]),
    dict(name='R04.12 loop variable and filter renamed consistently, worker gets the renamed list', edits=[
        (_U, _WFOR, "            for state,bucket in buckets.items():\n"),
        (_U, _WFILT, "                    if self._cancel_list:\n                        bucket = [x for x in bucket\n                                    if not self.is_canceled(x)]\n"),
        (_U, _WCALL, "                    self._workers[state](bucket)\n"),
        (_U, "                        for thing in things:\n                            thing['exception']        = repr(e)", "                        for thing in bucket:\n                            thing['exception']        = repr(e)"),
        (_U, "                        self.advance(things, rps.FAILED, publish=True,\n", "                        self.advance(bucket, rps.FAILED, publish=True,\n")]),
    dict(name='R04.12 filter as a loop which collects the things to keep', edits=[
        (_U, _WFILT, "                    if self._cancel_list:\n                        keep = list()\n                        for x in things:\n                            if not self.is_canceled(x):\n                                keep.append(x)\n                        things = keep\n")]),
    dict(name='R04.12 filter in a helper method', edits=[
        (_U, _WFILT, "                    things = self._drop_canceled(things)\n"),
        (_U, "    def work_cb(self):\n", "    def _drop_canceled(self, things):\n\n        if not self._cancel_list:\n            return things\n        return [x for x in things if not self.is_canceled(x)]\n\n\n    def work_cb(self):\n")]),
    dict(name='R04.12 kept things collected into a new list which the worker gets', edits=[
        (_U, _WFILT, "                    keep = list()\n                    for x in things:\n                        if self.is_canceled(x):\n                            continue\n                        keep.append(x)\n"),
        (_U, _WCALL, "                    self._workers[state](keep)\n"),
        (_U, "                        for thing in things:\n                            thing['exception']        = repr(e)", "                        for thing in keep:\n                            thing['exception']        = repr(e)"),
        (_U, "                        self.advance(things, rps.FAILED, publish=True,\n", "                        self.advance(keep, rps.FAILED, publish=True,\n")]),
]
