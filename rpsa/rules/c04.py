"""C04  The pilot scheduler neither loses nor starves tasks (DESIGN 5 / C04)"""

import ast

from ..model import (walk, dotted, call_name, kwarg, unparse, short, UNKNOWN,
                     root_name, AnalysisError, calls_in, stores_in_target)
from ..cfg import cfg_of
from ..flow import Deps, guards, must_pass, must_pass_feasible, loop_slice
from .. import idioms as I
from ..outcomes import check_one_outcome, Effects
from .c01 import sched_classes, consts, grant_paths, BASE, _ancestors


def _loops_over(g, pred):
    return [n for n in g.nodes if n.kind == 'for' and pred(n.ast)]


def _iter_names(it):
    return {x.id for x in walk(it) if isinstance(x, ast.Name)}


# ------------------------------------------------------------------------------
# R04.1  one outcome per task per stage
#
def r04_1(prog, rep, rid='R04.1'):
    rep.rule(rid, 'every task handled by a stage of the scheduling loop gets '
             'exactly one outcome (handed on / failed / canceled xor kept in '
             'a pool or work list)', minimum=7)
    f = prog.method(BASE[0], BASE[1], '_schedule_incoming')
    rep.saw(f)
    g = cfg_of(f)
    rep.stat('cfg_nodes', len(g.nodes))
    # stage 1: for task in <data>  (the bulk taken from the queue)
    qvars = set()
    for n in walk(f.node):
        if isinstance(n, ast.Assign) and isinstance(n.value, ast.Call) and \
                isinstance(n.value.func, ast.Attribute) and \
                n.value.func.attr == 'get' and \
                '_queue_sched' in unparse(n.value.func.value):
            qvars |= set(stores_in_target(n.targets[0]))
    s1 = _loops_over(g, lambda a: isinstance(a.iter, ast.Name) and
                     a.iter.id in qvars and isinstance(a.target, ast.Name) and
                     any(I.is_handon(c) or call_name(c) == 'self._fail_task'
                         or (isinstance(c.func, ast.Attribute) and
                             c.func.attr == 'append')
                         for c in calls_in(a)) and
                     "['description']" in unparse(a))
    if len(s1) != 1:
        raise AnalysisError('UNRECOGNISED-IDIOM %s: intake loop over the '
                            'queued bulk not found (%d candidates)'
                            % (f.where, len(s1)))
    check_one_outcome(rep, rid, f, g, s1[0].id, s1[0].ast.target.id,
                      'intake of incoming tasks',
                      'a task with ranks <= 0 arrives: it is reported FAILED '
                      'and is scheduled and started as well')
    # stage 2: the loop that calls _try_allocation on its loop variable
    s2 = _loops_over(g, lambda a: isinstance(a.target, ast.Name) and any(
        call_name(c) == 'self._try_allocation' and c.args and
        isinstance(c.args[0], ast.Name) and c.args[0].id == a.target.id
        for c in calls_in(a)))
    if len(s2) != 1:
        raise AnalysisError('UNRECOGNISED-IDIOM %s: placement loop not found'
                            % f.where)
    check_one_outcome(rep, rid, f, g, s2[0].id, s2[0].ast.target.id,
                      'placement of incoming tasks',
                      'a task is both started and kept waiting (started '
                      'twice later), or neither (lost)')
    # stage 3: tasks which have to wait enter the pool; they leave it again
    # only together with a CANCELED hand-on
    wl = None
    for c in calls_in(s2[0].ast):
        if isinstance(c.func, ast.Attribute) and c.func.attr == 'append' and \
                c.args and isinstance(c.args[0], ast.Name) and \
                c.args[0].id == s2[0].ast.target.id and \
                isinstance(c.func.value, ast.Name):
            wl = c.func.value.id
    if wl is None:
        raise AnalysisError('UNRECOGNISED-IDIOM %s: wait list of the placement '
                            'loop not found' % f.where)
    s3 = _loops_over(g, lambda a: isinstance(a.iter, ast.Name) and
                     a.iter.id == wl and isinstance(a.target, ast.Name))
    if len(s3) != 1:
        raise AnalysisError('UNRECOGNISED-IDIOM %s: loop over the wait list %s '
                            'not found' % (f.where, wl))
    # the wait list is filled and drained once per iteration of the enclosing
    # (priority) loop: it must be created inside that iteration, else tasks of
    # an earlier iteration are drained (inserted into a pool) again
    if s3[0].loops:
        L = s3[0].loops[-1]
        lstart = loop_slice(g, L)[0]
        creators = [n.id for n in g.stmt_nodes() if n.kind == 'stmt' and
                    isinstance(n.ast, ast.Assign) and any(
                        isinstance(t, ast.Name) and t.id == wl
                        for t in n.ast.targets) and L in n.loops]
        clears = [n.id for n in g.stmt_nodes() if n.kind == 'stmt' and
                  L in n.loops and any(
                      isinstance(c.func, ast.Attribute) and
                      c.func.attr == 'clear' and unparse(c.func.value) == wl
                      for c in calls_in(n.ast))]
        fresh = bool(creators + clears) and \
            must_pass(g, lstart, s2[0].id, creators + clears)
        rep.check(fresh, rid, f, 'the wait list `%s` is created anew in every '
                  'iteration of the loop that fills and drains it' % wl,
                  construct='waitlist:fresh', message='the wait list `%s` is '
                  'filled and drained inside the priority loop but created '
                  'outside of it: tasks which had to wait at a higher '
                  'priority are inserted again into the wait pool of every '
                  'lower priority handled in the same call' % wl,
                  loc=f.loc(s3[0].ast),
                  history='one bulk with tasks H (priority 1) and L '
                  '(priority 0) which both have to wait: H sits in '
                  '_waitpool[1] and _waitpool[0] and is started twice')
    okp = s3[0].loops == s2[0].loops and \
        s3[0].id in g.reachable(s2[0].id, labels={'done', 'next', 'T', 'F'})
    check_one_outcome(rep, rid, f, g, s3[0].id, s3[0].ast.target.id,
                      'insertion into the wait pool',
                      'a task that has to wait is not inserted into the pool '
                      '(lost), or is canceled and still kept in the pool '
                      '(started after it was reported CANCELED)')
    body3 = g.loop_body[s3[0].id]
    pool_al = I.Aliases(prog, None, {f.name: f}, 'self._waitpool')
    ins = [n for n in g.stmt_nodes() if n.id in body3 and n.kind == 'stmt' and
           isinstance(n.ast, ast.Assign) and
           isinstance(n.ast.targets[0], ast.Subscript) and
           pool_al.is_rooted_expr(f.name, n.ast.targets[0])]
    rep.check(bool(ins) and okp, rid, f, 'tasks of the wait list are inserted '
              'into self._waitpool after the placement loop',
              construct='waitlist->waitpool',
              message='tasks which could not be placed are not inserted into '
              'self._waitpool', loc=f.loc(s3[0].ast),
              history='a task that does not fit right now is dropped')

    # the wait pool pass
    f2 = prog.method(BASE[0], BASE[1], '_schedule_waitpool')
    rep.saw(f2)
    g2 = cfg_of(f2)
    bis = None
    for n in walk(f2.node):
        if isinstance(n, ast.Assign) and isinstance(n.value, ast.Call) and \
                call_name(n.value).endswith('lazy_bisect'):
            bis = n
    if bis is None or not isinstance(bis.targets[0], ast.Tuple) or \
            len(bis.targets[0].elts) != 3:
        raise AnalysisError('UNRECOGNISED-IDIOM %s: result of lazy_bisect is '
                            'not unpacked into three names' % f2.where)
    good, badl, failed = [e.id for e in bis.targets[0].elts]
    src = bis.value.args[0] if bis.value.args else kwarg(bis.value, 'data')
    if not isinstance(src, ast.Name):
        raise AnalysisError('UNRECOGNISED-IDIOM %s: bisect input' % f2.where)
    chk = kwarg(bis.value, 'check')
    rep.check(chk is not None and unparse(chk) == 'self._try_allocation', rid,
              f2, 'lazy_bisect checks with self._try_allocation',
              construct='bisect:check', message='the wait pool is bisected '
              'with `%s`, not with self._try_allocation: tasks are started '
              'without a grant' % short(chk, 40), loc=f2.loc(bis))
    # pool task -> to_test xor to_wait
    sp = _loops_over(g2, lambda a: isinstance(a.target, ast.Name) and any(
        isinstance(c.func, ast.Attribute) and c.func.attr == 'append' and
        isinstance(c.func.value, ast.Name) and c.func.value.id == src.id
        and c.args and isinstance(c.args[0], ast.Name) and
        c.args[0].id == a.target.id for c in calls_in(a)))
    if len(sp) != 1:
        raise AnalysisError('UNRECOGNISED-IDIOM %s: loop sorting pool tasks '
                            'into the bisect input not found' % f2.where)
    check_one_outcome(rep, rid, f2, g2, sp[0].id, sp[0].ast.target.id,
                      'wait pool triage',
                      'a waiting task is neither tested nor kept (lost from '
                      'the pool), or both (started and kept: started twice)')
    keep = None
    for c in calls_in(sp[0].ast):
        if isinstance(c.func, ast.Attribute) and c.func.attr == 'append' and \
                isinstance(c.func.value, ast.Name) and \
                c.func.value.id != src.id:
            keep = c.func.value.id
    smap2 = I.stmt_node_map(g2)
    bn = smap2[id(bis)]
    # started
    started = [c for c in calls_in(f2.node) if I.is_handon(c) and
               isinstance(I.handon_thing(c), ast.Name) and
               I.handon_thing(c).id == good]
    okst = len(started) == 1 and \
        I.handon_state(prog, f2, started[0]) == prog.const(
            'states.py', 'AGENT_EXECUTING_PENDING') and \
        I.flag(started[0], 'push') is True and \
        must_pass(g2, bn.id, _next_iter_or_exit(g2, bn),
                  [smap2[id(started[0])].id]) if started else False
    rep.check(okst, rid, f2, 'the placed tasks (%s) are handed on once to '
              'AGENT_EXECUTING_PENDING with push=True' % good,
              construct='bisect:started', message='the tasks placed from the '
              'wait pool are not handed on exactly once to the executor '
              '(found %d hand-on(s) of `%s`)' % (len(started), good),
              loc=f2.loc(bis),
              history='a waiting task is granted cores and then never '
              'started: the cores stay BUSY forever')
    # failed
    sf = _loops_over(g2, lambda a: isinstance(a.iter, ast.Name) and
                     a.iter.id == failed)
    okf = False
    if len(sf) == 1:
        tv = stores_in_target(sf[0].ast.target)
        okf = bool(tv) and check_one_outcome(
            rep, rid, f2, g2, sf[0].id, tv[0], 'tasks failed by the bisect',
            'a task whose allocation raised is neither failed nor kept')
        okf = okf and must_pass(g2, bn.id, _next_iter_or_exit(g2, bn),
                                [sf[0].id])
    rep.check(okf, rid, f2, 'every task in the bisect\'s failed list (%s) is '
              'failed' % failed, construct='bisect:failed',
              message='tasks for which the allocation raised (`%s`) are not '
              'all failed: they vanish from the pool without a final state'
              % failed, loc=f2.loc(bis),
              history='a waiting task that can never be scheduled disappears '
              'silently; the application waits forever')
    # new pool = unscheduled + kept
    newp = [n for n in walk(f2.node) if isinstance(n, ast.Assign) and
            unparse(n.targets[0]).startswith('self._waitpool[')]
    okn = False
    for n in newp:
        names = {x.id for x in walk(n.value) if isinstance(x, ast.Name)}
        if badl in names and (keep is None or keep in names) and \
                good not in names:
            cn = smap2[id(n)]
            if must_pass(g2, bn.id, _next_iter_or_exit(g2, bn), [cn.id]):
                okn = True
    rep.check(okn, rid, f2, 'the new pool is built from %s + %s (and not from '
              'the started tasks)' % (badl, keep), construct='bisect:newpool',
              message='after the bisect the wait pool is not rebuilt from the '
              'unscheduled tasks and the tasks set aside (%s, %s)'
              % (badl, keep), loc=f2.loc(bis),
              history='tasks that did not fit are dropped from the pool, or '
              'started tasks stay in it and are started again')


def _next_iter_or_exit(g, node):
    """the node that ends the iteration containing `node`: the loop head of
    its innermost loop, else the function exit"""
    return node.loops[-1] if node.loops else g.exit.id


# ------------------------------------------------------------------------------
# R04.2  "can never be scheduled"
#
def r04_2(prog, rep, rid='R04.2'):
    rep.rule(rid, 'a failed placement raises "can never be scheduled" exactly '
             'when no task is active, otherwise the task waits', minimum=4)
    base, classes = sched_classes(prog)
    for K in classes:
        f, g, var, starts = grant_paths(prog, rep, K, rid)
        rep.saw(f)
        # the not-granted region: paths on which the placement is falsy
        region = starts.refused()
        raises = [n for n in g.stmt_nodes() if n.id in region and
                  n.kind == 'stmt' and isinstance(n.ast, ast.Raise)
                  and n.ast.exc is not None]
        waits = [n for n in g.stmt_nodes() if n.id in region and
                 n.kind == 'stmt' and isinstance(n.ast, ast.Return) and
                 isinstance(n.ast.value, ast.Constant) and not n.ast.value.value]
        rep.check(bool(raises), rid, f, '%s: a placement that fails on the '
                  'idle pilot raises' % K.name, construct='%s:raise' % K.name,
                  message='%s._try_allocation never raises for a task that '
                  'cannot be placed on the idle pilot: it waits forever'
                  % K.name, loc=f.loc(),
                  history='a task needs more cores than the pilot has: it '
                  'stays in the wait pool for the whole pilot life time '
                  'instead of being failed')
        rep.check(bool(waits), rid, f, '%s: a placement that fails while '
                  'other tasks run returns False (wait)' % K.name,
                  construct='%s:wait' % K.name, message='%s._try_allocation '
                  'has no "wait" outcome (falsy return) for a failed placement'
                  % K.name, loc=f.loc(),
                  history='a task that would fit once a running task '
                  'finishes is failed')
        for r in raises:
            ok = False
            seen = []
            for tid, lab in guards(g, r.id):
                a = g.nodes[tid].ast
                if 'self._active_cnt' not in unparse(a):
                    continue
                seen.append((a, lab))
                if isinstance(a, ast.Compare) and len(a.ops) == 1 and \
                        unparse(a.left) == 'self._active_cnt' and \
                        isinstance(a.comparators[0], ast.Constant):
                    c, op = a.comparators[0].value, a.ops[0]
                    if c == 0 and (isinstance(op, ast.Eq) and lab == 'T' or
                                   isinstance(op, ast.NotEq) and lab == 'F' or
                                   isinstance(op, ast.LtE) and lab == 'T' or
                                   isinstance(op, ast.Gt) and lab == 'F'):
                        ok = True
                    if c == 1 and (isinstance(op, ast.Lt) and lab == 'T' or
                                   isinstance(op, ast.GtE) and lab == 'F'):
                        ok = True
                elif unparse(a) == 'self._active_cnt' and lab == 'F':
                    ok = True
            rep.check(ok, rid, f, '%s: the raise is control dependent on '
                      '_active_cnt == 0' % K.name, construct=r.ast,
                      message='%s: "can never be scheduled" is raised %s: a '
                      'task that merely has to wait for a running task is '
                      'failed, or one that can never fit is kept'
                      % (K.name, 'under `%s` taken %s' % (
                          short(seen[0][0], 40), seen[0][1]) if seen
                         else 'without testing self._active_cnt'),
                      loc=f.loc(r.ast),
                      history='pilot with 4 cores, task A uses 3, task B asks '
                      'for 2: B is failed as "can never be scheduled" '
                      'although it fits once A is done')
        for w in waits:
            # the wait outcome must not be reachable when the count is zero
            # through the accepted test: i.e. it is on the other edge
            pass


# ------------------------------------------------------------------------------
# R04.3  priority order
#
def r04_3(prog, rep, rid='R04.3'):
    rep.rule(rid, 'both priority loops iterate the priorities in descending '
             'order', minimum=2)
    for mname, cont in (('_schedule_waitpool', 'self._waitpool'),
                        ('_schedule_incoming', None)):
        f = prog.method(BASE[0], BASE[1], mname)
        g = cfg_of(f)
        found = 0
        for n in g.nodes:
            if n.kind != 'for' or not isinstance(n.ast.target, ast.Name):
                continue
            tv = n.ast.target.id
            # the loop variable indexes a pool keyed by priority and the body
            # places tasks
            uses = [x for x in walk(n.ast) if isinstance(x, ast.Subscript) and
                    isinstance(x.slice, ast.Name) and x.slice.id == tv]
            places = any(call_name(c) in ('self._try_allocation',) or
                         call_name(c).endswith('lazy_bisect')
                         for c in calls_in(n.ast))
            if not uses or not places:
                continue
            found += 1
            it = n.ast.iter
            v = _descending(it)
            if v is None:
                raise AnalysisError('UNRECOGNISED-IDIOM %s: priority loop '
                                    'iterates `%s`' % (f.where, short(it, 60)))
            rep.check(v, rid, f, '%s iterates priorities with %s'
                      % (mname, short(it, 50)), construct='%s:order' % mname,
                      message='%s iterates the priorities as `%s`: not in '
                      'descending order' % (mname, short(it, 60)),
                      loc=f.loc(n.ast),
                      history='two tasks wait with priorities 0 and 1, one '
                      'core is released: the priority-0 task is started')
        if not found:
            raise AnalysisError('UNRECOGNISED-IDIOM %s: priority loop not '
                                'found' % f.where)


def _descending(it):
    """True / False / None(unknown) for an iteration expression"""
    if isinstance(it, ast.Call) and dotted(it.func) == 'sorted':
        key = kwarg(it, 'key')
        rev = kwarg(it, 'reverse')
        if key is not None:
            return None
        if rev is None:
            return False
        if isinstance(rev, ast.Constant):
            return bool(rev.value)
        return None
    if isinstance(it, ast.Call) and dotted(it.func) == 'reversed' and it.args:
        inner = _descending(it.args[0])
        return None if inner is None else not inner
    if isinstance(it, ast.Subscript) and isinstance(it.slice, ast.Slice) and \
            it.slice.lower is None and it.slice.upper is None and \
            isinstance(it.slice.step, ast.UnaryOp) and \
            unparse(it.slice.step) == '-1':
        inner = _descending(it.value)
        return None if inner is None else not inner
    if isinstance(it, (ast.Name, ast.Attribute)):
        return False               # plain dict iteration: insertion order
    if isinstance(it, ast.Call) and isinstance(it.func, ast.Attribute) and \
            it.func.attr in ('keys', 'items') and not it.args:
        return False
    if isinstance(it, ast.Call) and dotted(it.func) == 'list' and it.args:
        return _descending(it.args[0])
    return None


# ------------------------------------------------------------------------------
# R04.4  wake-up after a release
#
def r04_4(prog, rep, rid='R04.4'):
    rep.rule(rid, 'a release reported by _unschedule_completed re-enables the '
             'wait pool pass of the next loop iteration', minimum=2)
    f = prog.method(BASE[0], BASE[1], '_schedule_tasks')
    rep.saw(f)
    g = cfg_of(f)
    smap = I.stmt_node_map(g)
    wp = [c for c in calls_in(f.node)
          if call_name(c) == 'self._schedule_waitpool']
    uc = [n for n in walk(f.node) if isinstance(n, ast.Assign) and
          isinstance(n.value, ast.Call) and
          call_name(n.value) == 'self._unschedule_completed']
    if len(wp) != 1 or len(uc) != 1:
        raise AnalysisError('UNRECOGNISED-IDIOM %s: calls of '
                            '_schedule_waitpool/_unschedule_completed'
                            % f.where)
    wn = smap[id(wp[0])]
    t = uc[0].targets[0]
    rvar = t.elts[0].id if isinstance(t, ast.Tuple) and \
        isinstance(t.elts[0], ast.Name) else (t.id if isinstance(t, ast.Name)
                                              else None)
    # the flag guarding the wait pool pass
    flags = [g.nodes[tid].ast.id for tid, lab in guards(
        g, wn.id, start=loop_slice(g, wn.loops[-1])[0] if wn.loops else None)
        if isinstance(g.nodes[tid].ast, ast.Name) and lab == 'T']
    if not flags or rvar is None:
        raise AnalysisError('UNRECOGNISED-IDIOM %s: the wait pool pass is not '
                            'guarded by a flag' % f.where)
    flag = flags[-1]
    un = smap[id(uc[0])]
    sets = []
    for n in g.stmt_nodes():
        if n.kind == 'stmt' and isinstance(n.ast, ast.Assign) and any(
                isinstance(x, ast.Name) and x.id == flag
                for x in n.ast.targets):
            v = n.ast.value
            if isinstance(v, ast.Constant) and v.value is True:
                gs = guards(g, n.id, start=un.id)
                if any(isinstance(g.nodes[tid].ast, ast.Name) and
                       g.nodes[tid].ast.id == rvar and lab == 'T'
                       for tid, lab in gs) and n.id in g.reachable(
                           un.id, no_back=True):
                    sets.append(n)
            elif rvar in {x.id for x in walk(v) if isinstance(x, ast.Name)} \
                    and n.id in g.reachable(un.id, no_back=True):
                sets.append(n)
    rep.check(bool(sets), rid, f, 'a true first result of '
              '_unschedule_completed sets `%s`, which guards the wait pool '
              'pass' % flag, construct='wake-up',
              message='the first result of _unschedule_completed (`%s`) does '
              'not set the flag `%s` that guards _schedule_waitpool: released '
              'resources do not wake up waiting tasks' % (rvar, flag),
              loc=f.loc(uc[0]),
              history='a task waits alone, the running task finishes: the '
              'waiting task is not started until a new task arrives')
    # no unconditional clearing of the flag between the wake-up and the pass
    clears = []
    for s in sets:
        for n in g.stmt_nodes():
            if n.kind == 'stmt' and isinstance(n.ast, ast.Assign) and any(
                    isinstance(x, ast.Name) and x.id == flag
                    for x in n.ast.targets) and \
                    isinstance(n.ast.value, ast.Constant) and \
                    n.ast.value.value is False:
                # reachable after the set, before the pass, through the back
                # edge, and not avoidable
                if n.id in g.reachable(s.id) and \
                        must_pass(g, s.id, wn.id, [n.id]):
                    clears.append(n)
    rep.check(not clears, rid, f, 'the wake-up flag is not cleared on the way '
              'to the wait pool pass', construct='wake-up:clear',
              message='`%s` is set after a release but unconditionally cleared '
              'again before _schedule_waitpool runs' % flag,
              loc=f.loc(clears[0].ast) if clears else f.loc())


# ------------------------------------------------------------------------------
# R04.5  cancel of waiting tasks
#
def r04_5(prog, rep, rid='R04.5'):
    rep.rule(rid, 'cancel of waiting tasks: removal from the pool and '
             'collection for the CANCELED hand-on happen together, keyed by '
             'the requested uid; the collected tasks are handed on once',
             minimum=1)
    f = prog.method(BASE[0], BASE[1], '_schedule_incoming')
    g = cfg_of(f)
    smap = I.stmt_node_map(g)
    canceled = prog.const('states.py', 'CANCELED')
    hands = [c for c in calls_in(f.node) if I.is_handon(c) and
             I.handon_state(prog, f, c) == canceled]
    if not hands:
        raise AnalysisError('UNRECOGNISED-IDIOM %s: no CANCELED hand-on'
                            % f.where)
    for h in hands:
        thing = I.handon_thing(h)
        if not isinstance(thing, ast.Name):
            raise AnalysisError('UNRECOGNISED-IDIOM %s: CANCELED hand-on of '
                                '`%s`' % (f.where, short(thing, 30)))
        lst = thing.id
        hn = smap[id(h)]
        apps = [c for c in calls_in(f.node)
                if isinstance(c.func, ast.Attribute) and
                c.func.attr == 'append' and
                isinstance(c.func.value, ast.Name) and c.func.value.id == lst]
        pool_al = I.Aliases(prog, None, {f.name: f}, 'self._waitpool')
        dels = [n for n in walk(f.node) if isinstance(n, ast.Delete) and
                isinstance(n.targets[0], ast.Subscript) and
                pool_al.is_rooted_expr(f.name, n.targets[0])]
        if not apps:
            rep.bad(rid, f, h, 'the list `%s` handed on as CANCELED is never '
                    'filled: waiting tasks named in a cancel request are '
                    'removed (if at all) without a final state' % lst,
                    f.loc(h), history='cancel of a waiting task: it vanishes '
                    'from the pool, the application never sees CANCELED')
            continue
        for a in apps:
            an = smap[id(a)]
            pair = [d for d in dels
                    if set(guards(g, smap[id(d)].id)) == set(guards(g, an.id))
                    and smap[id(d)].loops == an.loops]
            if len(pair) != 1 and dels:
                # both a removal and a collection exist but under different
                # tests (e.g. the lookup+removal sits in a helper that returns
                # the task): decide by paths - the collection must pass a
                # removal and a removal must reach the collection
                dn = [smap[id(x)].id for x in dels]
                st0 = loop_slice(g, an.loops[-1])[0] if an.loops else \
                    g.entry.id
                passes = must_pass_feasible(g, st0, an.id, dn)
                fors = [h for h in an.loops if g.nodes[h].kind == 'for']
                near = [x for x in dn if fors and x in g.loop_body[fors[0]]]
                if not passes and not near:
                    # no removal at all while the requested uids are walked
                    rep.bad(rid, f, a, 'a waiting task is collected for the '
                            'CANCELED hand-on but no removal from the wait '
                            'pool happens in the loop over the requested uids',
                            f.loc(a), history='cancel of a waiting task: it '
                            'is reported CANCELED and later started')
                    continue
                if not passes:
                    raise AnalysisError(
                        'UNRECOGNISED-IDIOM %s: removal from the wait pool '
                        'and collection for CANCELED are under different '
                        'tests' % f.where)
                rep.ok(rid, f, 'collecting a task for CANCELED passes its '
                       'removal from the wait pool', f.loc(a))
                continue
            rep.check(len(pair) == 1, rid, f, 'collecting a task for CANCELED '
                      'and deleting it from the wait pool happen together',
                      construct=a, message='a waiting task is collected for '
                      'the CANCELED hand-on without being deleted from the '
                      'wait pool under the same conditions (or vice versa)',
                      loc=f.loc(a),
                      history='cancel of a waiting task: it is reported '
                      'CANCELED and later started, or silently removed '
                      'without a final state')
            # keyed by the uid of the request
            d = Deps(f.node)
            for dd in pair:
                key = dd.targets[0].slice
                loopvars = set()
                for hid in an.loops:
                    hn2 = g.nodes[hid]
                    if hn2.kind == 'for':
                        loopvars |= set(stores_in_target(hn2.ast.target))
                okk = isinstance(key, ast.Name) and key.id in loopvars
                # and the collected task was looked up by that key
                arg = a.args[0]
                look = False
                for n in walk(f.node):
                    if isinstance(n, ast.Assign) and isinstance(arg, ast.Name) \
                            and any(isinstance(t, ast.Name) and t.id == arg.id
                                    for t in n.targets) and \
                            isinstance(key, ast.Name) and key.id in \
                            {x.id for x in walk(n.value)
                             if isinstance(x, ast.Name)} and \
                            pool_al.is_rooted_expr(f.name, n.value):
                        look = True
                rep.check(okk and look, rid, f, 'the task removed is the one '
                          'looked up by the requested uid', construct=dd,
                          message='the wait pool entry deleted / the task '
                          'collected is not the one named by the requested '
                          'uid', loc=f.loc(dd),
                          history='cancel of task A removes task B from the '
                          'wait pool')
        # handed on once, after the collection loops, unconditionally within
        # the cancel branch
        outer = [hh for hh in (smap[id(a)].loops for a in apps)]
        inner_loops = set()
        for a in apps:
            inner_loops |= set(smap[id(a)].loops) - set(hn.loops)
        okh = bool(inner_loops) and I.flag(h, 'publish') is True and \
            set(guards(g, hn.id)) <= set(guards(g, smap[id(apps[0])].id))
        rep.check(okh, rid, f, 'the collected tasks are handed on as CANCELED '
                  'once after the collection, with publish=True',
                  construct=h, message='the CANCELED hand-on of `%s` is inside '
                  'the collection loop, conditional, or not published' % lst,
                  loc=f.loc(h),
                  history='cancel of two waiting tasks: the first is reported '
                  'CANCELED twice (or never)')


# ------------------------------------------------------------------------------
#
def run(prog, rep, tier):
    rep.decided = ('exactly one outcome per task on every path of the intake '
        'loop, the placement loop, the wait-pool insertion (incl. the '
        'post-insert cancel check), the wait-pool triage and the consumption '
        'of all three lazy_bisect results; the "can never be scheduled" raise '
        'is control dependent on _active_cnt == 0 and the other outcome is '
        'wait; priorities are iterated in descending order in both loops; a '
        'release re-enables the wait pool pass; cancel of waiting tasks '
        'removes and reports together, keyed by the requested uid.')
    rep.undecided = ('absence of starvation in general and "as soon as" '
        '(timing of the loop); the bisect heuristics of ru.lazy_bisect.')
    rep.assumptions = [
        'effects are atomic (an advance either happened or raised before '
        'having an effect)',
        'ru.lazy_bisect returns a partition (good, bad, failed) of its input',
        'BaseComponent.is_canceled(task) hands the task on as CANCELED '
        'exactly when it returns True (checked by C08)',
    ]
    rep.attempt(r04_1, prog, rep)
    rep.attempt(r04_2, prog, rep)
    rep.attempt(r04_3, prog, rep)
    rep.attempt(r04_4, prog, rep)
    rep.attempt(r04_5, prog, rep)
    # the counter the rule R04.2 rests on
    from .c03 import r03_3
    rep.attempt(r03_3, prog, rep, rid='R03.3')
    rep.rule('R04.4', rep.rules['R04.4'], minimum=2)


# ------------------------------------------------------------------------------
_B = 'agent/scheduler/base.py'

MUTATIONS = [
    dict(name='R04.1 invalid-ranks task failed and scheduled (F10 reverted)', rules=('R04.1',), edits=[
        (_B, "                        self._fail_task(task, ValueError('invalid ranks'), '')\n                        continue\n", "                        self._fail_task(task, ValueError('invalid ranks'), '')\n")]),
    dict(name='R04.1 raptor-seen task not scheduled', rules=('R04.1',), edits=[
        (_B, "                            self._set_tuple_size(task)\n                            to_schedule[priority].append(task)\n\n                        else:\n                            to_raptor", "                            self._set_tuple_size(task)\n\n                        else:\n                            to_raptor")]),
    dict(name='R04.1 task waiting for a named env is dropped', rules=('R04.1',), edits=[
        (_B, "                    if named_env not in self._named_envs:\n                        to_wait.append(task)\n", "                    if named_env not in self._named_envs:\n")]),
    dict(name='R04.1 placed task started and kept waiting', rules=('R04.1',), edits=[
        (_B, "                        self.advance(task, rps.AGENT_EXECUTING_PENDING,\n                                     publish=True, push=True, fwd=True)\n\n                    else:\n                        to_wait.append(task)\n", "                        self.advance(task, rps.AGENT_EXECUTING_PENDING,\n                                     publish=True, push=True, fwd=True)\n\n                    to_wait.append(task)\n")]),
    dict(name='R04.1 allocation error swallowed', rules=('R04.1',), edits=[
        (_B, "                except Exception as e:\n                    self._fail_task(task, e, '\\n'.join(ru.get_exception_trace()))\n\n\n            # all tasks which could not", "                except Exception as e:\n                    self._log.exception('oops')\n\n\n            # all tasks which could not")]),
    dict(name='R04.1 pre-placed task started without leaving the loop body', rules=('R04.1',), edits=[
        (_B, "                    self.advance(task, rps.AGENT_EXECUTING_PENDING,\n                                 publish=True, push=True, fwd=True)\n                    continue\n", "                    self.advance(task, rps.AGENT_EXECUTING_PENDING,\n                                 publish=True, push=True, fwd=True)\n")]),
    dict(name='R04.1 canceled task stays in the wait pool', rules=('R04.1',), edits=[
        (_B, "                if self.is_canceled(task) is True:\n                    del self._waitpool[priority][uid]\n", "                if self.is_canceled(task) is True:\n                    pass\n")]),
    dict(name='R04.1 cancel check polarity flipped', rules=('R04.1',), edits=[
        (_B, "                if self.is_canceled(task) is True:\n                    del self._waitpool[priority][uid]\n", "                if self.is_canceled(task) is False:\n                    del self._waitpool[priority][uid]\n")]),
    dict(name='R04.1 waiting tasks never enter the pool', rules=('R04.1',), edits=[
        (_B, "                uid = task['uid']\n                self._waitpool[priority][uid] = task\n", "                uid = task['uid']\n")]),
    dict(name='R04.1 pool task with unknown env dropped', rules=('R04.1',), edits=[
        (_B, "                        to_test.append(task)\n                    else:\n                        to_wait.append(task)\n                else:", "                        to_test.append(task)\n                else:")]),
    dict(name='R04.1 bisect failures ignored', rules=('R04.1',), edits=[
        (_B, "                self._fail_task(task, RuntimeError('bisect failed'), error)\n", "")]),
    dict(name='R04.1 new pool forgets tasks set aside', rules=('R04.1',), edits=[
        (_B, "                                            for task in (unscheduled + to_wait)}", "                                            for task in unscheduled}")]),
    dict(name='R04.1 new pool keeps started tasks', rules=('R04.1',), edits=[
        (_B, "                                            for task in (unscheduled + to_wait)}", "                                            for task in (scheduled + unscheduled + to_wait)}")]),
    dict(name='R04.1 placed pool tasks not pushed', rules=('R04.1',), edits=[
        (_B, "            self.advance(scheduled, rps.AGENT_EXECUTING_PENDING, publish=True,\n                                                                 push=True)", "            self.advance(scheduled, rps.AGENT_EXECUTING_PENDING, publish=True,\n                                                                 push=False)")]),
    dict(name='R04.1 placed pool tasks started only when all fit', rules=('R04.1',), edits=[
        (_B, "            self.advance(scheduled, rps.AGENT_EXECUTING_PENDING, publish=True,\n                                                                 push=True)", "            if not unscheduled:\n                self.advance(scheduled, rps.AGENT_EXECUTING_PENDING, publish=True,\n                                                                 push=True)")]),
    dict(name='R04.2 never-schedulable raised whenever placement fails', rules=('R04.2',), edits=[
        (_B, "                if self._active_cnt == 0:\n                    raise RuntimeError('task can never be scheduled')", "                if self._active_cnt >= 0:\n                    raise RuntimeError('task can never be scheduled')")]),
    dict(name='R04.2 test polarity flipped', rules=('R04.2',), edits=[
        (_B, "                if self._active_cnt == 0:", "                if self._active_cnt != 0:")]),
    dict(name='R04.2 never-schedulable tasks wait forever', rules=('R04.2',), edits=[
        (_B, "                if self._active_cnt == 0:\n                    raise RuntimeError('task can never be scheduled')\n\n", "")]),
    dict(name='R04.2 failed placement always raises', rules=('R04.2',), edits=[
        (_B, "                if self._active_cnt == 0:\n                    raise RuntimeError('task can never be scheduled')\n\n                return False\n", "                raise RuntimeError('task can never be scheduled')\n")]),
    dict(name='R04.3 wait pool in ascending priority', rules=('R04.3',), edits=[
        (_B, "        for priority in sorted(self._waitpool.keys(), reverse=True):", "        for priority in sorted(self._waitpool.keys()):")]),
    dict(name='R04.3 incoming in insertion order', rules=('R04.3',), edits=[
        (_B, "        for priority in sorted(to_schedule.keys(), reverse=True):", "        for priority in to_schedule:")]),
    dict(name='R04.4 wake-up uses the activity flag', rules=('R04.4',), edits=[
        (_B, "            if not resources and r:\n                resources = True", "            if not resources and a and not r:\n                resources = True")]),
    dict(name='R04.4 wake-up removed', rules=('R04.4',), edits=[
        (_B, "            if not resources and r:\n                resources = True\n", "")]),
    dict(name='R04.4 release not reported', rules=('R04.4',), edits=[
        (_B, "        # we have new resources, and were active\n        return True, True", "        # we have new resources, and were active\n        return None, True")]),
    dict(name='R04.5 canceled waiting task not removed', rules=('R04.5',), edits=[
        (_B, "                                to_cancel.append(task)\n                                del self._waitpool[priority][uid]\n", "                                to_cancel.append(task)\n")]),
    dict(name='R04.5 waiting task removed without report', rules=('R04.5',), edits=[
        (_B, "                                to_cancel.append(task)\n                                del self._waitpool[priority][uid]\n", "                                del self._waitpool[priority][uid]\n")],
         note='no collection left: UNRECOGNISED or violation both acceptable'),
    dict(name='R04.5 CANCELED hand-on not published', rules=('R04.5',), edits=[
        (_B, "                    self.advance(to_cancel, rps.CANCELED,\n                                                       push=False, publish=True)", "                    self.advance(to_cancel, rps.CANCELED,\n                                                       push=False, publish=False)")]),
    dict(name='R03.3 grant not counted (R04.2 rests on it)', rules=('R03.3',), edits=[
        (_B, "            self._active_cnt += 1\n\n            # the task was placed", "            # the task was placed")]),
    dict(name='R04.1 wait list shared by all priorities (seed C04-a)', rules=('R04.1',), edits=[
        (_B, "            tasks   = to_schedule[priority]\n            to_wait = list()\n", "            tasks   = to_schedule[priority]\n"),
        (_B, "        for priority in sorted(to_schedule.keys(), reverse=True):\n", "        to_wait = list()\n        for priority in sorted(to_schedule.keys(), reverse=True):\n")]),
]

SILENT = [
    dict(name='never-schedulable test as `not self._active_cnt`', edits=[
        (_B, "                if self._active_cnt == 0:", "                if not self._active_cnt:")]),
    dict(name='invalid ranks handled with elif chain', edits=[
        (_B, "                        self._fail_task(task, ValueError('invalid ranks'), '')\n                        continue\n\n                    # check if this task", "                        self._fail_task(task, ValueError('invalid ranks'), '')\n                        continue\n                    else:\n                        pass\n\n                    # check if this task")]),
    dict(name='priority order via reversed(sorted())', edits=[
        (_B, "        for priority in sorted(self._waitpool.keys(), reverse=True):", "        for priority in reversed(sorted(self._waitpool.keys())):")]),
    dict(name='cancel check without `is True`', edits=[
        (_B, "                if self.is_canceled(task) is True:", "                if self.is_canceled(task):")]),
    dict(name='wake-up as boolean expression', edits=[
        (_B, "            if not resources and r:\n                resources = True", "            resources = bool(resources or r)")]),
    dict(name='placement result tested into a local first', edits=[
        (_B, "                    if self._try_allocation(task):\n                        # task got scheduled", "                    placed = self._try_allocation(task)\n                    if placed:\n                        # task got scheduled")]),
    dict(name='delete before collect in cancel branch', edits=[
        (_B, "                                to_cancel.append(task)\n                                del self._waitpool[priority][uid]\n", "                                del self._waitpool[priority][uid]\n                                to_cancel.append(task)\n")]),
]
