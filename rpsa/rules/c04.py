"""C04  The pilot scheduler neither loses nor starves tasks (DESIGN 5 / C04)"""

import ast
from collections import deque

from ..model import (walk, dotted, call_name, kwarg, unparse, short, UNKNOWN,
                     root_name, AnalysisError, calls_in, stores_in_target)
from ..cfg import cfg_of
from ..flow import Deps, guards, must_pass, must_pass_feasible, loop_slice
from .. import idioms as I
from ..outcomes import check_one_outcome, Effects
from .c01 import sched_classes, consts, grant_paths, BASE, _ancestors


def _loops_over(g, pred):
    return [n for n in g.nodes if n.kind == 'for' and pred(n.ast)]


def _iter_names(it):
    return {x.id for x in walk(it) if isinstance(x, ast.Name)}


# ------------------------------------------------------------------------------
# R04.1  one outcome per task per stage
#
def r04_1(prog, rep, rid='R04.1'):
    rep.rule(rid, 'every task handled by a stage of the scheduling loop gets '
             'exactly one outcome (handed on / failed / canceled xor kept in '
             'a pool or work list)', minimum=7)
    f = prog.method(BASE[0], BASE[1], '_schedule_incoming')
    rep.saw(f)
    g = cfg_of(f)
    rep.stat('cfg_nodes', len(g.nodes))
    # stage 1: for task in <data>  (the bulk taken from the queue)
    qvars = set()
    for n in walk(f.node):
        if isinstance(n, ast.Assign) and isinstance(n.value, ast.Call) and \
                isinstance(n.value.func, ast.Attribute) and \
                n.value.func.attr == 'get' and \
                '_queue_sched' in unparse(n.value.func.value):
            qvars |= set(stores_in_target(n.targets[0]))
    s1 = _loops_over(g, lambda a: isinstance(a.iter, ast.Name) and
                     a.iter.id in qvars and isinstance(a.target, ast.Name) and
                     any(I.is_handon(c) or call_name(c) == 'self._fail_task'
                         or (isinstance(c.func, ast.Attribute) and
                             c.func.attr == 'append')
                         for c in calls_in(a)) and
                     "['description']" in unparse(a))
    if len(s1) != 1:
        raise AnalysisError('UNRECOGNISED-IDIOM %s: intake loop over the '
                            'queued bulk not found (%d candidates)'
                            % (f.where, len(s1)))
    check_one_outcome(rep, rid, f, g, s1[0].id, s1[0].ast.target.id,
                      'intake of incoming tasks',
                      'a task with ranks <= 0 arrives: it is reported FAILED '
                      'and is scheduled and started as well')
    # stage 2: the loop that calls _try_allocation on its loop variable
    s2 = _loops_over(g, lambda a: isinstance(a.target, ast.Name) and any(
        call_name(c) == 'self._try_allocation' and c.args and
        isinstance(c.args[0], ast.Name) and c.args[0].id == a.target.id
        for c in calls_in(a)))
    if len(s2) != 1:
        raise AnalysisError('UNRECOGNISED-IDIOM %s: placement loop not found'
                            % f.where)
    check_one_outcome(rep, rid, f, g, s2[0].id, s2[0].ast.target.id,
                      'placement of incoming tasks',
                      'a task is both started and kept waiting (started '
                      'twice later), or neither (lost)')
    # stage 3: tasks which have to wait enter the pool; they leave it again
    # only together with a CANCELED hand-on
    wl = None
    for c in calls_in(s2[0].ast):
        if isinstance(c.func, ast.Attribute) and c.func.attr == 'append' and \
                c.args and isinstance(c.args[0], ast.Name) and \
                c.args[0].id == s2[0].ast.target.id and \
                isinstance(c.func.value, ast.Name):
            wl = c.func.value.id
    if wl is None:
        raise AnalysisError('UNRECOGNISED-IDIOM %s: wait list of the placement '
                            'loop not found' % f.where)
    s3 = _loops_over(g, lambda a: isinstance(a.iter, ast.Name) and
                     a.iter.id == wl and isinstance(a.target, ast.Name))
    if len(s3) != 1:
        raise AnalysisError('UNRECOGNISED-IDIOM %s: loop over the wait list %s '
                            'not found' % (f.where, wl))
    # the wait list is filled and drained once per iteration of the enclosing
    # (priority) loop: it must be created inside that iteration, else tasks of
    # an earlier iteration are drained (inserted into a pool) again
    if s3[0].loops:
        L = s3[0].loops[-1]
        lstart = loop_slice(g, L)[0]
        creators = [n.id for n in g.stmt_nodes() if n.kind == 'stmt' and
                    isinstance(n.ast, ast.Assign) and any(
                        isinstance(t, ast.Name) and t.id == wl
                        for t in n.ast.targets) and L in n.loops]
        clears = [n.id for n in g.stmt_nodes() if n.kind == 'stmt' and
                  L in n.loops and any(
                      isinstance(c.func, ast.Attribute) and
                      c.func.attr == 'clear' and unparse(c.func.value) == wl
                      for c in calls_in(n.ast))]
        fresh = bool(creators + clears) and \
            must_pass(g, lstart, s2[0].id, creators + clears)
        rep.check(fresh, rid, f, 'the wait list `%s` is created anew in every '
                  'iteration of the loop that fills and drains it' % wl,
                  construct='waitlist:fresh', message='the wait list `%s` is '
                  'filled and drained inside the priority loop but created '
                  'outside of it: tasks which had to wait at a higher '
                  'priority are inserted again into the wait pool of every '
                  'lower priority handled in the same call' % wl,
                  loc=f.loc(s3[0].ast),
                  history='one bulk with tasks H (priority 1) and L '
                  '(priority 0) which both have to wait: H sits in '
                  '_waitpool[1] and _waitpool[0] and is started twice')
    okp = s3[0].loops == s2[0].loops and \
        s3[0].id in g.reachable(s2[0].id, labels={'done', 'next', 'T', 'F'})
    check_one_outcome(rep, rid, f, g, s3[0].id, s3[0].ast.target.id,
                      'insertion into the wait pool',
                      'a task that has to wait is not inserted into the pool '
                      '(lost), or is canceled and still kept in the pool '
                      '(started after it was reported CANCELED)')
    body3 = g.loop_body[s3[0].id]
    pool_al = I.Aliases(prog, None, {f.name: f}, 'self._waitpool')
    ins = [n for n in g.stmt_nodes() if n.id in body3 and n.kind == 'stmt' and
           isinstance(n.ast, ast.Assign) and
           isinstance(n.ast.targets[0], ast.Subscript) and
           pool_al.is_rooted_expr(f.name, n.ast.targets[0])]
    rep.check(bool(ins) and okp, rid, f, 'tasks of the wait list are inserted '
              'into self._waitpool after the placement loop',
              construct='waitlist->waitpool',
              message='tasks which could not be placed are not inserted into '
              'self._waitpool', loc=f.loc(s3[0].ast),
              history='a task that does not fit right now is dropped')

    # the wait pool pass
    f2 = prog.method(BASE[0], BASE[1], '_schedule_waitpool')
    rep.saw(f2)
    g2 = cfg_of(f2)
    bis = None
    for n in walk(f2.node):
        if isinstance(n, ast.Assign) and isinstance(n.value, ast.Call) and \
                call_name(n.value).endswith('lazy_bisect'):
            bis = n
    if bis is None or not isinstance(bis.targets[0], ast.Tuple) or \
            len(bis.targets[0].elts) != 3:
        raise AnalysisError('UNRECOGNISED-IDIOM %s: result of lazy_bisect is '
                            'not unpacked into three names' % f2.where)
    good, badl, failed = [e.id for e in bis.targets[0].elts]
    src = bis.value.args[0] if bis.value.args else kwarg(bis.value, 'data')
    if not isinstance(src, ast.Name):
        raise AnalysisError('UNRECOGNISED-IDIOM %s: bisect input' % f2.where)
    chk = kwarg(bis.value, 'check')
    rep.check(chk is not None and unparse(chk) == 'self._try_allocation', rid,
              f2, 'lazy_bisect checks with self._try_allocation',
              construct='bisect:check', message='the wait pool is bisected '
              'with `%s`, not with self._try_allocation: tasks are started '
              'without a grant' % short(chk, 40), loc=f2.loc(bis))
    # pool task -> to_test xor to_wait
    sp = _loops_over(g2, lambda a: isinstance(a.target, ast.Name) and any(
        isinstance(c.func, ast.Attribute) and c.func.attr == 'append' and
        isinstance(c.func.value, ast.Name) and c.func.value.id == src.id
        and c.args and isinstance(c.args[0], ast.Name) and
        c.args[0].id == a.target.id for c in calls_in(a)))
    if len(sp) != 1:
        raise AnalysisError('UNRECOGNISED-IDIOM %s: loop sorting pool tasks '
                            'into the bisect input not found' % f2.where)
    check_one_outcome(rep, rid, f2, g2, sp[0].id, sp[0].ast.target.id,
                      'wait pool triage',
                      'a waiting task is neither tested nor kept (lost from '
                      'the pool), or both (started and kept: started twice)')
    keep = None
    for c in calls_in(sp[0].ast):
        if isinstance(c.func, ast.Attribute) and c.func.attr == 'append' and \
                isinstance(c.func.value, ast.Name) and \
                c.func.value.id != src.id:
            keep = c.func.value.id
    smap2 = I.stmt_node_map(g2)
    bn = smap2[id(bis)]
    # started
    started = [c for c in calls_in(f2.node) if I.is_handon(c) and
               isinstance(I.handon_thing(c), ast.Name) and
               I.handon_thing(c).id == good]
    okst = len(started) == 1 and \
        I.handon_state(prog, f2, started[0]) == prog.const(
            'states.py', 'AGENT_EXECUTING_PENDING') and \
        I.flag(started[0], 'push') is True and \
        must_pass(g2, bn.id, _next_iter_or_exit(g2, bn),
                  [smap2[id(started[0])].id]) if started else False
    rep.check(okst, rid, f2, 'the placed tasks (%s) are handed on once to '
              'AGENT_EXECUTING_PENDING with push=True' % good,
              construct='bisect:started', message='the tasks placed from the '
              'wait pool are not handed on exactly once to the executor '
              '(found %d hand-on(s) of `%s`)' % (len(started), good),
              loc=f2.loc(bis),
              history='a waiting task is granted cores and then never '
              'started: the cores stay BUSY forever')
    # failed
    sf = _loops_over(g2, lambda a: isinstance(a.iter, ast.Name) and
                     a.iter.id == failed)
    okf = False
    if len(sf) == 1:
        tv = stores_in_target(sf[0].ast.target)
        okf = bool(tv) and check_one_outcome(
            rep, rid, f2, g2, sf[0].id, tv[0], 'tasks failed by the bisect',
            'a task whose allocation raised is neither failed nor kept')
        okf = okf and must_pass(g2, bn.id, _next_iter_or_exit(g2, bn),
                                [sf[0].id])
    rep.check(okf, rid, f2, 'every task in the bisect\'s failed list (%s) is '
              'failed' % failed, construct='bisect:failed',
              message='tasks for which the allocation raised (`%s`) are not '
              'all failed: they vanish from the pool without a final state'
              % failed, loc=f2.loc(bis),
              history='a waiting task that can never be scheduled disappears '
              'silently; the application waits forever')
    # new pool = unscheduled + kept
    newp = [n for n in walk(f2.node) if isinstance(n, ast.Assign) and
            unparse(n.targets[0]).startswith('self._waitpool[')]
    okn = False
    for n in newp:
        names = _flows_into(g2, smap2, f2.node, n.value, smap2[id(n)])
        if badl in names and (keep is None or keep in names) and \
                good not in names:
            cn = smap2[id(n)]
            if must_pass(g2, bn.id, _next_iter_or_exit(g2, bn), [cn.id]):
                okn = True
    rep.check(okn, rid, f2, 'the new pool is built from %s + %s (and not from '
              'the started tasks)' % (badl, keep), construct='bisect:newpool',
              message='after the bisect the wait pool is not rebuilt from the '
              'unscheduled tasks and the tasks set aside (%s, %s)'
              % (badl, keep), loc=f2.loc(bis),
              history='tasks that did not fit are dropped from the pool, or '
              'started tasks stay in it and are started again')


_FILLERS = ('append', 'extend', 'update', 'add', 'insert', 'setdefault')


def _flows_into(g, smap, fnode, value, at, depth=3):
    """plain names whose content flows into `value`, evaluated at cfg node
    `at`: the names it mentions; for a mentioned loop variable of a `for`
    enclosing `at` what its iterable mentions; for a mentioned local container
    which is filled in this function (x[k] = v, x.append/extend/update(v),
    x += v) what is filled in.  Flow-insensitive for the fills (a lower bound
    on nothing: used to ask which lists reach a new pool at all)"""
    comp = set()
    for x in walk(value):
        if isinstance(x, ast.comprehension):
            comp |= set(stores_in_target(x.target))
    names = {x.id for x in walk(value) if isinstance(x, ast.Name)}
    out = set(names)
    if depth <= 0:
        return out
    for nm in names - comp - {'self'}:
        for h in reversed(at.loops):
            hn = g.nodes[h]
            if hn.kind == 'for' and nm in stores_in_target(hn.ast.target):
                out |= _flows_into(g, smap, fnode, hn.ast.iter, hn, depth - 1)
                break
        for st in walk(fnode):
            v = None
            if isinstance(st, ast.Assign) and any(
                    isinstance(t, ast.Subscript) and
                    isinstance(t.value, ast.Name) and t.value.id == nm
                    for t in st.targets):
                v = st.value
            elif isinstance(st, ast.AugAssign) and \
                    isinstance(st.target, ast.Name) and st.target.id == nm:
                v = st.value
            elif isinstance(st, ast.Expr) and isinstance(st.value, ast.Call) \
                    and isinstance(st.value.func, ast.Attribute) and \
                    st.value.func.attr in _FILLERS and \
                    isinstance(st.value.func.value, ast.Name) and \
                    st.value.func.value.id == nm and st.value.args:
                v = st.value.args[-1]
            if v is not None and id(st) in smap and smap[id(st)] is not at:
                out |= _flows_into(g, smap, fnode, v, smap[id(st)], depth - 1)
    return out


def _next_iter_or_exit(g, node):
    """the node that ends the iteration containing `node`: the loop head of
    its innermost loop, else the function exit"""
    return node.loops[-1] if node.loops else g.exit.id


# ------------------------------------------------------------------------------
# R04.2  "can never be scheduled"
#
def r04_2(prog, rep, rid='R04.2'):
    rep.rule(rid, 'a failed placement raises "can never be scheduled" exactly '
             'when no task is active, otherwise the task waits', minimum=4)
    base, classes = sched_classes(prog)
    for K in classes:
        f, g, var, starts = grant_paths(prog, rep, K, rid)
        rep.saw(f)
        # the not-granted region: paths on which the placement is falsy
        region = starts.refused()
        raises = [n for n in g.stmt_nodes() if n.id in region and
                  n.kind == 'stmt' and isinstance(n.ast, ast.Raise)
                  and n.ast.exc is not None]
        waits = [n for n in g.stmt_nodes() if n.id in region and
                 n.kind == 'stmt' and isinstance(n.ast, ast.Return) and
                 isinstance(n.ast.value, ast.Constant) and not n.ast.value.value]
        rep.check(bool(raises), rid, f, '%s: a placement that fails on the '
                  'idle pilot raises' % K.name, construct='%s:raise' % K.name,
                  message='%s._try_allocation never raises for a task that '
                  'cannot be placed on the idle pilot: it waits forever'
                  % K.name, loc=f.loc(),
                  history='a task needs more cores than the pilot has: it '
                  'stays in the wait pool for the whole pilot life time '
                  'instead of being failed')
        rep.check(bool(waits), rid, f, '%s: a placement that fails while '
                  'other tasks run returns False (wait)' % K.name,
                  construct='%s:wait' % K.name, message='%s._try_allocation '
                  'has no "wait" outcome (falsy return) for a failed placement'
                  % K.name, loc=f.loc(),
                  history='a task that would fit once a running task '
                  'finishes is failed')
        for r in raises:
            ok = False
            seen = []
            for tid, lab in guards(g, r.id):
                a = g.nodes[tid].ast
                if 'self._active_cnt' not in unparse(a):
                    continue
                seen.append((a, lab))
                if isinstance(a, ast.Compare) and len(a.ops) == 1 and \
                        unparse(a.left) == 'self._active_cnt' and \
                        isinstance(a.comparators[0], ast.Constant):
                    c, op = a.comparators[0].value, a.ops[0]
                    if c == 0 and (isinstance(op, ast.Eq) and lab == 'T' or
                                   isinstance(op, ast.NotEq) and lab == 'F' or
                                   isinstance(op, ast.LtE) and lab == 'T' or
                                   isinstance(op, ast.Gt) and lab == 'F'):
                        ok = True
                    if c == 1 and (isinstance(op, ast.Lt) and lab == 'T' or
                                   isinstance(op, ast.GtE) and lab == 'F'):
                        ok = True
                elif unparse(a) == 'self._active_cnt' and lab == 'F':
                    ok = True
            rep.check(ok, rid, f, '%s: the raise is control dependent on '
                      '_active_cnt == 0' % K.name, construct=r.ast,
                      message='%s: "can never be scheduled" is raised %s: a '
                      'task that merely has to wait for a running task is '
                      'failed, or one that can never fit is kept'
                      % (K.name, 'under `%s` taken %s' % (
                          short(seen[0][0], 40), seen[0][1]) if seen
                         else 'without testing self._active_cnt'),
                      loc=f.loc(r.ast),
                      history='pilot with 4 cores, task A uses 3, task B asks '
                      'for 2: B is failed as "can never be scheduled" '
                      'although it fits once A is done')
        for w in waits:
            # the wait outcome must not be reachable when the count is zero
            # through the accepted test: i.e. it is on the other edge
            pass


# ------------------------------------------------------------------------------
# R04.3  priority order
#
def r04_3(prog, rep, rid='R04.3'):
    rep.rule(rid, 'both priority loops iterate the priorities in descending '
             'order', minimum=2)
    for mname, cont in (('_schedule_waitpool', 'self._waitpool'),
                        ('_schedule_incoming', None)):
        f = prog.method(BASE[0], BASE[1], mname)
        g = cfg_of(f)
        found = 0
        for n in g.nodes:
            if n.kind != 'for' or not isinstance(n.ast.target, ast.Name):
                continue
            tv = n.ast.target.id
            # the loop variable indexes a pool keyed by priority and the body
            # places tasks
            uses = [x for x in walk(n.ast) if isinstance(x, ast.Subscript) and
                    isinstance(x.slice, ast.Name) and x.slice.id == tv]
            places = any(call_name(c) in ('self._try_allocation',) or
                         call_name(c).endswith('lazy_bisect')
                         for c in calls_in(n.ast))
            if not uses or not places:
                continue
            found += 1
            it = n.ast.iter
            v = _descending(it)
            if v is None:
                raise AnalysisError('UNRECOGNISED-IDIOM %s: priority loop '
                                    'iterates `%s`' % (f.where, short(it, 60)))
            rep.check(v, rid, f, '%s iterates priorities with %s'
                      % (mname, short(it, 50)), construct='%s:order' % mname,
                      message='%s iterates the priorities as `%s`: not in '
                      'descending order' % (mname, short(it, 60)),
                      loc=f.loc(n.ast),
                      history='two tasks wait with priorities 0 and 1, one '
                      'core is released: the priority-0 task is started')
        if not found:
            raise AnalysisError('UNRECOGNISED-IDIOM %s: priority loop not '
                                'found' % f.where)


def _descending(it):
    """True / False / None(unknown) for an iteration expression"""
    if isinstance(it, ast.Call) and dotted(it.func) == 'sorted':
        key = kwarg(it, 'key')
        rev = kwarg(it, 'reverse')
        if key is not None:
            return None
        if rev is None:
            return False
        if isinstance(rev, ast.Constant):
            return bool(rev.value)
        return None
    if isinstance(it, ast.Call) and dotted(it.func) == 'reversed' and it.args:
        inner = _descending(it.args[0])
        return None if inner is None else not inner
    if isinstance(it, ast.Subscript) and isinstance(it.slice, ast.Slice) and \
            it.slice.lower is None and it.slice.upper is None and \
            isinstance(it.slice.step, ast.UnaryOp) and \
            unparse(it.slice.step) == '-1':
        inner = _descending(it.value)
        return None if inner is None else not inner
    if isinstance(it, (ast.Name, ast.Attribute)):
        return False               # plain dict iteration: insertion order
    if isinstance(it, ast.Call) and isinstance(it.func, ast.Attribute) and \
            it.func.attr in ('keys', 'items') and not it.args:
        return False
    if isinstance(it, ast.Call) and dotted(it.func) == 'list' and it.args:
        return _descending(it.args[0])
    return None


# ------------------------------------------------------------------------------
# R04.4  wake-up after a release
#
def r04_4(prog, rep, rid='R04.4'):
    """def-use only (which local carries the release to which guard); whether
    the wake-up holds on every path is decided by R04.6"""
    rep.rule(rid, 'a release reported by _unschedule_completed re-enables the '
             'wait pool pass of the next loop iteration', minimum=2)
    f, g, smap, wn, un, rvar = _wakeup_anchors(prog)
    rep.saw(f)
    if not wn.loops or rvar is None:
        raise AnalysisError('UNRECOGNISED-IDIOM %s: the wait pool pass is not '
                            'guarded by a flag' % f.where)
    head, lstart, inbody, tests, deciding = _pass_guard(g, wn)
    flags = set()
    for n in deciding:
        flags |= {x.id for x in walk(n.ast) if isinstance(x, ast.Name)}
    flags.discard('self')
    if not flags:
        raise AnalysisError('UNRECOGNISED-IDIOM %s: the wait pool pass is not '
                            'guarded by a flag' % f.where)
    ftxt = ' / '.join(sorted(flags))
    # ... and the locals those are computed from
    d = Deps(f.node)
    for n in list(flags):
        flags |= {x for x in d.closure(n) if x.isidentifier() and x != 'self'}

    def names(e):
        return {x.id for x in walk(e) if isinstance(x, ast.Name)}

    def flag_assigns():
        for n in g.stmt_nodes():
            if n.kind == 'stmt' and isinstance(n.ast, ast.Assign):
                for x in n.ast.targets:
                    if isinstance(x, ast.Name) and x.id in flags:
                        yield n, x.id
    after = g.reachable(un.id, skip_nodes={wn.id})
    sets = []
    for n, x in flag_assigns():
        if n.id not in after:
            continue
        v = n.ast.value
        if isinstance(v, ast.Constant) and v.value:
            if any(rvar in names(g.nodes[tid].ast)
                   for tid, lab in guards(g, n.id, start=un.id)):
                sets.append((n, x))
        elif rvar in names(v):
            sets.append((n, x))
    rep.check(bool(sets), rid, f, 'the first result of _unschedule_completed '
              'is used to set `%s`, which guards the wait pool pass' % ftxt,
              construct='wake-up',
              message='the first result of _unschedule_completed (`%s`) does '
              'not set the flag `%s` that guards _schedule_waitpool: released '
              'resources do not wake up waiting tasks' % (rvar, ftxt),
              loc=f.loc(un.ast),
              history='a task waits alone, the running task finishes: the '
              'waiting task is not started until a new task arrives')
    # no unconditional clearing of the flag between the wake-up and the pass
    clears = []
    for s, x in sets:
        for n, y in flag_assigns():
            if y == x and isinstance(n.ast.value, ast.Constant) and \
                    not n.ast.value.value:
                # reachable after the set, before the pass, through the back
                # edge, and not avoidable
                if n.id in g.reachable(s.id) and \
                        must_pass(g, s.id, wn.id, [n.id]):
                    clears.append(n)
    rep.check(not clears, rid, f, 'the wake-up flag is not cleared on the way '
              'to the wait pool pass', construct='wake-up:clear',
              message='`%s` is set after a release but unconditionally cleared '
              'again before _schedule_waitpool runs' % ftxt,
              loc=f.loc(clears[0].ast) if clears else f.loc(),
              history='a task waits alone, the running task finishes: the '
              'waiting task is not started until a new task arrives')


# ------------------------------------------------------------------------------
# R04.6  a noted release survives until the wait pool pass
#
# The loop keeps "is it worth looking at the wait pool" in boolean locals.  The
# rule evaluates those locals abstractly (known truthy / known falsy / unknown)
# along the paths of the loop: starting right after the call of
# _unschedule_completed with its first result truthy, every path must reach
# the call of _schedule_waitpool (or leave the loop) before it reaches
# _unschedule_completed again.  Results of other calls are unconstrained, each
# branch on an unknown value is taken both ways and remembered on that path.
#
_CONST_CMP = (ast.Is, ast.IsNot, ast.Eq, ast.NotEq)

# abstract values of a local: exactly True / False / None, or only known to be
# truthy ('T') / falsy ('F'); unknown = not in the environment
_EXACT = {'True': True, 'False': False, 'None': None}


def _av_truth(av):
    if av is None:
        return None
    return av in ('True', 'T')


def _av_const(c):
    for k, v in _EXACT.items():
        if c is v:
            return k
    return 'T' if c else 'F'


def _av_is(av, const):
    """`x is const` / `x == const` for x with abstract value av and const in
    (True, False, None): True / False / None(unknown)"""
    if av is None:
        return None
    if av in _EXACT:
        return _EXACT[av] is const
    if av == 'T':
        return None if const is True else False
    return False if const is True else None


def _is_bool_call(e):
    return isinstance(e, ast.Call) and isinstance(e.func, ast.Name) and \
        e.func.id == 'bool' and len(e.args) == 1 and not e.keywords


def _const_cmp(e):
    """(operand, constant, positive) of `x is C` / `x == C` / `x is not C` /
    `x != C` with C in (True, False, None), else None"""
    if isinstance(e, ast.Compare) and len(e.ops) == 1 and \
            isinstance(e.ops[0], _CONST_CMP) and \
            isinstance(e.comparators[0], ast.Constant) and \
            any(e.comparators[0].value is c for c in (True, False, None)):
        return (e.left, e.comparators[0].value,
                isinstance(e.ops[0], (ast.Is, ast.Eq)))
    return None


def _boolean_typed(e):
    """the value of `e` is exactly True or False"""
    if isinstance(e, ast.Constant):
        return isinstance(e.value, bool)
    if isinstance(e, ast.UnaryOp) and isinstance(e.op, ast.Not):
        return True
    if isinstance(e, ast.Compare) or _is_bool_call(e):
        return True
    if isinstance(e, ast.BoolOp):
        return all(_boolean_typed(v) for v in e.values)
    if isinstance(e, ast.IfExp):
        return _boolean_typed(e.body) and _boolean_typed(e.orelse)
    return False


def _evaluable(e):
    """the expression is built only from local names, constants, not/and/or,
    bool(), comparisons with True/False/None and conditional expressions"""
    if isinstance(e, (ast.Name, ast.Constant)):
        return True
    if isinstance(e, ast.UnaryOp) and isinstance(e.op, ast.Not):
        return _evaluable(e.operand)
    if isinstance(e, ast.BoolOp):
        return all(_evaluable(v) for v in e.values)
    if isinstance(e, ast.BinOp) and isinstance(e.op, (ast.BitOr, ast.BitAnd)):
        return _evaluable(e.left) and _evaluable(e.right)
    if _is_bool_call(e):
        return _evaluable(e.args[0])
    if isinstance(e, ast.IfExp):
        return _evaluable(e.test) and _evaluable(e.body) and \
            _evaluable(e.orelse)
    c = _const_cmp(e)
    if c:
        return _evaluable(c[0])
    return False


def _aval(e, env):
    """abstract value of `e` under `env` (name -> abstract value) or None"""
    if isinstance(e, ast.Constant):
        return _av_const(e.value)
    if isinstance(e, ast.Name):
        return env.get(e.id)
    if isinstance(e, ast.BoolOp):
        # short circuit: the value is that of the deciding operand
        conj = isinstance(e.op, ast.And)
        for x in e.values[:-1]:
            t = _truth(x, env)
            if t is None:
                break
            if t != conj:
                return _aval(x, env)
        else:
            return _aval(e.values[-1], env)
    if isinstance(e, ast.IfExp):
        t = _truth(e.test, env)
        if t is not None:
            return _aval(e.body if t else e.orelse, env)
        a, b = _aval(e.body, env), _aval(e.orelse, env)
        if a is not None and a == b:
            return a
    t = _truth(e, env)
    if t is None:
        return None
    if _boolean_typed(e):
        return 'True' if t else 'False'
    return 'T' if t else 'F'


def _truth(e, env):
    """truthiness of `e` under `env`: True / False / None(unknown)"""
    if isinstance(e, ast.Constant):
        return bool(e.value)
    if isinstance(e, ast.Name):
        return _av_truth(env.get(e.id))
    if isinstance(e, ast.UnaryOp) and isinstance(e.op, ast.Not):
        v = _truth(e.operand, env)
        return None if v is None else not v
    if isinstance(e, ast.BoolOp) or (isinstance(e, ast.BinOp) and
                                     isinstance(e.op, ast.BitOr)):
        vals = [_truth(v, env) for v in (
            e.values if isinstance(e, ast.BoolOp) else [e.left, e.right])]
        if isinstance(e, ast.BoolOp) and isinstance(e.op, ast.And):
            if any(v is False for v in vals):
                return False
            return True if all(v is True for v in vals) else None
        if any(v is True for v in vals):
            return True
        return False if all(v is False for v in vals) else None
    if isinstance(e, ast.BinOp) and isinstance(e.op, ast.BitAnd):
        vals = [_truth(e.left, env), _truth(e.right, env)]
        return False if any(v is False for v in vals) else None
    if _is_bool_call(e):
        return _truth(e.args[0], env)
    if isinstance(e, ast.IfExp):
        t = _truth(e.test, env)
        a, b = _truth(e.body, env), _truth(e.orelse, env)
        if t is not None:
            return a if t else b
        return a if a == b else None
    c = _const_cmp(e)
    if c:
        x, const, pos = c
        v = _av_is(_aval(x, env), const)
        return None if v is None else (v == pos)
    return None


def _assume(e, val, env):
    """`env` refined by the fact that `e` is truthy (val) / falsy; None when
    that contradicts what is known"""
    v = _truth(e, env)
    if v is not None:
        return env if v == val else None
    if isinstance(e, ast.Name):
        env = dict(env)
        env[e.id] = 'T' if val else 'F'
        return env
    if isinstance(e, ast.UnaryOp) and isinstance(e.op, ast.Not):
        return _assume(e.operand, not val, env)
    if _is_bool_call(e):
        return _assume(e.args[0], val, env)
    if isinstance(e, ast.BoolOp):
        conj = isinstance(e.op, ast.And)
        if val == conj:
            # all operands true (and) / all operands false (or)
            for x in e.values:
                env = _assume(x, val, env)
                if env is None:
                    return None
            return env
        open_ = [x for x in e.values if _truth(x, env) is None]
        if len(open_) == 1:
            return _assume(open_[0], val, env)
        return env
    c = _const_cmp(e)
    if c:
        x, const, pos = c
        if val == pos and isinstance(x, ast.Name):
            # x is exactly the constant (its value is compatible, else the
            # comparison would have been decided above)
            env = dict(env)
            env[x.id] = _av_const(const)
            return env
        if val == pos:
            return _assume(x, const is True, env)
        return env
    return env



def _bound_names(node):
    """plain names (re)bound when the cfg node takes effect"""
    a = node.ast
    out = set()
    if a is None or node.kind in ('while', 'dispatch', 'join'):
        return out
    if node.kind == 'for':
        return set(stores_in_target(a.target))
    if node.kind == 'with':
        for i in a.items:
            if i.optional_vars is not None:
                out |= set(stores_in_target(i.optional_vars))
            out |= {x.target.id for x in walk(i.context_expr)
                    if isinstance(x, ast.NamedExpr)}
        return out
    if node.kind == 'handler':
        return {a.name} if getattr(a, 'name', None) else out
    if isinstance(a, (ast.FunctionDef, ast.AsyncFunctionDef, ast.ClassDef)):
        return {a.name}
    if isinstance(a, (ast.Import, ast.ImportFrom)):
        return {(al.asname or al.name).split('.')[0] for al in a.names}
    for x in walk(a):
        if isinstance(x, ast.Name) and isinstance(x.ctx, (ast.Store, ast.Del)):
            out.add(x.id)
    return out


class _FlagFlow:
    """abstract evaluation of the boolean locals `relevant` over a cfg"""

    def __init__(self, f, g, relevant, guard_names, max_states=60000):
        self.f, self.g, self.relevant = f, g, relevant
        self.guard_names = guard_names
        self.max_states = max_states

    def _freeze(self, env):
        return frozenset((k, v) for k, v in env.items() if k in self.relevant)

    def step(self, node, edge, st):
        """states after leaving `node` through `edge` in state `st`"""
        if edge.label == 'exc':
            return [st]                      # the node had no effect
        env = dict(st)
        a = node.ast
        if node.kind == 'test':
            for x in walk(a):
                if isinstance(x, ast.NamedExpr):
                    env.pop(x.target.id, None)
            if edge.label in ('T', 'F'):
                env = _assume(a, edge.label == 'T', env)
                if env is None:
                    return []
            return [self._freeze(env)]
        if node.kind == 'stmt' and isinstance(a, (ast.Assign, ast.AnnAssign)) \
                and a.value is not None:
            tg = a.targets if isinstance(a, ast.Assign) else [a.target]
            if all(isinstance(t, ast.Name) for t in tg):
                return self._assign([t.id for t in tg], a.value, env, node)
        if node.kind == 'stmt' and isinstance(a, ast.AugAssign) and \
                isinstance(a.target, ast.Name) and \
                isinstance(a.op, (ast.BitOr, ast.BitAnd)):
            val = ast.BinOp(left=ast.Name(id=a.target.id, ctx=ast.Load()),
                            op=a.op, right=a.value)
            return self._assign([a.target.id], val, env, node)
        bound = _bound_names(node)
        if bound & self.relevant:
            self._free_input(bound, getattr(a, 'value', None)
                             if node.kind == 'stmt' else None, node)
        for b in bound:
            env.pop(b, None)
        return [self._freeze(env)]

    def _free_input(self, bound, value, node):
        """a relevant local is bound to something this rule cannot evaluate.
        That is an unconstrained input only for the result of a call which
        does not read the flags (the three steps of the loop report what they
        found) and only for a local that is not itself tested by the guard of
        the pass; everything else: do not guess"""
        reads = {x.id for x in walk(value) if isinstance(x, ast.Name)} \
            if value is not None else set()
        if isinstance(value, ast.Call) and isinstance(
                node.ast, (ast.Assign, ast.AnnAssign)) and \
                not (reads & self.relevant) and \
                not (bound & self.guard_names):
            return
        raise AnalysisError(
            'UNRECOGNISED-IDIOM %s: `%s` computes a flag of the scheduling '
            'loop in a way that is neither a boolean expression over locals '
            'nor the result of one of the steps'
            % (self.f.where, short(node.ast, 70)
               if node.kind == 'stmt' else node.kind))

    def _assign(self, names, value, env, node):
        if not (set(names) & self.relevant):
            for n in names:
                env.pop(n, None)
            return [self._freeze(env)]
        if not _evaluable(value):
            self._free_input(set(names), value, node)
            for n in names:
                env.pop(n, None)
            return [self._freeze(env)]
        out = []
        av = _aval(value, env)
        for val in (True, False):
            e2 = _assume(value, val, env)
            if e2 is None:
                continue
            e2 = dict(e2)
            v2 = av if av is not None else _aval(value, e2)
            if v2 is None or _av_truth(v2) != val:
                v2 = ('True' if val else 'False') if _boolean_typed(value) \
                    else ('T' if val else 'F')
            for n in names:
                e2[n] = v2
            out.append(self._freeze(e2))
        return out

    def run(self, starts, stop, exc=True):
        """reachability over (node, state) from `starts` [(node id, state)];
        `stop(node id)` ends a path; exc=False: exception edges are not
        followed.  Returns (parent map, stopped keys)"""
        parent = {}
        todo = deque()
        for k in starts:
            if k not in parent:
                parent[k] = None
                todo.append(k)
        stopped = []
        while todo:
            key = todo.popleft()
            nid, st = key
            if len(parent) > self.max_states:
                raise AnalysisError('UNRECOGNISED-IDIOM %s: flag evaluation '
                                    'exceeds %d states'
                                    % (self.f.where, self.max_states))
            node = self.g.nodes[nid]
            for e in self.g.succ[nid]:
                if e.label == 'exc' and not exc:
                    continue
                for st2 in self.step(node, e, st):
                    k2 = (e.dst, st2)
                    if k2 in parent:
                        continue
                    parent[k2] = (key, e)
                    if stop(e.dst):
                        stopped.append(k2)
                    else:
                        todo.append(k2)
        return parent, stopped

    def witness(self, parent, key):
        """[(cfg node, edge, state after)] from a start to `key`"""
        out = []
        while parent.get(key) is not None:
            prev, e = parent[key]
            out.append((self.g.nodes[e.src], e, dict(key[1])))
            key = prev
        out.reverse()
        return out


def _wakeup_anchors(prog):
    """(f, g, smap, node of the _schedule_waitpool call, node of the
    _unschedule_completed call, name bound to its first result)"""
    f = prog.method(BASE[0], BASE[1], '_schedule_tasks')
    g = cfg_of(f)
    smap = I.stmt_node_map(g)
    wp = [c for c in calls_in(f.node)
          if call_name(c) == 'self._schedule_waitpool']
    uc = [n for n in walk(f.node) if isinstance(n, ast.Assign) and
          isinstance(n.value, ast.Call) and
          call_name(n.value) == 'self._unschedule_completed']
    if len(wp) != 1 or len(uc) != 1:
        raise AnalysisError('UNRECOGNISED-IDIOM %s: calls of '
                            '_schedule_waitpool/_unschedule_completed'
                            % f.where)
    t = uc[0].targets[0]
    rvar = t.elts[0].id if isinstance(t, ast.Tuple) and t.elts and \
        isinstance(t.elts[0], ast.Name) else (t.id if isinstance(t, ast.Name)
                                              else None)
    return f, g, smap, smap[id(wp[0])], smap[id(uc[0])], rvar


def _tf_edges(g, n):
    return [e for e in g.succ[n.id] if e.label in ('T', 'F')]


def _pass_guard(g, wn):
    """(loop head id, first node of an iteration, node ids of one iteration,
    its test nodes, the tests which decide whether the wait pool pass `wn`
    runs in an iteration: their out-edges differ in whether the pass can be
    reached or in whether it is reached on every path to the next iteration)"""
    head = wn.loops[0]
    lstart = loop_slice(g, head)[0]
    inbody = g.reachable(lstart, no_back=True) & g.loop_body[head]
    tests = [n for n in g.nodes if n.kind == 'test' and n.id in inbody]

    def runs_pass(nid):
        # (may run the pass, runs it on every path to the next iteration)
        may = wn.id in g.reachable(nid, no_back=True)
        return may, may and head not in g.reachable(nid, skip_nodes={wn.id})
    deciding = [n for n in tests
                if len({runs_pass(e.dst) for e in _tf_edges(g, n)
                        if head in g.reachable(e.dst)}) > 1]
    return head, lstart, inbody, tests, deciding


def r04_6(prog, rep, rid='R04.6'):
    rep.rule(rid, 'a release noted in one iteration of the scheduling loop is '
             'not forgotten: from _unschedule_completed with a true first '
             'result every path runs the wait pool pass before it reclaims '
             'again', minimum=1)
    f, g, smap, wn, un, rvar = _wakeup_anchors(prog)
    rep.saw(f)
    if rvar is None or not wn.loops or not un.loops or \
            wn.loops[0] != un.loops[0]:
        raise AnalysisError('UNRECOGNISED-IDIOM %s: _schedule_waitpool and '
                            '_unschedule_completed are not steps of one loop, '
                            'or the release result is not bound to a name'
                            % f.where)
    head, lstart, inbody, tests, deciding = _pass_guard(g, wn)
    # the locals read by the tests which decide whether the pass runs, and all
    # those depend on
    gnames = set()
    for n in deciding:
        if not _evaluable(n.ast):
            raise AnalysisError(
                'UNRECOGNISED-IDIOM %s: the wait pool pass depends on `%s`, '
                'which is not a boolean expression over locals'
                % (f.where, short(n.ast, 60)))
        gnames |= {x.id for x in walk(n.ast) if isinstance(x, ast.Name)}
    d = Deps(f.node)
    relevant = set(gnames) | {rvar}
    for n in list(gnames):
        relevant |= {x for x in d.closure(n) if x.isidentifier()}
    relevant.discard('self')
    # a test this rule cannot evaluate must not decide what a flag becomes
    binders = {n.id for n in g.nodes if n.id in inbody and n.kind != 'test'
               and _bound_names(n) & relevant}
    for n in tests:
        if _evaluable(n.ast):
            continue
        es = [e for e in _tf_edges(g, n) if head in g.reachable(e.dst)]
        if len({frozenset(g.reachable(e.dst, no_back=True) & binders)
                for e in es}) > 1:
            raise AnalysisError(
                'UNRECOGNISED-IDIOM %s: a flag of the scheduling loop is '
                'updated depending on `%s`, which is not a boolean '
                'expression over locals' % (f.where, short(n.ast, 60)))
    ff = _FlagFlow(f, g, relevant, gnames)
    # (A) the valuations of those locals with which the loop can arrive at the
    # call of _unschedule_completed (fixpoint over all iterations)
    parent, _ = ff.run([(g.entry.id, frozenset())], lambda nid: False)
    arrive = sorted({st for nid, st in parent if nid == un.id},
                    key=lambda s: sorted(s))
    if not arrive:
        raise AnalysisError('UNRECOGNISED-IDIOM %s: the call of '
                            '_unschedule_completed is not reachable' % f.where)
    rep.stat('wakeup_states', len(parent))
    # (B) from there, with a release reported
    groups = {}
    for st in arrive:
        groups.setdefault(frozenset((k, v) for k, v in st if k in gnames),
                          []).append(st)
    for proj in sorted(groups, key=lambda s: sorted(s)):
        starts = []
        for st in groups[proj]:
            env = dict(st)
            for b in _bound_names(un):
                env.pop(b, None)
            env[rvar] = 'T'
            for e in g.succ[un.id]:
                if e.label != 'exc':
                    starts.append((e.dst, ff._freeze(env)))
        stops = {wn.id, un.id, g.exit.id, g.raise_.id}
        # (exceptions raised between the release and the pass are not
        # followed: an exception here ends the scheduler process)
        par, stopped = ff.run(starts, lambda nid: nid in stops or
                              head not in g.nodes[nid].loops and nid != head,
                              exc=False)
        lost = [k for k in stopped if k[0] == un.id]
        desc = ', '.join('%s %s' % (k, 'true' if _av_truth(v) else 'false')
                         for k, v in sorted(proj)) or 'any state of the flags'
        what = ('after a release (%s true; before it: %s) the loop runs '
                '_schedule_waitpool before it calls _unschedule_completed '
                'again' % (rvar, desc))
        if not lost:
            rep.ok(rid, f, what, f.loc(un.ast))
            continue
        wit = ff.witness(par, lost[0])
        path, kill = [], None
        for node, e, after in wit:
            if node.kind == 'test' and e.label in 'TF':
                if not ({x.id for x in walk(node.ast)
                         if isinstance(x, ast.Name)} & relevant):
                    continue
                a = short(node.ast, 60)
                path.append(a if e.label == 'T' else 'not (%s)' % a)
            elif node.kind == 'stmt' and e.label != 'exc' and \
                    _bound_names(node) & relevant:
                path.append(short(node.ast, 60))
                if _bound_names(node) & gnames:
                    kill = node
        gtxt = ' and '.join(sorted(gnames)) or '(none)'
        if kill is not None:
            why = ('`%s` (line %d) is executed after the release was noted '
                   'and decides the guard' % (short(kill.ast, 60),
                                              kill.lineno))
            hist = ('1 node with 4 cores: A (3 cores) runs, W (2 cores) '
                    'waits; X (2 cores) arrives and has to wait too, and in '
                    'the same loop iteration A completes: the release is '
                    'noted and forgotten, the pilot is idle with W and X '
                    'waiting forever')
        else:
            why = ('nothing on that path makes the guard true')
            hist = ('1 node with 4 cores: A (3 cores) runs, W (2 cores) waits '
                    'alone (the loop has stopped looking at the wait pool); A '
                    'completes: the release is not noted, the pilot is idle '
                    'and W waits forever')
        rep.bad(rid, f, 'wake-up:survives',
                '%s: _unschedule_completed reports a release (`%s` true) but '
                'the loop can reach the next call of _unschedule_completed '
                'without running _schedule_waitpool in between: the guard of '
                'the wait pool pass (`%s`) is false in the next iteration - '
                '%s.  The released resources are not offered to the waiting '
                'tasks until some other task completes'
                % (f.name, rvar, gtxt, why),
                f.loc(kill.ast if kill is not None else un.ast),
                history=hist, path=path)


# ------------------------------------------------------------------------------
# R04.5  cancel of waiting tasks
#
def r04_5(prog, rep, rid='R04.5'):
    rep.rule(rid, 'cancel of waiting tasks: removal from the pool and '
             'collection for the CANCELED hand-on happen together, keyed by '
             'the requested uid; the collected tasks are handed on once',
             minimum=1)
    f = prog.method(BASE[0], BASE[1], '_schedule_incoming')
    g = cfg_of(f)
    smap = I.stmt_node_map(g)
    canceled = prog.const('states.py', 'CANCELED')
    hands = [c for c in calls_in(f.node) if I.is_handon(c) and
             I.handon_state(prog, f, c) == canceled]
    if not hands:
        raise AnalysisError('UNRECOGNISED-IDIOM %s: no CANCELED hand-on'
                            % f.where)
    for h in hands:
        thing = I.handon_thing(h)
        if not isinstance(thing, ast.Name):
            raise AnalysisError('UNRECOGNISED-IDIOM %s: CANCELED hand-on of '
                                '`%s`' % (f.where, short(thing, 30)))
        lst = thing.id
        hn = smap[id(h)]
        apps = [c for c in calls_in(f.node)
                if isinstance(c.func, ast.Attribute) and
                c.func.attr == 'append' and
                isinstance(c.func.value, ast.Name) and c.func.value.id == lst]
        pool_al = I.Aliases(prog, None, {f.name: f}, 'self._waitpool')
        dels = [n for n in walk(f.node) if isinstance(n, ast.Delete) and
                isinstance(n.targets[0], ast.Subscript) and
                pool_al.is_rooted_expr(f.name, n.targets[0])]
        if not apps:
            rep.bad(rid, f, h, 'the list `%s` handed on as CANCELED is never '
                    'filled: waiting tasks named in a cancel request are '
                    'removed (if at all) without a final state' % lst,
                    f.loc(h), history='cancel of a waiting task: it vanishes '
                    'from the pool, the application never sees CANCELED')
            continue
        for a in apps:
            an = smap[id(a)]
            pair = [d for d in dels
                    if set(guards(g, smap[id(d)].id)) == set(guards(g, an.id))
                    and smap[id(d)].loops == an.loops]
            if len(pair) != 1 and dels:
                # both a removal and a collection exist but under different
                # tests (e.g. the lookup+removal sits in a helper that returns
                # the task): decide by paths - the collection must pass a
                # removal and a removal must reach the collection
                dn = [smap[id(x)].id for x in dels]
                st0 = loop_slice(g, an.loops[-1])[0] if an.loops else \
                    g.entry.id
                passes = must_pass_feasible(g, st0, an.id, dn)
                fors = [h for h in an.loops if g.nodes[h].kind == 'for']
                near = [x for x in dn if fors and x in g.loop_body[fors[0]]]
                if not passes and not near:
                    # no removal at all while the requested uids are walked
                    rep.bad(rid, f, a, 'a waiting task is collected for the '
                            'CANCELED hand-on but no removal from the wait '
                            'pool happens in the loop over the requested uids',
                            f.loc(a), history='cancel of a waiting task: it '
                            'is reported CANCELED and later started')
                    continue
                if not passes:
                    raise AnalysisError(
                        'UNRECOGNISED-IDIOM %s: removal from the wait pool '
                        'and collection for CANCELED are under different '
                        'tests' % f.where)
                rep.ok(rid, f, 'collecting a task for CANCELED passes its '
                       'removal from the wait pool', f.loc(a))
                continue
            rep.check(len(pair) == 1, rid, f, 'collecting a task for CANCELED '
                      'and deleting it from the wait pool happen together',
                      construct=a, message='a waiting task is collected for '
                      'the CANCELED hand-on without being deleted from the '
                      'wait pool under the same conditions (or vice versa)',
                      loc=f.loc(a),
                      history='cancel of a waiting task: it is reported '
                      'CANCELED and later started, or silently removed '
                      'without a final state')
            # keyed by the uid of the request
            d = Deps(f.node)
            for dd in pair:
                key = dd.targets[0].slice
                loopvars = set()
                for hid in an.loops:
                    hn2 = g.nodes[hid]
                    if hn2.kind == 'for':
                        loopvars |= set(stores_in_target(hn2.ast.target))
                okk = isinstance(key, ast.Name) and key.id in loopvars
                # and the collected task was looked up by that key
                arg = a.args[0]
                look = False
                for n in walk(f.node):
                    if isinstance(n, ast.Assign) and isinstance(arg, ast.Name) \
                            and any(isinstance(t, ast.Name) and t.id == arg.id
                                    for t in n.targets) and \
                            isinstance(key, ast.Name) and key.id in \
                            {x.id for x in walk(n.value)
                             if isinstance(x, ast.Name)} and \
                            pool_al.is_rooted_expr(f.name, n.value):
                        look = True
                rep.check(okk and look, rid, f, 'the task removed is the one '
                          'looked up by the requested uid', construct=dd,
                          message='the wait pool entry deleted / the task '
                          'collected is not the one named by the requested '
                          'uid', loc=f.loc(dd),
                          history='cancel of task A removes task B from the '
                          'wait pool')
        # handed on once, after the collection loops, unconditionally within
        # the cancel branch
        outer = [hh for hh in (smap[id(a)].loops for a in apps)]
        inner_loops = set()
        for a in apps:
            inner_loops |= set(smap[id(a)].loops) - set(hn.loops)
        okh = bool(inner_loops) and I.flag(h, 'publish') is True and \
            set(guards(g, hn.id)) <= set(guards(g, smap[id(apps[0])].id))
        rep.check(okh, rid, f, 'the collected tasks are handed on as CANCELED '
                  'once after the collection, with publish=True',
                  construct=h, message='the CANCELED hand-on of `%s` is inside '
                  'the collection loop, conditional, or not published' % lst,
                  loc=f.loc(h),
                  history='cancel of two waiting tasks: the first is reported '
                  'CANCELED twice (or never)')


# ------------------------------------------------------------------------------
#
def run(prog, rep, tier):
    rep.decided = ('exactly one outcome per task on every path of the intake '
        'loop, the placement loop, the wait-pool insertion (incl. the '
        'post-insert cancel check), the wait-pool triage and the consumption '
        'of all three lazy_bisect results; the "can never be scheduled" raise '
        'is control dependent on _active_cnt == 0 and the other outcome is '
        'wait; priorities are iterated in descending order in both loops; a '
        'release re-enables the wait pool pass on every path of the loop from '
        'the reclaim step (first result true) to the next reclaim step (the '
        'boolean locals of the loop are evaluated abstractly, the results of '
        'the three steps are unconstrained); cancel of waiting tasks '
        'removes and reports together, keyed by the requested uid.')
    rep.undecided = ('absence of starvation in general and "as soon as" '
        '(timing of the loop); the bisect heuristics of ru.lazy_bisect.')
    rep.assumptions = [
        'effects are atomic (an advance either happened or raised before '
        'having an effect)',
        'ru.lazy_bisect returns a partition (good, bad, failed) of its input',
        'BaseComponent.is_canceled(task) hands the task on as CANCELED '
        'exactly when it returns True (checked by C08)',
    ]
    rep.attempt(r04_1, prog, rep)
    rep.attempt(r04_2, prog, rep)
    rep.attempt(r04_3, prog, rep)
    rep.attempt(r04_4, prog, rep)
    rep.attempt(r04_6, prog, rep)
    rep.attempt(r04_5, prog, rep)
    # the counter the rule R04.2 rests on
    from .c03 import r03_3
    rep.attempt(r03_3, prog, rep, rid='R03.3')
    rep.rule('R04.4', rep.rules['R04.4'], minimum=2)


# ------------------------------------------------------------------------------
_B = 'agent/scheduler/base.py'
_RANOUT = "            if resources and (r_wait is False and r_inc is False):\n                resources = False\n"
_NEWPOOL = "            self._waitpool[priority] = {task['uid']: task\n                                            for task in (unscheduled + to_wait)}\n"
_WAKE = "            if not resources and r:\n                resources = True\n"

MUTATIONS = [
    dict(name='R04.1 invalid-ranks task failed and scheduled (F10 reverted)', rules=('R04.1',), edits=[
        (_B, "                        self._fail_task(task, ValueError('invalid ranks'), '')\n                        continue\n", "                        self._fail_task(task, ValueError('invalid ranks'), '')\n")]),
    dict(name='R04.1 raptor-seen task not scheduled', rules=('R04.1',), edits=[
        (_B, "                            self._set_tuple_size(task)\n                            to_schedule[priority].append(task)\n\n                        else:\n                            to_raptor", "                            self._set_tuple_size(task)\n\n                        else:\n                            to_raptor")]),
    dict(name='R04.1 task waiting for a named env is dropped', rules=('R04.1',), edits=[
        (_B, "                    if named_env not in self._named_envs:\n                        to_wait.append(task)\n", "                    if named_env not in self._named_envs:\n")]),
    dict(name='R04.1 placed task started and kept waiting', rules=('R04.1',), edits=[
        (_B, "                        self.advance(task, rps.AGENT_EXECUTING_PENDING,\n                                     publish=True, push=True, fwd=True)\n\n                    else:\n                        to_wait.append(task)\n", "                        self.advance(task, rps.AGENT_EXECUTING_PENDING,\n                                     publish=True, push=True, fwd=True)\n\n                    to_wait.append(task)\n")]),
    dict(name='R04.1 allocation error swallowed', rules=('R04.1',), edits=[
        (_B, "                except Exception as e:\n                    self._fail_task(task, e, '\\n'.join(ru.get_exception_trace()))\n\n\n            # all tasks which could not", "                except Exception as e:\n                    self._log.exception('oops')\n\n\n            # all tasks which could not")]),
    dict(name='R04.1 pre-placed task started without leaving the loop body', rules=('R04.1',), edits=[
        (_B, "                    self.advance(task, rps.AGENT_EXECUTING_PENDING,\n                                 publish=True, push=True, fwd=True)\n                    continue\n", "                    self.advance(task, rps.AGENT_EXECUTING_PENDING,\n                                 publish=True, push=True, fwd=True)\n")]),
    dict(name='R04.1 canceled task stays in the wait pool', rules=('R04.1',), edits=[
        (_B, "                if self.is_canceled(task) is True:\n                    del self._waitpool[priority][uid]\n", "                if self.is_canceled(task) is True:\n                    pass\n")]),
    dict(name='R04.1 cancel check polarity flipped', rules=('R04.1',), edits=[
        (_B, "                if self.is_canceled(task) is True:\n                    del self._waitpool[priority][uid]\n", "                if self.is_canceled(task) is False:\n                    del self._waitpool[priority][uid]\n")]),
    dict(name='R04.1 waiting tasks never enter the pool', rules=('R04.1',), edits=[
        (_B, "                uid = task['uid']\n                self._waitpool[priority][uid] = task\n", "                uid = task['uid']\n")]),
    dict(name='R04.1 pool task with unknown env dropped', rules=('R04.1',), edits=[
        (_B, "                        to_test.append(task)\n                    else:\n                        to_wait.append(task)\n                else:", "                        to_test.append(task)\n                else:")]),
    dict(name='R04.1 bisect failures ignored', rules=('R04.1',), edits=[
        (_B, "                self._fail_task(task, RuntimeError('bisect failed'), error)\n", "")]),
    dict(name='R04.1 new pool forgets tasks set aside', rules=('R04.1',), edits=[
        (_B, "                                            for task in (unscheduled + to_wait)}", "                                            for task in unscheduled}")]),
    dict(name='R04.1 new pool keeps started tasks', rules=('R04.1',), edits=[
        (_B, "                                            for task in (unscheduled + to_wait)}", "                                            for task in (scheduled + unscheduled + to_wait)}")]),
    dict(name='R04.1 placed pool tasks not pushed', rules=('R04.1',), edits=[
        (_B, "            self.advance(scheduled, rps.AGENT_EXECUTING_PENDING, publish=True,\n                                                                 push=True)", "            self.advance(scheduled, rps.AGENT_EXECUTING_PENDING, publish=True,\n                                                                 push=False)")]),
    dict(name='R04.1 placed pool tasks started only when all fit', rules=('R04.1',), edits=[
        (_B, "            self.advance(scheduled, rps.AGENT_EXECUTING_PENDING, publish=True,\n                                                                 push=True)", "            if not unscheduled:\n                self.advance(scheduled, rps.AGENT_EXECUTING_PENDING, publish=True,\n                                                                 push=True)")]),
    dict(name='R04.2 never-schedulable raised whenever placement fails', rules=('R04.2',), edits=[
        (_B, "                if self._active_cnt == 0:\n                    raise RuntimeError('task can never be scheduled')", "                if self._active_cnt >= 0:\n                    raise RuntimeError('task can never be scheduled')")]),
    dict(name='R04.2 test polarity flipped', rules=('R04.2',), edits=[
        (_B, "                if self._active_cnt == 0:", "                if self._active_cnt != 0:")]),
    dict(name='R04.2 never-schedulable tasks wait forever', rules=('R04.2',), edits=[
        (_B, "                if self._active_cnt == 0:\n                    raise RuntimeError('task can never be scheduled')\n\n", "")]),
    dict(name='R04.2 failed placement always raises', rules=('R04.2',), edits=[
        (_B, "                if self._active_cnt == 0:\n                    raise RuntimeError('task can never be scheduled')\n\n                return False\n", "                raise RuntimeError('task can never be scheduled')\n")]),
    dict(name='R04.3 wait pool in ascending priority', rules=('R04.3',), edits=[
        (_B, "        for priority in sorted(self._waitpool.keys(), reverse=True):", "        for priority in sorted(self._waitpool.keys()):")]),
    dict(name='R04.3 incoming in insertion order', rules=('R04.3',), edits=[
        (_B, "        for priority in sorted(to_schedule.keys(), reverse=True):", "        for priority in to_schedule:")]),
    dict(name='R04.4 wake-up uses the activity flag', rules=('R04.4', 'R04.6'), edits=[
        (_B, "            if not resources and r:\n                resources = True", "            if not resources and a and not r:\n                resources = True")]),
    dict(name='R04.4 wake-up removed', rules=('R04.4', 'R04.6'), edits=[
        (_B, "            if not resources and r:\n                resources = True\n", "")]),
    dict(name='R04.4 release not reported', rules=('R04.4',), edits=[
        (_B, "        # we have new resources, and were active\n        return True, True", "        # we have new resources, and were active\n        return None, True")]),
    dict(name='R04.5 canceled waiting task not removed', rules=('R04.5',), edits=[
        (_B, "                                to_cancel.append(task)\n                                del self._waitpool[priority][uid]\n", "                                to_cancel.append(task)\n")]),
    dict(name='R04.5 waiting task removed without report', rules=('R04.5',), edits=[
        (_B, "                                to_cancel.append(task)\n                                del self._waitpool[priority][uid]\n", "                                del self._waitpool[priority][uid]\n")],
         note='no collection left: UNRECOGNISED or violation both acceptable'),
    dict(name='R04.5 CANCELED hand-on not published', rules=('R04.5',), edits=[
        (_B, "                    self.advance(to_cancel, rps.CANCELED,\n                                                       push=False, publish=True)", "                    self.advance(to_cancel, rps.CANCELED,\n                                                       push=False, publish=False)")]),
    dict(name='R03.3 grant not counted (R04.2 rests on it)', rules=('R03.3',), edits=[
        (_B, "            self._active_cnt += 1\n\n            # the task was placed", "            # the task was placed")]),
    dict(name='R04.1 wait list shared by all priorities (seed C04-a)', rules=('R04.1',), edits=[
        (_B, "            tasks   = to_schedule[priority]\n            to_wait = list()\n", "            tasks   = to_schedule[priority]\n"),
        (_B, "        for priority in sorted(to_schedule.keys(), reverse=True):\n", "        to_wait = list()\n        for priority in sorted(to_schedule.keys(), reverse=True):\n")]),
    dict(name='R04.1 new pool filled by a loop over the unscheduled tasks only', rules=('R04.1',), edits=[
        (_B, _NEWPOOL, "            new_pool = dict()\n            for task in unscheduled:\n                new_pool[task['uid']] = task\n            self._waitpool[priority] = new_pool\n")]),
    dict(name='R04.1 new pool filled by loops which include the started tasks', rules=('R04.1',), edits=[
        (_B, _NEWPOOL, "            new_pool = dict()\n            for tasks in (scheduled, unscheduled, to_wait):\n                for task in tasks:\n                    new_pool[task['uid']] = task\n            self._waitpool[priority] = new_pool\n")]),
    dict(name='R04.6 ran-out evaluated after the release was noted (seed C04-c)', rules=('R04.6',), edits=[
        (_B, _RANOUT, ""),
        (_B, _WAKE, _WAKE + "\n" + _RANOUT)]),
    dict(name='R04.6 ran-out evaluated at the end of the iteration, without the flag guard', rules=('R04.6',), edits=[
        (_B, _RANOUT, ""),
        (_B, "            if not active:\n                time.sleep(0.1)  # FIXME: configurable\n", "            if not active:\n                time.sleep(0.1)  # FIXME: configurable\n\n            if r_wait is False and r_inc is False:\n                resources = False\n")]),
    dict(name='R04.6 flag as one expression in which ran-out wins over the release', rules=('R04.6',), edits=[
        (_B, _RANOUT, ""),
        (_B, _WAKE, "            resources = bool(resources or r) and not (r_wait is False and r_inc is False)\n")]),
    dict(name='R04.6 release result overwritten by a second intake before it is looked at', rules=('R04.6',), edits=[
        (_B, "            r, a = self._unschedule_completed()\n", "            r, a = self._unschedule_completed()\n            active += int(a)\n            r, a = self._schedule_incoming()\n")]),
    dict(name='R04.6 release noted only when an incoming task had to wait', rules=('R04.6',), edits=[
        (_B, _WAKE, "            if not resources and r and r_inc is False:\n                resources = True\n")]),
]

SILENT = [
    dict(name='never-schedulable test as `not self._active_cnt`', edits=[
        (_B, "                if self._active_cnt == 0:", "                if not self._active_cnt:")]),
    dict(name='invalid ranks handled with elif chain', edits=[
        (_B, "                        self._fail_task(task, ValueError('invalid ranks'), '')\n                        continue\n\n                    # check if this task", "                        self._fail_task(task, ValueError('invalid ranks'), '')\n                        continue\n                    else:\n                        pass\n\n                    # check if this task")]),
    dict(name='priority order via reversed(sorted())', edits=[
        (_B, "        for priority in sorted(self._waitpool.keys(), reverse=True):", "        for priority in reversed(sorted(self._waitpool.keys())):")]),
    dict(name='cancel check without `is True`', edits=[
        (_B, "                if self.is_canceled(task) is True:", "                if self.is_canceled(task):")]),
    dict(name='wake-up as boolean expression', edits=[
        (_B, "            if not resources and r:\n                resources = True", "            resources = bool(resources or r)")]),
    dict(name='placement result tested into a local first', edits=[
        (_B, "                    if self._try_allocation(task):\n                        # task got scheduled", "                    placed = self._try_allocation(task)\n                    if placed:\n                        # task got scheduled")]),
    dict(name='delete before collect in cancel branch', edits=[
        (_B, "                                to_cancel.append(task)\n                                del self._waitpool[priority][uid]\n", "                                del self._waitpool[priority][uid]\n                                to_cancel.append(task)\n")]),
    dict(name='new pool filled by two explicit loops (as in C04-r5)', edits=[
        (_B, _NEWPOOL, "            new_pool = dict()\n            for task in unscheduled:\n                new_pool[task['uid']] = task\n            for task in to_wait:\n                new_pool[task['uid']] = task\n            self._waitpool[priority] = new_pool\n")]),
    dict(name='new pool filled with update() of two comprehensions', edits=[
        (_B, _NEWPOOL, "            new_pool = {t['uid']: t for t in unscheduled}\n            new_pool.update({t['uid']: t for t in to_wait})\n            self._waitpool[priority] = new_pool\n")]),
    dict(name='release result in a renamed local', edits=[
        (_B, "            r, a = self._unschedule_completed()\n            if not resources and r:\n                resources = True\n            active += int(a)\n            self._log.debug_3('schedule tasks c: %s %s', r, a)\n", "            freed, a = self._unschedule_completed()\n            if not resources and freed:\n                resources = True\n            active += int(a)\n            self._log.debug_3('schedule tasks c: %s %s', freed, a)\n")]),
    dict(name='ran-out evaluated after the reclaim, but only when nothing was released', edits=[
        (_B, _RANOUT, ""),
        (_B, _WAKE, _WAKE + "            if resources and not r and (r_wait is False and r_inc is False):\n                resources = False\n")]),
    dict(name='ran-out test hoisted into a local', edits=[
        (_B, _RANOUT, "            ran_out = r_wait is False and r_inc is False\n            if resources and ran_out:\n                resources = False\n")]),
    dict(name='ran-out computed before and applied after the reclaim unless released', edits=[
        (_B, _RANOUT, "            ran_out = resources and r_wait is False and r_inc is False\n"),
        (_B, _WAKE, "            if r:\n                resources = True\n            elif ran_out:\n                resources = False\n")]),
    dict(name='flag update as if/elif after the reclaim', edits=[
        (_B, _RANOUT, ""),
        (_B, _WAKE, "            if r:\n                resources = True\n            elif r_wait is False and r_inc is False:\n                resources = False\n")]),
    dict(name='flag update as one expression after the reclaim', edits=[
        (_B, _RANOUT, ""),
        (_B, _WAKE, "            resources = bool(r) or (resources and not (r_wait is False and r_inc is False))\n")]),
    dict(name='ran-out decision in an extracted helper', edits=[
        (_B, _RANOUT, "            resources = self._still_useful(resources, r_wait, r_inc)\n"),
        (_B, "    def _prof_sched_skip(self, task):\n", "    def _still_useful(self, resources, r_wait, r_inc):\n\n        if resources and (r_wait is False and r_inc is False):\n            return False\n        return resources\n\n\n    def _prof_sched_skip(self, task):\n")]),
    dict(name='wake-up with a redundant test of the pool pass result', edits=[
        (_B, _WAKE, "            if not resources and r and r_wait is False:\n                resources = True\n")],
         note='when the flag is false the pass either did not run (r_wait = False) or returned False'),
    dict(name='guard of the pass through a derived local', edits=[
        (_B, "            if resources:\n                r_wait, a = self._schedule_waitpool()\n", "            do_pass = bool(resources)\n            if do_pass is True:\n                r_wait, a = self._schedule_waitpool()\n")]),
    dict(name='flag held as 1 / 0', edits=[
        (_B, _RANOUT, "            if resources and (r_wait is False and r_inc is False):\n                resources = 0\n"),
        (_B, _WAKE, "            if not resources and r:\n                resources = 1\n")]),
    dict(name='bookkeeping of the reclaim step before the wake-up', edits=[
        (_B, "            if not resources and r:\n                resources = True\n            active += int(a)\n            self._log.debug_3('schedule tasks c: %s %s', r, a)\n", "            active += int(a)\n            self._log.debug_3('schedule tasks c: %s %s', r, a)\n            if not resources and r:\n                resources = True\n")]),
    dict(name='scheduling loop as while True with break on termination', edits=[
        (_B, "        while not self._term.is_set():\n\n            self._log.debug_3('schedule tasks 0", "        while True:\n\n            if self._term.is_set():\n                break\n\n            self._log.debug_3('schedule tasks 0")]),
    dict(name='wait pool pass in the else branch of a negated guard', edits=[
        (_B, "            if resources:\n                r_wait, a = self._schedule_waitpool()\n                active += int(a)\n                self._log.debug_3('schedule tasks w: %s %s', r_wait, a)\n", "            if not resources:\n                self._log.debug_3('schedule tasks w: skipped')\n            else:\n                r_wait, a = self._schedule_waitpool()\n                active += int(a)\n                self._log.debug_3('schedule tasks w: %s %s', r_wait, a)\n")]),
]
